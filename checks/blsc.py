"""BLS family (C01-C05, C16, C17): TLC enumerates the class space of each decision procedure over the symbolic pairing
algebra (specs/bls/Algebra.tla) and checks procedure = definition; every terminal class combination is concretised with
reference arithmetic on the library's own hash points and executed on the real functions, the model's verdict is the oracle."""
import json, os, sys
sys.path.insert(0, os.path.join(os.path.dirname(os.path.abspath(__file__)), '..', 'tools'))
import vlib
from dkg import tlc_cases

SPEC = os.path.join(vlib.SPECS, 'bls')
ALG = {'Keys': {'x1', 'x2', 'x3'}, 'Msgs': {'m1', 'm2'}}


def execute(ck, prop, jobs, family='bls'):
    vh = vlib.build_vh()
    jp = os.path.join(vlib.subdir('scripts'), '%s.ndjson' % prop)
    with open(jp, 'w') as f:
        for j in jobs:
            f.write(json.dumps(j) + '\n')
    op = os.path.join(vlib.subdir('results'), '%s.ndjson' % prop)
    vlib.run([vh, 'bls-run', '--in', jp, '--out', op], check=True, timeout=7200)
    n = 0
    evals = 0
    for line, j in zip(open(op), jobs):
        r = json.loads(line)
        n += 1
        evals += r['evals']
        for v in r['violations']:
            if v['property'] == prop:
                ck.violation('%s:%s' % (prop, v.get('key') or v['predicate']), '%s: %s' % (v['predicate'], v['detail']), {'family': family, 'job': j})
    if n != len(jobs):
        raise vlib.Undecided('bls-run returned %d of %d results' % (n, len(jobs)))
    ck.evaluations = evals
    return evals


def replay(prop, path):
    d = json.load(open(path))
    ck = vlib.Check(prop, 'quick', 'model_checking')
    execute(ck, prop, [d['replay']['job']])
    for v in ck.violations:
        print('VIOLATION property=%s replay=%s' % (prop, path))
        print('  ' + v['what'][:400])
    if not ck.violations:
        print('replay %s: no violation of %s reproduced' % (path, prop))
    return 1 if ck.violations else 0


# ---------------------------------------------------------------- C01
def run_c01(tier):
    ck = vlib.Check('C01', tier, 'model_checking')
    seed = vlib.seed()
    c = dict(ALG, DropMembershipCheck=False)
    res = vlib.tlc(SPEC, 'BLSVerify', vlib.cfg(c, invariants=['DecidesDefinition', 'UniqueAccepted', 'IdentityKeyRejects', 'Emit']), name='blsv')
    if not res.ok:
        raise vlib.Undecided('BLSVerify: %s %s' % (res.violated, res.error))
    ck.add_states(res, 'Verify pipeline over key form x hasher x signature class')
    neg = vlib.tlc(SPEC, 'BLSVerify', vlib.cfg(dict(c, DropMembershipCheck=True), invariants=['DecidesDefinition']), name='blsvneg')
    if 'DecidesDefinition' not in neg.violated:
        raise vlib.Undecided('negative control (membership check dropped) not detected')
    ck.cov['negative_controls'] = 1
    cases = tlc_cases(res.out)
    reps = 2 if tier == 'quick' else 150
    jobs = []
    for r in range(reps):
        for c in cases:
            jobs.append({'kind': 'verify', 'case': dict(c, id='v-%d' % len(jobs), seed=vlib.jseed(seed, len(jobs)))})
    for k in range(4 if tier == 'quick' else 300):
        jobs.append({'kind': 'verify-sweep', 'seed': seed * 7919 + k})
    jobs.append({'kind': 'noncanonical-valid', 'seed': seed * 31 + 5, 'case': {}})
    jobs.append({'kind': 'verify-highx', 'seed': seed * 17 + 3, 'case': {}})                  # a valid signature whose x has the leading bits of p
    jobs.append({'kind': 'pop', 'seed': seed * 13 + 2, 'case': {'tags': ['#padded']}})       # tag pairs: one tag extends the other by a prefix of the suite
    # the hash-to-curve pipeline as a case graph (HashToCurve.tla): chunk classes x representatives x relation
    h2c = vlib.tlc(SPEC, 'HashToCurve', vlib.cfg({}, invariants=['IdentityIffOpposite', 'Emit'], properties=['RepresentativeForgotten', 'Termination']).replace('CONSTANTS\n', ''), name='h2c')
    if not h2c.ok:
        raise vlib.Undecided('HashToCurve: %s %s' % (h2c.violated, h2c.error))
    ck.add_states(h2c, 'hash-to-curve pipeline over chunk residue class x representative x relation')
    hcases = tlc_cases(h2c.out)
    if len(hcases) < 200:
        raise vlib.Undecided('HashToCurve enumeration produced %d cases' % len(hcases))
    for r in range(1 if tier == 'quick' else 20):
        for i, c in enumerate(hcases):
            jobs.append({'kind': 'h2c', 'seed': vlib.jseed(seed, i, 500 + r), 'case': c})
    ck.cov['hash_to_curve_cases'] = len(hcases)
    execute(ck, 'C01', jobs)
    # identity public keys that come out of a DKG (a dealer polynomial with a root at a participant's point): they verify nothing
    import dkg
    dkg.run_refdeal(ck, 'C01', tier, vlib.build_vh(), seed, only_shapes=['root', 'generic'])
    for c in cases:
        ck.case(vlib.digest([c['key'], c['hasher'], c['sig']]), c['sig'] != 'valid' or c['expect'] != 'true')
    ck.cov['traces_validated_against_impl'] = len(jobs)
    ck.sample(cases[0])
    ck.sample([c for c in cases if c['sig'] == 'plusT' and c['hasher'] == 'kmac'][0])
    ck.assumptions = ['H(m) is computed by the reference hash-to-curve of harness/ref/h2c.go over the harness KMAC128; the library signature under sk = 1 must equal it; all other arithmetic is harness/ref (math/big)',
                      'formal equality <=> byte equality up to 2^-250 (independent random scalars)',
                      'candidate strings are structured classes plus every single-bit flip and every length 0..200 of valid signatures']
    return ck.finish(rule='cases = (key form, hasher class, signature class) combinations enumerated by TLC, each concretised with fresh '
                          'random keys / messages / tags; non-trivial = anything but the accepted canonical signature', exhaustive=True)


# ---------------------------------------------------------------- C02
def run_c02(tier):
    ck = vlib.Check('C02', tier, 'model_checking')
    seed = vlib.seed()
    c = {'Keys': {'x1', 'x2'}, 'Msgs': {'m1', 'm2', 'm3'}, 'MaxLen': 3 if tier == 'quick' else 4, 'Bug': 'none'}
    res = vlib.tlc(SPEC, 'BLSAggVerify', vlib.cfg(c, invariants=['GroupingDecidesDefinition', 'Emit']), name='agg', timeout=3000)
    if not res.ok:
        raise vlib.Undecided('BLSAggVerify: %s %s' % (res.violated, res.error))
    ck.add_states(res, 'aggregate verification: every input list of length <= %d over 5 key objects x 3 messages x 6 signature classes, every map order' % c['MaxLen'])
    neg = vlib.tlc(SPEC, 'BLSAggVerify', vlib.cfg(dict(c, MaxLen=3, Bug='offset'), invariants=['GroupingDecidesDefinition']), name='aggneg')
    if 'GroupingDecidesDefinition' not in neg.violated:
        raise vlib.Undecided('negative control (offset bookkeeping) not detected')
    ck.cov['negative_controls'] = 1
    cases = tlc_cases(res.out)
    jobs = [{'kind': 'aggverify', 'seed': vlib.jseed(seed, i), 'case': c} for i, c in enumerate(cases)]
    for k in range(2 if tier == 'quick' else 10):
        jobs.append({'kind': 'aggverify-args', 'seed': seed * 31 + k, 'case': {}})
        jobs.append({'kind': 'aggverify-large', 'seed': seed * 37 + k, 'case': {}})
    execute(ck, 'C02', jobs)
    paths = {'per-message': 0, 'per-key': 0}
    for c in cases:
        paths[c['path']] += 1
        ck.case(vlib.digest([c['inp'], c['sig']]), len(c['inp']) > 1)
    if min(paths.values()) == 0:
        raise vlib.Undecided('one of the two C paths was never selected: %s' % paths)
    ck.cov['cases_per_c_path'] = paths
    ck.cov['traces_validated_against_impl'] = len(cases)
    ck.sample(cases[0])
    ck.sample(cases[len(cases) // 2])
    ck.assumptions = ['H(m) from the library under sk = 1; sums, negation, torsion and encodings by harness/ref',
                      'exhaustive over lists of length <= %d; 7..33 groups sampled' % (3 if tier == 'quick' else 4)]
    return ck.finish(rule='cases = (input list of (key object, message), signature class) enumerated by TLC; every case also re-run with the '
                          'triples permuted; non-trivial = more than one triple', exhaustive=True)


# ---------------------------------------------------------------- C03
BATCH_CLASSES = {'ok', 'bad', 'dp', 'dm', 'malformed', 'short', 'nong1', 'idsig', 'idkey'}


def run_c03(tier):
    ck = vlib.Check('C03', tier, 'model_checking')
    seed = vlib.seed()
    maxn, classes = (5, BATCH_CLASSES) if tier == 'quick' else (7, {'ok', 'bad', 'dp', 'dm', 'malformed', 'idkey'})
    c = {'MaxN': maxn, 'Classes': classes, 'Coeffs': 'random', 'Split': 'len/2'}
    res = vlib.tlc(SPEC, 'BLSBatch', vlib.cfg(c, invariants=['AgreesWithVerify', 'NoneUndefined', 'Emit']), name='batch', timeout=3000)
    if not res.ok:
        raise vlib.Undecided('BLSBatch: %s %s' % (res.violated, res.error))
    ck.add_states(res, 'batch verification: every assignment of %d entry classes to n <= %d positions' % (len(classes), maxn))
    if tier == 'thorough':
        r2 = vlib.tlc(SPEC, 'BLSBatch', vlib.cfg(dict(c, MaxN=5, Classes=BATCH_CLASSES), invariants=['AgreesWithVerify', 'NoneUndefined']), name='batch2', timeout=3000)
        if not r2.ok:
            raise vlib.Undecided('BLSBatch (all classes): %s %s' % (r2.violated, r2.error))
        ck.add_states(r2, 'all 9 classes, n <= 5')
    neg = 0
    for k, v in [('Coeffs', 'constant'), ('Split', 'wrong')]:
        r = vlib.tlc(SPEC, 'BLSBatch', vlib.cfg(dict(c, MaxN=4, Classes=BATCH_CLASSES, **{k: v}), invariants=['AgreesWithVerify', 'NoneUndefined']), name='batchneg')
        if not r.violated:
            raise vlib.Undecided('negative control %s=%s not detected' % (k, v))
        neg += 1
    ck.cov['negative_controls'] = neg
    cases = tlc_cases(res.out)
    # quick: every case with at least one non-ok entry up to n = 4, a seeded third of n = 5; thorough: everything
    jobs = []
    for i, cs in enumerate(cases):
        if tier == 'quick' and len(cs['inp']) == 5 and (i + seed) % 6 != 0:
            continue
        if tier == 'thorough' and len(cs['inp']) == 7 and (i + seed) % 4 != 0:
            continue
        jobs.append({'kind': 'batch', 'seed': vlib.jseed(seed, i), 'case': cs})
    for k in range(1 if tier == 'quick' else 8):
        jobs.append({'kind': 'batch-extra', 'seed': seed * 41 + k, 'case': {}})
    execute(ck, 'C03', jobs)
    for j in jobs:
        if j['kind'] == 'batch':
            ck.case(vlib.digest(j['case']['inp']), any(x != 'ok' for x in j['case']['inp']))
    ck.cov['traces_validated_against_impl'] = len(jobs)
    ck.sample(jobs[len(jobs) // 3]['case'])
    ck.sample(jobs[-3]['case'])
    ck.assumptions = ['internal randomness of the batch is sampled (each batch run 2x); a false alarm needs a 2^-128 coincidence',
                      'the model treats independent random coefficients as formal indeterminates',
                      'H(m) from the library under sk = 1; all other points by harness/ref']
    return ck.finish(rule='cases = assignments of entry classes to positions, enumerated by TLC; non-trivial = at least one entry that is not '
                          'the valid signature', exhaustive=(tier == 'thorough'))


# ---------------------------------------------------------------- C04
def run_c04(tier):
    ck = vlib.Check('C04', tier, 'model_checking')
    seed = vlib.seed()
    c = {'Keys': {'x1', 'x2', 'x3'}, 'Msgs': {'m1'}, 'MaxLen': 4 if tier == 'quick' else 5}
    res = vlib.tlc(SPEC, 'BLSAggregation', vlib.cfg(c, invariants=['SigHomomorphism', 'Nesting', 'Removal', 'IdentityExact', 'Emit']), name='aggr', timeout=3000)
    if not res.ok:
        raise vlib.Undecided('BLSAggregation: %s %s' % (res.violated, res.error))
    ck.add_states(res, 'every key sequence of length <= %d over {x1, x2, -x1, x3} with every cut A|B' % c['MaxLen'])
    cases = tlc_cases(res.out)
    reps = 1 if tier == 'quick' else 4
    jobs = [{'kind': 'aggregation', 'seed': vlib.jseed(seed, i, r), 'case': cs} for r in range(reps) for i, cs in enumerate(cases)]
    # long lists (127 .. 513 entries): the laws do not depend on the length of the list
    jobs += [{'kind': 'aggregation-large', 'seed': vlib.jseed(seed, 7000 + k), 'case': {}} for k in range(2 if tier == 'quick' else 24)]
    # key objects of every provenance (incl. the public key shares of threshold key generation and of a DKG run)
    jobs += [{'kind': 'aggregation-origins', 'seed': vlib.jseed(seed, 8000 + k), 'case': {}} for k in range(4 if tier == 'quick' else 40)]
    # private-key aggregation on scalars at the word boundaries of a multi-limb accumulator, every order
    jobs += [{'kind': 'aggregation-scalars', 'seed': vlib.jseed(seed, 9000 + k), 'case': {}} for k in range(2 if tier == 'quick' else 12)]
    execute(ck, 'C04', jobs)
    for cs in cases:
        ck.case(vlib.digest([cs['keys'], cs['cut']]), len(cs['keys']) > 1)
    ck.cov['traces_validated_against_impl'] = len(jobs)
    ck.cov['cases_summing_to_identity'] = sum(1 for cs in cases if cs['totalIsIdentity'])
    ck.sample(cases[5])
    ck.sample([cs for cs in cases if cs['totalIsIdentity']][0])
    ck.assumptions = ['expected bytes come from reference G1/G2 arithmetic on the concrete scalars (harness/ref), not from any library aggregation function',
                      'G2 encodings are compared in the coefficient order the library writes (finding D5 is judged under C05 only)']
    return ck.finish(rule='cases = (sequence of base keys with repetitions and inverses, cut position) enumerated by TLC; each is run with a random '
                          'permutation, nested along the cut, and through removal; non-trivial = more than one key', exhaustive=True)


# ---------------------------------------------------------------- C05
def run_c05(tier):
    ck = vlib.Check('C05', tier, 'model_checking')
    seed = vlib.seed()
    res = vlib.tlc(SPEC, 'Serialization', vlib.cfg({'InfinityLoopBound': 'all'}, invariants=['AcceptsExactlyCanonical', 'Emit']), name='ser')
    if not res.ok:
        raise vlib.Undecided('Serialization: %s %s' % (res.violated, res.error))
    ck.add_states(res, 'decoders as staged decision trees over the class space')
    neg = vlib.tlc(SPEC, 'Serialization', vlib.cfg({'InfinityLoopBound': 'skip-last'}, invariants=['AcceptsExactlyCanonical']), name='serneg')
    if 'AcceptsExactlyCanonical' not in neg.violated:
        raise vlib.Undecided('negative control D4 not detected')
    ck.cov['negative_controls'] = 1
    cases = tlc_cases(res.out)
    reps = 2 if tier == 'quick' else 60
    jobs = [{'kind': 'serial', 'seed': vlib.jseed(seed, i, r), 'case': cs} for r in range(reps) for i, cs in enumerate(cases)]
    jobs.append({'kind': 'serial-zcash', 'seed': seed, 'case': {}})
    for k in range(1 if tier == 'quick' else 20):
        jobs.append({'kind': 'serial-extra', 'seed': seed * 43 + k, 'case': {}})
    jobs.append({'kind': 'noncanonical-valid', 'seed': seed * 31 + 6, 'case': {}})
    execute(ck, 'C05', jobs)
    # the key of a violation is "<predicate>|<finding id>" when the executor attributes it to a specific known finding
    for v in ck.violations:
        if '|' in v['key']:
            v['key'] = 'C05:' + v['key'].split('|', 1)[1]
    for cs in cases:
        ck.case(vlib.digest(cs['c']), cs['expect'] == 'reject' or cs['c']['body'] != 'valid')
    ck.cov['traces_validated_against_impl'] = len(jobs)
    ck.sample(cases[0])
    ck.sample([cs for cs in cases if cs['c']['dec'] == 'bls-pk' and cs['c']['body'] == 'garbage-last'][0])
    ck.assumptions = ['reference encoders: ZCash compressed G1/G2, big-endian scalars, X9.62 points (harness/ref)',
                      'structural BLS public-key cases are built in the coefficient order the library writes, so that other violations stay '
                      'visible while the G2 coefficient order (known finding) is judged by the separate ZCash-vector sub-check',
                      'the zero private key produced by aggregation is outside the decoder\'s documented domain and not required to round-trip']
    return ck.finish(rule='cases = (decoder, length class, flag bits, coordinate / scalar class) enumerated by TLC, each concretised with fresh '
                          'random values, plus every single-bit flip and prefix byte of valid encodings; non-trivial = anything but a plain valid encoding',
                     exhaustive=True)


# ---------------------------------------------------------------- C16
def run_c16(tier):
    ck = vlib.Check('C16', tier, 'model_checking')
    seed = vlib.seed()
    c = {'Keys': {'x1', 'x2'}, 'Msgs': {'pop1', 'pop2', 'sig1', 'sig2'}, 'MaxFrag': 3 if tier == 'quick' else 4}
    res = vlib.tlc(SPEC, 'PoP', vlib.cfg(c, invariants=['KeysNeverCollide', 'Sound', 'PopIsNoSig', 'SigIsNoPop', 'Emit', 'EmitTags']), name='pop', timeout=3000)
    if not res.ok:
        raise vlib.Undecided('PoP: %s %s' % (res.violated, res.error))
    ck.add_states(res, 'PoP soundness over (key, candidate) classes; key-string separation for every tag of <= %d fragments' % c['MaxFrag'])
    cases = tlc_cases(res.out)
    tagcase = [cs for cs in cases if 'tags' in cs][0]
    ck.cov['tags_checked_by_tlc'] = len(tagcase['tags'])
    reps = 4 if tier == 'quick' else 200
    jobs = []
    for r in range(reps):
        for i, cs in enumerate(cases):
            if 'tags' in cs:
                if r == 0:
                    tags = cs['tags']
                    for k in range(0, len(tags), 100):      # every tag, in parallel slices
                        jobs.append({'kind': 'pop', 'seed': seed + k, 'case': {'tags': tags[k:k + 100]}})
                continue
            jobs.append({'kind': 'pop', 'seed': vlib.jseed(seed, i, r), 'case': cs})
    jobs.append({'kind': 'noncanonical-valid', 'seed': seed * 31 + 7, 'case': {}})
    jobs.append({'kind': 'pop', 'seed': seed * 13 + 1, 'case': {'tags': ['#padded']}})       # padded / cut suite strings as tags
    execute(ck, 'C16', jobs)
    for cs in cases:
        if 'tags' not in cs:
            ck.case(vlib.digest([cs['key'], cs['cand']]), cs['cand'] != 'pop-own' or cs['key'] == 'zero')
    for t in tagcase['tags']:
        ck.case('tag:' + t, True)
    ck.cov['traces_validated_against_impl'] = len(jobs)
    ck.sample([cs for cs in cases if 'tags' not in cs][0])
    ck.sample({'tags': tagcase['tags'][:8]})
    ck.assumptions = ['H_pop(pk) is obtained from the library under sk = 1 with a PoP hasher rebuilt in the harness from the documented suite string',
                      'tags: every concatenation of <= %d fragments of the suite strings, plus long / binary tags' % c['MaxFrag']]
    return ck.finish(rule='cases = (verifying key, candidate class) and crafted application tags, enumerated by TLC', exhaustive=True)


# ---------------------------------------------------------------- C17
def run_c17(tier):
    ck = vlib.Check('C17', tier, 'model_checking')
    seed = vlib.seed()
    c = dict(ALG, DropSecondMembership=False)
    res = vlib.tlc(SPEC, 'SPoCK', vlib.cfg(c, invariants=['DecidesDefinition', 'SwapSymmetric', 'HonestVerifies', 'Emit']), name='spock')
    if not res.ok:
        raise vlib.Undecided('SPoCK: %s %s' % (res.violated, res.error))
    ck.add_states(res, 'SPOCKVerify over (key form, proof class)^2')
    neg = vlib.tlc(SPEC, 'SPoCK', vlib.cfg(dict(c, DropSecondMembership=True), invariants=['DecidesDefinition']), name='spockneg')
    if 'DecidesDefinition' not in neg.violated:
        raise vlib.Undecided('negative control (second membership check dropped) not detected')
    ck.cov['negative_controls'] = 1
    cases = tlc_cases(res.out)
    reps = 1 if tier == 'quick' else 30
    jobs = [{'kind': 'spock', 'seed': vlib.jseed(seed, i, r), 'case': cs} for r in range(reps) for i, cs in enumerate(cases)]
    jobs.append({'kind': 'noncanonical-valid', 'seed': seed * 31 + 8, 'case': {}})
    execute(ck, 'C17', jobs)
    for cs in cases:
        ck.case(vlib.digest([cs['k1'], cs['p1'], cs['k2'], cs['p2']]), not (cs['p1'] == 'honest' and cs['p2'] == 'honest'))
    ck.cov['traces_validated_against_impl'] = len(jobs)
    ck.cov['cases_expected_true'] = sum(1 for cs in cases if cs['expect'])
    ck.sample(cases[0])
    ck.sample([cs for cs in cases if cs['expect'] and cs['p1'] != 'honest'][0])
    ck.assumptions = ['H(m) from the library under sk = 1; proofs built with harness/ref', 'both proofs of a case are hashed with one hasher (one tag)']
    return ck.finish(rule='cases = (key form, proof class) for both pairs, enumerated by TLC; each also run with the pairs swapped', exhaustive=True)


RUN = {'C01': run_c01, 'C02': run_c02, 'C03': run_c03, 'C04': run_c04, 'C05': run_c05, 'C16': run_c16, 'C17': run_c17}


def run(prop, tier):
    return RUN[prop](tier)
