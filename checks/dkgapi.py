"""C10: DKG instances follow the documented single-use state machine.

 MC   TLC enumerates every call sequence of length L over the reduced alphabet of specs/dkg/DKGApi.tla for the three
      protocols and both roles, checking the documented rules on the model (RunningIffPhase, TwoTimeouts, EndRule,
      RefusedWhenNotRunning, RangeRule, RejectedStutters) and printing each sequence with the prescribed result classes
 B1   every enumerated sequence (plus TLC-simulated longer ones) is executed on a real instance: result class of each
      call and Running() must be the prescribed ones; non-interference is checked metamorphically (rejected calls removed)
"""
import json, os, sys
sys.path.insert(0, os.path.join(os.path.dirname(os.path.abspath(__file__)), '..', 'tools'))
import vlib
from dkg import tlc_cases

SPEC = os.path.join(vlib.SPECS, 'dkg')
INVS = ['RunningIffPhase', 'TwoTimeouts', 'EndRule', 'RefusedWhenNotRunning', 'RangeRule', 'LifeInv', 'Emit']
ROLES = [('qual', 1), ('qual', 0), ('jf', 1), ('jf', 0), ('fvss', 1), ('fvss', 0)]


def call(op, i=0, k='none'):
    return '[op |-> "%s", i |-> %d, k |-> "%s"]' % (op, i, k)


PREFIXES = [
    ('none', []),
    ('started', [call('Start')]),
    ('both timeouts', [call('Start'), call('NextTimeout'), call('NextTimeout')]),
    ('dealt, both timeouts', [call('Start'), call('HB', 0, 'vec'), call('HP', 0, 'share'), call('NextTimeout'), call('NextTimeout')]),
    # scenarios: a complaint of this participant pending / answered, run to the end (the metamorphic checks of the harness insert
    # refused calls at every position of them)
    ('own complaint answered, run to the end', [call('Start'), call('HB', 0, 'vec'), call('NextTimeout'), call('HB', 0, 'answer'), call('NextTimeout'), call('End')]),
    ('complaint of another pending, run to the end', [call('Start'), call('HB', 0, 'vec'), call('HP', 0, 'share'), call('HB', 2, 'complaint'), call('NextTimeout'), call('NextTimeout'), call('End')]),
    ('every dealer force-disqualified, the own instance included', [call('Start'), call('FD', 0), call('FD', 1), call('FD', 2)]),
    ('dealt, ended', [call('Start'), call('HB', 0, 'vec'), call('HP', 0, 'share'), call('NextTimeout'), call('NextTimeout'), call('End')]),
]


def consts(proto, me, maxlen, prefix=()):
    return {'FixD1': True, 'FixD2': True, 'N': 3, 'T': 1, 'Proto': proto, 'Me': me, 'MaxLen': maxlen}


def pdef(prefix=()):
    return {'Prefix': '<<' + ', '.join(prefix) + '>>'}


def run(prop, tier):
    ck = vlib.Check(prop, tier, 'model_checking')
    seed = vlib.seed()
    L = 3 if tier == 'quick' else 4
    simlen, simnum = (9, 400) if tier == 'quick' else (12, 4000)
    cases = []
    for proto, me in ROLES:
      for pname, prefix in PREFIXES:
        tail = L if not prefix else L - 1
        res = vlib.tlc(SPEC, 'DKGApi', vlib.cfg(consts(proto, me, len(prefix) + tail, prefix), invariants=INVS,
                                                properties=['RejectedStutters', 'RefinesLife']), name='api', timeout=1800, defs=pdef(prefix))
        if not res.ok:
            raise vlib.Undecided('DKGApi model %s/%d: %s %s\n%s' % (proto, me, res.violated, res.error, res.out[-1500:]))
        ck.add_states(res, '%s me=%d prefix "%s" + all call sequences of length %d' % (proto, me, pname, tail))
        cs = tlc_cases(res.out)
        if len(cs) < 200:
            raise vlib.Undecided('DKGApi enumeration %s/%d/%s produced %d cases' % (proto, me, pname, len(cs)))
        for c in cs:
            cases.append(dict(c, proto=proto, me=me, src='exhaustive'))
        # longer sequences by simulation
        res = vlib.tlc(SPEC, 'DKGApi', vlib.cfg(consts(proto, me, simlen), invariants=INVS), workers=1, name='apisim', defs=pdef([call('Start')]),
                       timeout=600, extra=['-simulate', 'num=%d' % simnum, '-depth', str(simlen + 2), '-seed', str(seed)])
        if res.violated:
            raise vlib.Undecided('DKGApi simulation %s/%d violates %s' % (proto, me, res.violated))
        for c in tlc_cases(res.out):
            cases.append(dict(c, proto=proto, me=me, src='simulate'))
    # call sequences of EVERY length: the life cycle that every step above refines (RefinesLife, LifeInv) has an inductive invariant (TLAPS)
    import time
    t0 = time.time()
    proved, total, out = vlib.tlapm(SPEC, 'DKGLifeProof', timeout=900, name='lifeproof')
    ck.cov['tlaps_proof'] = {'module': 'DKGLifeProof', 'theorems': ['InitInv', 'Consecution', 'Safety (Spec => []IndInv)', 'StepProperties'],
                             'obligations_proved': proved, 'obligations': total, 'wall_s': round(time.time() - t0, 1),
                             'bound_to_the_model_by': 'RefinesLife / LifeInv checked by TLC on every DKGApi configuration'}
    if proved >= 0 and proved < total:
        raise vlib.Undecided('TLAPS: %d of %d obligations of DKGLifeProof fail: the proof or the model is wrong\n%s' % (total - proved, total, out[-1500:]))
    if proved < 0:
        ck.notes.append('tlapm did not run to completion (supplementary unbounded argument, not a verdict on the code)')
    vh = vlib.build_vh()
    cp = os.path.join(vlib.subdir('scripts'), 'api.ndjson')
    with open(cp, 'w') as f:
        for k, c in enumerate(cases):
            c['id'] = 'api-%d' % k
            c['seed'] = vlib.jseed(seed, k) % 97
            f.write(json.dumps(c) + '\n')
    rp = os.path.join(vlib.subdir('results'), 'api.ndjson')
    vlib.run([vh, 'api-replay', '--in', cp, '--out', rp, '--meta-sample', '1' if tier == 'quick' else '16'], check=True, timeout=14000)
    # End on a run whose qualified polynomials sum to zero (reference dealer, harness/dkgsim/refdealer.go): accepted, fails, not running
    import dkg
    dkg.run_refdeal(ck, prop, tier, vh, seed, only_shapes=['zero-const'])
    n = 0
    mism = 0
    for line, c in zip(open(rp), cases):
        r = json.loads(line)
        n += 1
        for v in r['violations']:
            if v['property'] == prop:
                key = '%s:%s:%s' % (prop, v['predicate'], c['proto'])
                ck.violation(key, '%s: %s' % (v['predicate'], v['detail']), {'family': 'dkgapi', 'case': c, 'violation': v})
        calls = [(h['call']['op'], h['call']['i'], h['call']['k']) for h in c['hist']]
        ck.case(vlib.digest([c['proto'], c['me'], calls]), any(h['cls'] in ('ST', 'II') for h in c['hist']))
        if r['notes']:
            mism += 1
            if len(ck.notes) < 30:
                ck.notes.append('%s %s: %s' % (c['proto'], r['id'], r['notes'][0]))
    if n != len(cases):
        raise vlib.Undecided('api executor returned %d of %d results' % (n, len(cases)))
    ck.cov['traces_validated_against_impl'] = n - mism
    ck.cov['model_mismatches'] = mism
    ck.sample({'proto': cases[7]['proto'], 'me': cases[7]['me'], 'calls_with_prescribed_class':
               [[h['call']['op'], h['call']['i'], h['call']['k'], h['cls'], h['running']] for h in cases[7]['hist']]})
    ck.sample({'proto': cases[-1]['proto'], 'me': cases[-1]['me'], 'calls_with_prescribed_class':
               [[h['call']['op'], h['call']['i'], h['call']['k'], h['cls'], h['running']] for h in cases[-1]['hist']]})
    ck.assumptions = ['n=3, t=1; reduced alphabet of specs/dkg/DKGApi.tla (17 calls); payloads are well-formed messages of a shadow dealer',
                      'restarting an instance after End is outside the quantifier and not generated',
                      'non-interference is judged on everything observable through the API: result classes, Running(), emitted bytes, callbacks']
    return ck.finish(rule='one case = one call sequence on a fresh instance (protocol, role, calls); non-trivial when at least one '
                          'call is prescribed to be rejected', exhaustive=True,
                     extra={'exhaustive_note': 'all sequences of length %d over the alphabet; longer ones sampled by tlc -simulate' % L})


def replay(prop, path):
    d = json.load(open(path))
    vh = vlib.build_vh()
    inp = os.path.join(vlib.subdir('replay'), 'in.ndjson')
    outp = os.path.join(vlib.subdir('replay'), 'out.ndjson')
    open(inp, 'w').write(json.dumps(d['replay']['case']) + '\n')
    vlib.run([vh, 'api-replay', '--in', inp, '--out', outp], check=True)
    r = json.loads(open(outp).readline())
    hit = [v for v in r['violations'] if v['property'] == prop]
    for v in hit:
        print('VIOLATION property=%s replay=%s' % (prop, path))
        print('  %s: %s' % (v['predicate'], v['detail']))
    if not hit:
        print('replay %s: no violation of %s reproduced' % (path, prop))
    return 1 if hit else 0
