"""C20: results do not depend on the build configuration.

 The harness is built from /repo in four configurations: default (ADX), CGO_CFLAGS="-O2 -D__BLST_PORTABLE__", -tags purego,
 CGO_ENABLED=0 -tags no_cgo.  Each build (a) prints the deterministic transcript (harness/transx): transcripts must be
 byte-identical to the default build's (non-BLS sections for no_cgo); (b) re-executes specification-derived behaviours
 (BLS verification classes, decoder classes, hasher histories) and must satisfy the same expectations.
"""
import json, os, sys
sys.path.insert(0, os.path.join(os.path.dirname(os.path.abspath(__file__)), '..', 'tools'))
import vlib
from dkg import tlc_cases

CONFIGS = [
    ('default', dict(tags=('verif',)), True),
    ('portable', dict(tags=('verif',), env_extra={'CGO_CFLAGS': '-O2 -D__BLST_PORTABLE__'}), True),
    ('purego', dict(tags=('verif', 'purego')), True),
    ('no_cgo', dict(tags=('verif', 'no_cgo'), env_extra={'CGO_ENABLED': '0'}), False),
]


def run(prop, tier):
    ck = vlib.Check('C20', tier, 'translation_validation')
    seed = vlib.seed()
    seeds = [seed, seed + 100] if tier == 'quick' else [seed + 100 * k for k in range(8)]
    bins = {}
    for name, kw, bls in CONFIGS:
        bins[name] = vlib.build_vh(name='vh-' + name, **kw)
    disagreements = 0
    lines_total = 0
    base = {}
    for s in seeds:
        for name, kw, bls in CONFIGS:
            for nobls in ([False, True] if name == 'default' else [not bls]):
                cmd = [bins[name], 'transcript', '--seed', str(s)] + (['--nobls'] if nobls else [])
                p = vlib.run(cmd, timeout=1800)
                if p.returncode != 0:
                    ck.violation('C20:TranscriptFails:%s' % name, 'the %s build failed to produce the transcript (rc %d): %s' % (name, p.returncode, p.stdout[-600:]),
                                 {'family': 'transcript', 'config': name, 'seed': s})
                    continue
                lines = p.stdout.split('\n')
                if name == 'default':
                    base[(s, nobls)] = lines
                    lines_total += len(lines)
                    continue
                ref = base[(s, nobls)]
                disagreements += 1
                if lines != ref:
                    diff = [(a, b) for a, b in zip(ref, lines) if a != b][:3]
                    ck.violation('C20:TranscriptDiffers:%s:%s' % (name, (diff[0][0].split('|')[0] if diff else 'length')),
                                 'the %s build disagrees with the default build: %s' % (name, diff or 'different number of lines'),
                                 {'family': 'transcript', 'config': name, 'seed': s})
                ck.case('%s/%d' % (name, s), True)
    # (b) specification-derived expectations under the non-default BLS builds
    bls = os.path.join(vlib.SPECS, 'bls')
    jobs = []
    r = vlib.tlc(bls, 'BLSVerify', vlib.cfg({'Keys': {'x1', 'x2', 'x3'}, 'Msgs': {'m1', 'm2'}, 'DropMembershipCheck': False}, invariants=['Emit']), name='c20ver')
    ck.add_states(r, 'BLSVerify classes (re-executed per configuration)')
    jobs += [{'kind': 'verify', 'seed': 0, 'case': dict(c, id='v%d' % i, seed=seed * 13 + i)} for i, c in enumerate(tlc_cases(r.out))]
    r = vlib.tlc(bls, 'Serialization', vlib.cfg({'InfinityLoopBound': 'all'}, invariants=['Emit']), name='c20ser')
    ck.add_states(r, 'decoder classes (re-executed per configuration)')
    jobs += [{'kind': 'serial', 'seed': seed * 11 + i, 'case': c} for i, c in enumerate(tlc_cases(r.out))]
    jobs += [{'kind': 'aggverify-large', 'seed': seed, 'case': {}}]
    jp = os.path.join(vlib.subdir('scripts'), 'c20.ndjson')
    with open(jp, 'w') as f:
        for j in jobs:
            f.write(json.dumps(j) + '\n')
    hjobs = []
    for rate in (136, 104):
        hist = vlib.tlc(os.path.join(vlib.SPECS, 'hash'), 'Hasher', vlib.cfg({'Rate': rate, 'Class': 'sponge', 'MaxOps': 4, 'Lens': {0, 7, rate - 1, rate, rate + 1, 2 * rate + 1},
                        'Record': True}, invariants=['Emit']), name='c20hash')
        if not hist.ok:
            raise vlib.Undecided('Hasher histories for C20: %s %s' % (hist.violated, hist.error))
        hjobs += [{'kind': 'history', 'case': {'id': 'h%d-%d' % (rate, i), 'class': 'sponge', 'rate': rate, 'seed': seed + i, 'hist': c['hist']}}
                  for i, c in enumerate(tlc_cases(hist.out)) if any(h['op'] in ('SumHash', 'ComputeHash') for h in c['hist'])]
    hjobs += [{'kind': 'sweep', 'algo': a, 'maxlen': 300, 'three': 200, 'seed': seed} for a in ('SHA3_256', 'SHA3_384', 'Keccak_256')]
    hp = os.path.join(vlib.subdir('scripts'), 'c20h.ndjson')
    with open(hp, 'w') as f:
        for j in hjobs:
            f.write(json.dumps(j) + '\n')
    for name in ('portable', 'purego', 'no_cgo'):
        runs = [('hash-run', hp, hjobs)] + ([('bls-run', jp, jobs)] if name != 'no_cgo' else [])
        for cmdname, path, js in runs:
            op = os.path.join(vlib.subdir('results'), 'c20-%s-%s.ndjson' % (name, cmdname))
            p = vlib.run([bins[name], cmdname, '--in', path, '--out', op], timeout=3600)
            if p.returncode != 0:
                raise vlib.Undecided('%s under the %s build failed: %s' % (cmdname, name, p.stdout[-800:]))
            n = 0
            for line, j in zip(open(op), js):
                rr = json.loads(line)
                n += 1
                for v in rr['violations']:
                    if '|' in v['predicate'] and 'fp2-order' in v['predicate']:
                        continue
                    ck.violation('C20:ExpectationFails:%s:%s' % (name, v['property']),
                                 'under the %s build: %s: %s' % (name, v['predicate'], v['detail']), {'family': 'config-' + cmdname, 'config': name, 'job': j})
            if n != len(js):
                raise vlib.Undecided('%s under %s returned %d of %d results' % (cmdname, name, n, len(js)))
            ck.case('%s/%s' % (name, cmdname), True)
    ck.evaluations = lines_total
    ck.cov['programs'] = len(CONFIGS)
    ck.cov['disagreements_checked'] = disagreements
    ck.cov['transcript_lines_per_seed'] = len(base[(seeds[0], False)])
    ck.cov['samples'] = [base[(seeds[0], False)][0], base[(seeds[0], False)][200], base[(seeds[0], False)][-3][:200]]
    ck.assumptions = ['the transcript is a fixed program over seeded inputs: configuration-specific slips outside the operations it exercises are not seen',
                      'the -D__BLST_NO_ASM__ variant does not compile on amd64 at the pinned commit and is not part of the claim',
                      'there is no model of a compiler flag: the TLA+ content is the behaviours being replayed in every configuration']
    return ck.finish(rule='programs = build configurations; every transcript of every non-default configuration is compared line by line with the '
                          'default build, and specification-derived cases are re-executed in each', exhaustive=False)


def replay(prop, path):
    print('replay: re-running the configuration comparison')
    return run(prop, 'quick')
