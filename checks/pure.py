"""C19: operations documented as read-only or thread-safe are race-free and unaffected by concurrency.

 B2   goroutines run mixes of the listed operations on shared keys and one shared KMAC hasher (ECDSA: per-goroutine hashers);
      every result and the before/after state of the argument buffers are logged; TLC validates the log against
      specs/conc/PureOps.tla: every concurrent result equals the value computed alone, arguments unchanged
 RACE the same recorder built with the Go race detector: any reported data race is a violation (TLC cannot see memory
      accesses; this clause is decided by the detector riding on the specification's operation mixes)
"""
import json, os, re, sys
sys.path.insert(0, os.path.join(os.path.dirname(os.path.abspath(__file__)), '..', 'tools'))
import vlib

SPEC = os.path.join(vlib.SPECS, 'conc')


def validate(ck, path, name):
    cfgtxt = vlib.cfg({'TraceFile': 'trace.ndjson'}, postcondition='Accepted')
    res = vlib.tlc(SPEC, 'PureOps', cfgtxt, workers=1, files=[(path, 'trace.ndjson')], timeout=1800, name=name)
    m = re.findall(r'"TRACE_PREFIX", (\d+), (\d+)', res.out)
    if not m:
        raise vlib.Undecided('PureOps validation failed to run: %s\n%s' % (res.error, res.out[-1200:]))
    return int(m[-1][0]), int(m[-1][1]), res


def run(prop, tier):
    ck = vlib.Check('C19', tier, 'exploration')
    seed = vlib.seed()
    runs, g, per = (12, 8, 40) if tier == 'quick' else (150, 16, 60)
    vh = vlib.build_vh()
    out = os.path.join(vlib.subdir('results'), 'pure.ndjson')
    vlib.run([vh, 'pure-conc', '--out', out, '--runs', str(runs), '--seed', str(seed), '--g', str(g), '--per', str(per)], check=True)
    evs = [json.loads(l) for l in open(out)]
    prefix, total, res = validate(ck, out, 'pure')
    ck.cov['trace_states'] = res.distinct
    if prefix < total:
        e = evs[prefix]
        what = 'arguments modified' if not e.get('argsUnchanged', True) else 'result differs from the value computed alone'
        ck.violation('C19:%s:%s' % ('ArgsUnchanged' if not e.get('argsUnchanged', True) else 'SameAsSequential', e['key'].split('/')[0]),
                     'concurrent call %s in goroutine %d: %s (got %s)' % (e['key'], e['g'], what, e['result']), {'family': 'pure-conc', 'event': e, 'seed': seed})
    # negative control: a corrupted result must be rejected
    bad = os.path.join(vlib.subdir('results'), 'pure-bad.ndjson')
    k = max(i for i, e in enumerate(evs) if e['e'] == 'conc')
    evs2 = [dict(e) for e in evs]
    evs2[k]['result'] = evs2[k]['result'] + 'x'
    with open(bad, 'w') as f:
        for e in evs2:
            f.write(json.dumps(e) + '\n')
    p2, t2, _ = validate(ck, bad, 'purebad')
    if p2 >= t2:
        raise vlib.Undecided('negative control: corrupted log accepted by PureOps')
    ck.cov['negative_controls'] = 1
    # race detector
    vhr = vlib.build_vh(race=True, name='vh-race')
    out2 = os.path.join(vlib.subdir('results'), 'pure-race.ndjson')
    p = vlib.run([vhr, 'pure-conc', '--out', out2, '--runs', str(max(2, runs // 4)), '--seed', str(seed + 1), '--g', str(g), '--per', str(per)],
                 env={'GORACE': 'halt_on_error=0 exitcode=66'}, timeout=3600)
    races = len(re.findall(r'WARNING: DATA RACE', p.stdout))
    if races or p.returncode == 66:
        m = re.search(r'WARNING: DATA RACE(.*?)={10,}', p.stdout, flags=re.S)
        ck.violation('C19:DataRace', 'the race detector reports %d data race(s): %s' % (races, (m.group(1) if m else p.stdout)[:900]),
                     {'family': 'pure-conc-race', 'seed': seed + 1})
    elif p.returncode != 0:
        raise vlib.Undecided('race build of the recorder failed to run: rc=%d %s' % (p.returncode, p.stdout[-800:]))
    conc = [e for e in evs if e['e'] == 'conc']
    for e in conc:
        ck.case('%s@%d' % (e['key'], e['g']), True)
    ck.evaluations = len(conc)
    ck.cov['operations_distinct'] = len({e['key'] for e in evs if e['e'] == 'seq'})
    ck.cov['race_detector_runs'] = max(2, runs // 4)
    ck.cov['traces_validated_against_impl'] = runs
    ck.sample(conc[0])
    ck.sample(conc[len(conc) // 2])
    ck.assumptions = ['only the interleavings the Go scheduler produces are explored', 'the data-race clause is decided by the Go race detector, not by TLC',
                      'PublicKey() of ECDSA keys is forced once before the goroutines start (it is not in the property\'s list)']
    return ck.finish(rule='one evaluation = one concurrent call whose result and argument buffers were compared with the value computed alone; '
                          'distinct = (operation, arguments, goroutine)', exhaustive=False)


def replay(prop, path):
    print('replay: concurrent schedules cannot be forced; re-running the check')
    return run(prop, 'quick')
