"""C11 (ECDSA verification exact) and C12 (key generation / public keys)."""
import json, os, sys
sys.path.insert(0, os.path.join(os.path.dirname(os.path.abspath(__file__)), '..', 'tools'))
import vlib
from dkg import tlc_cases
from blsc import execute

SPEC = os.path.join(vlib.SPECS, 'misc')


def run_c11(tier):
    ck = vlib.Check('C11', tier, 'model_checking')
    seed = vlib.seed()
    res = vlib.tlc(SPEC, 'ECDSAVerify', vlib.cfg({}, invariants=['DecidesDefinition', 'FormatCheckImplied', 'Emit']).replace('CONSTANTS\n', ''), name='ecv')
    if not res.ok:
        raise vlib.Undecided('ECDSAVerify: %s %s' % (res.violated, res.error))
    ck.add_states(res, 'ECDSA verification over curve x hasher class x signature class')
    cases = tlc_cases(res.out)
    reps = 6 if tier == 'quick' else 250
    jobs = [{'kind': 'ecdsa', 'seed': vlib.jseed(seed, i, r), 'case': cs} for r in range(reps) for i, cs in enumerate(cases)]
    execute(ck, 'C11', jobs)
    for cs in cases:
        ck.case(vlib.digest([cs['curve'], cs['hasher'], cs['sig']]), cs['sig'] != 'signed')
    ck.cov['traces_validated_against_impl'] = len(jobs)
    ck.sample(cases[0])
    ck.sample([cs for cs in cases if cs['sig'] == 'twin' and cs['curve'] == 'secp256k1'][0])
    ck.assumptions = ['reference verifier: the ECDSA equation over math/big curve arithmetic (harness/ref/weierstrass.go), digests from the standard '
                      'library / harness KMAC, e = leftmost 256 bits', 'keys 1, n-1 and random; Sign outputs are judged by the equation, never by bytes']
    return ck.finish(rule='cases = (curve, hasher class, signature class) enumerated by TLC, each concretised with fresh keys and messages',
                     exhaustive=True)


def run_c12(tier):
    ck = vlib.Check('C12', tier, 'model_checking')
    seed = vlib.seed()
    res = vlib.tlc(SPEC, 'KeyGen', vlib.cfg({'MaxSeed': 300, 'MaxCalls': 3 if tier == 'quick' else 4}, invariants=['CacheConsistent', 'Emit'],
                                            properties=['CacheOnlyFills']), name='kg')
    if not res.ok:
        raise vlib.Undecided('KeyGen: %s %s' % (res.violated, res.error))
    ck.add_states(res, 'seed lengths 0..300 for 3 algorithms; key-object life cycles (origin x PublicKey / re-decode calls)')
    cases = tlc_cases(res.out)
    reps = 2 if tier == 'quick' else 60
    jobs = [{'kind': 'keygen', 'seed': vlib.jseed(seed, i, r), 'case': cs} for r in range(reps) for i, cs in enumerate(cases)]
    # pools of key objects: caches x re-decoding x aggregation (KeyPool.tla), every behaviour
    pc = {'MaxLen': 3 if tier == 'quick' else 4, 'MaxPool': 4, 'StaleBug': False}
    res = vlib.tlc(SPEC, 'KeyPool', vlib.cfg(pc, invariants=['CacheIsScalarTimesG', 'Emit'], properties=['CacheOnlyFills', 'ScalarsNeverChange']), name='kp')
    if not res.ok:
        raise vlib.Undecided('KeyPool: %s %s' % (res.violated, res.error))
    ck.add_states(res, 'pool of BLS key objects: every sequence of %d PublicKey / PublicKey-on-all / re-decode / aggregate (lists with repeats) actions' % pc['MaxLen'])
    neg = vlib.tlc(SPEC, 'KeyPool', vlib.cfg(dict(pc, StaleBug=True), invariants=['CacheIsScalarTimesG']), name='kpneg')
    if 'CacheIsScalarTimesG' not in neg.violated:
        raise vlib.Undecided('negative control: an aggregation that pre-fills the cache from some inputs satisfies CacheIsScalarTimesG')
    ck.cov['negative_controls'] = 1
    pools = tlc_cases(res.out)
    if len(pools) < 500:
        raise vlib.Undecided('KeyPool enumeration produced %d behaviours' % len(pools))
    ck.cov['pool_behaviours'] = len(pools)
    preps = 1 if tier == 'quick' else 3
    # few distinct scalar pairs, so that the reference public keys (slow math/big G2 arithmetic) are computed once per value and memoised
    jobs += [{'kind': 'keygen', 'seed': vlib.jseed(seed, i % 6, 1000 + r), 'case': cs} for r in range(preps) for i, cs in enumerate(pools)]
    # seeds whose prescribed scalar starts with 8 / 16 (thorough: 24) zero bits, found with the reference derivation
    jobs.append({'kind': 'keygen-leading-zeros' + ('-deep' if tier == 'thorough' else ''), 'seed': seed, 'case': {}})
    for k in range(2 if tier == 'quick' else 20):        # key generation between batteries of unrelated calls
        jobs.append({'kind': 'keygen-after-noise', 'seed': vlib.jseed(seed, 5000 + k), 'case': {}})
    for k in range(2 if tier == 'quick' else 20):        # scalars with structure in their machine words
        jobs.append({'kind': 'keygen-structured-scalars', 'seed': vlib.jseed(seed, 4000 + k), 'case': {}})
    execute(ck, 'C12', jobs)
    for cs in pools:
        ck.case(vlib.digest(cs['hist']), any(h['op'] == 'Agg' for h in cs['hist']))
    for cs in cases:
        ck.case(vlib.digest([cs['job'], cs['calls']]), True)
    ck.cov['traces_validated_against_impl'] = len(jobs)
    ck.sample(cases[40])
    ck.sample([cs for cs in cases if cs['job']['kind'] == 'life'][0])
    ck.sample([cs for cs in pools if sum(h['op'] == 'Agg' for h in cs['hist']) == 2][0])
    ck.assumptions = ['reference derivations: HKDF written from RFC 5869 over crypto/hmac; IETF BLS KeyGen; ECDSA okm mod (n-1) + 1',
                      'public keys: scalar * generator with math/big curve arithmetic; BLS G2 encodings compared in the library\'s coefficient order']
    return ck.finish(rule='cases = every seed length 0..300 per algorithm (random and all-zero seeds) and every life cycle of a key object, '
                          'enumerated by TLC', exhaustive=True)


def run(prop, tier):
    return run_c11(tier) if prop == 'C11' else run_c12(tier)


def replay(prop, path):
    from blsc import replay as r
    return r(prop, path)
