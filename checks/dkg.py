"""C07 / C08: DKG agreement, key consistency and qualification fairness.

 MC   exhaustive TLC on specs/dkg/DKGNet.tla (Qual and Joint-Feldman, Byzantine dealer / participant)
 NEG  negative controls: the same model with the repairs of D1 / D2 switched off must violate the invariants
 B1   TLC -simulate behaviours -> scripts -> real objects (harness/dkgsim) -> predicates on the real outcomes
 B2   seeded randomised Byzantine runs driven online on the real objects (n up to 7) -> ndjson logs
 VAL  every log (B1 and B2) validated against the specification by TLC (specs/dkg/DKGTrace.tla), all invariants on
"""
import glob, json, os, sys
sys.path.insert(0, os.path.join(os.path.dirname(os.path.abspath(__file__)), '..', 'tools'))
import vlib, tlaparse
from vlib import Raw

SPEC = os.path.join(vlib.SPECS, 'dkg')
INVS = ['TypeOK', 'Agreement', 'KeysConsistent', 'NoHonestBlamed', 'HonestDealerQualified', 'BadDealerDisqualified',
        'OneComplaintPerCause']
PROPS = ['Monotone', 'OnlyRelevantInstance']
POLYS = Raw('{"P1", "P2"}')


def consts(n, t, dealers, byz, maxb, maxp, slack, sim=False, fix1=True, fix2=True):
    return {'FixD1': fix1, 'FixD2': fix2, 'N': n, 'T': t, 'Dealers': set(dealers), 'Byz': set(byz), 'MaxB': maxb,
            'MaxP': maxp, 'Slack': slack, 'Polys': POLYS, 'SimMode': sim}


MC = {
    'quick': [
        ('qual n=3 t=1 Byzantine dealer, 2 broadcasts + 1 private/receiver', consts(3, 1, [0], [0], 2, 1, 0), 600),
        ('qual n=3 t=1 Byzantine dealer, slack, 1 broadcast', consts(3, 1, [0], [0], 1, 1, 1), 600),
        ('qual n=3 t=1 honest dealer, Byzantine participant, 3 broadcasts', consts(3, 1, [0], [1], 3, 0, 1), 600),
        ('joint-feldman n=3 t=1 one Byzantine, 1 broadcast + 1 private/receiver', consts(3, 1, [0, 1, 2], [0], 1, 1, 0), 600),
    ],
    'thorough': [
        ('qual n=3 t=1 Byzantine dealer, 3 broadcasts + 1 private/receiver', consts(3, 1, [0], [0], 3, 1, 0), 14000),
        ('qual n=3 t=1 Byzantine dealer, slack, 2 broadcasts', consts(3, 1, [0], [0], 2, 1, 1), 14000),
        ('qual n=4 t=1 Byzantine dealer, 1 broadcast + 1 private/receiver', consts(4, 1, [0], [0], 1, 1, 0), 14000),   # 1.8 M states; with 2 broadcasts the grown grammar no longer finishes in two hours
        ('qual n=3 t=1 honest dealer, Byzantine participant, 4 broadcasts', consts(3, 1, [0], [1], 4, 0, 1), 14000),
        ('joint-feldman n=3 t=1 one Byzantine, 2 broadcasts + 1 private/receiver', consts(3, 1, [0, 1, 2], [0], 2, 1, 0), 14000),
    ],
}

# (proto, n, t, dealer, byz)
NETS = {
    'quick': [('qual', 3, 1, 0, [0]), ('qual', 4, 1, 0, [0]), ('qual', 5, 2, 0, [0, 1]), ('qual', 4, 1, 0, [2]),
              ('jf', 3, 1, 0, [0]), ('jf', 4, 1, 0, [3]), ('jf', 5, 2, 0, [1, 3]), ('jf', 3, 2, 0, [0, 2])],   # the last one: t = n-1
    'thorough': [('qual', 3, 1, 0, [0]), ('qual', 4, 1, 0, [0]), ('qual', 5, 2, 0, [0, 1]), ('qual', 4, 1, 0, [2]),
                 ('qual', 7, 3, 2, [2, 4, 6]), ('qual', 6, 2, 5, [5, 0]),
                 ('jf', 3, 1, 0, [0]), ('jf', 4, 1, 0, [3]), ('jf', 5, 2, 0, [1, 3]), ('jf', 7, 3, 0, [0, 3, 6]),
                 ('jf', 6, 2, 0, [2]), ('jf', 3, 2, 0, [0, 2]), ('qual', 2, 1, 0, [0]), ('jf', 2, 1, 0, [1]), ('qual', 4, 3, 1, [1, 2, 3]), ('jf', 4, 3, 0, [3])],
}
SIM_N = {'quick': 150, 'thorough': 1500}
RND_N = {'quick': 400, 'thorough': 8000}
GRID_N = {'quick': (916, 11), 'thorough': (5040, 1)}   # (count, stride) over the 5040 systematic strategies x orders; the stride is coprime with 5040


def as_map(x):
    if isinstance(x, list):
        return {i + 1: v for i, v in enumerate(x)}
    return x


def scripts_from_sim(files, proto, n, t, dealer, byz, seed, tag):
    out = []
    for fi, f in enumerate(sorted(files)):
        sts = tlaparse.states_of(open(f).read(), only={'last'})
        steps = []
        for st in sts[1:]:
            la = st['last']
            if la['a'] == 'byz':
                sc = {}
                for b, v in as_map(la['script']).items():
                    sc[str(b)] = {'bc': v['bc'], 'pv': {str(p): ms for p, ms in as_map(v['pv']).items()}}
                steps.append({'a': 'byz', 'p': -1, 's': -1, 'land': la['land'], 'script': sc})
            else:
                steps.append({'a': la['a'], 'p': la['p'], 's': la['s'], 'land': la['land']})
            if la['a'] == 'adv' and la['land'] == 4:
                break
        out.append({'id': '%s-sim-%d' % (tag, fi), 'proto': proto, 'n': n, 't': t, 'dealer': dealer, 'byz': byz,
                    'seed': seed * 7919 + fi, 'steps': steps, 'source': 'tlc-simulate'})
    return out


def validate(ck, tag, proto, n, t, dealer, byz, results):
    """TLC trace validation of the real logs of one network configuration. Returns (accepted, rejected ids)."""
    dealers = list(range(n)) if proto == 'jf' else [dealer]
    c = consts(n, t, dealers, byz, 10 ** 6, 10 ** 6, 1)
    c['TraceFile'] = 'trace.ndjson'
    cfgtxt = vlib.cfg(c, spec='TraceSpec', invariants=INVS, properties=[], postcondition='TraceAccepted')
    pending = list(results)
    accepted, rejected = 0, []
    rounds = 0
    while pending and rounds < 8:
        rounds += 1
        path = os.path.join(vlib.subdir('traces'), '%s-%d.ndjson' % (tag, rounds))
        bounds = []
        with open(path, 'w') as f:
            pos = 0
            for r in pending:
                for e in r['events']:
                    f.write(json.dumps(e) + '\n')
                pos += len(r['events'])
                bounds.append(pos)
        res = vlib.tlc(SPEC, 'DKGTrace', cfgtxt, workers=1, files=[(path, 'trace.ndjson')], timeout=1200, name='trace-' + tag)
        import re
        m = re.findall(r'"TRACE_PREFIX", (\d+), (\d+)', res.out)
        if not m:
            raise vlib.Undecided('trace validation of %s did not finish: %s\n%s' % (tag, res.error, res.out[-1500:]))
        prefix, total = int(m[-1][0]), int(m[-1][1])
        if res.violated:
            # an invariant failed on a state reached by a REAL execution: the offending trace is the one containing the prefix
            prefix = max(prefix, 0)
        if prefix >= total and not res.violated:
            accepted += len(pending)
            ck.cov['trace_states'] = ck.cov.get('trace_states', 0) + res.distinct
            pending = []
            break
        # find the trace in which validation stopped; earlier ones are accepted, it is rejected, later ones re-run
        k = 0
        while k < len(bounds) and bounds[k] <= prefix:
            k += 1
        accepted += k
        bad = pending[k]
        start = bounds[k - 1] if k else 0
        rejected.append({'id': bad['id'], 'at_event': prefix - start + 1, 'invariant': res.violated,
                         'event': bad['events'][min(prefix - start, len(bad['events']) - 1)]})
        pending = pending[k + 1:]
    if pending:
        ck.notes.append('%s: %d traces left unvalidated after %d rejections' % (tag, len(pending), len(rejected)))
    return accepted, rejected


FVSS_SPEC = os.path.join(vlib.SPECS, 'fvss')


def tlc_cases(out):
    """the JSON lines printed by an `Emit` invariant: <<"CASE", "...">>"""
    import re
    cases = []
    for m in re.finditer(r'^<<"CASE", "(.*)">>$', out, flags=re.M):
        cases.append(json.loads(m.group(1).replace('\\"', '"').replace('\\\\', '\\')))
    return cases


def run_fvss(ck, prop, tier, vh, seed):
    """plain Feldman VSS: every delivery history up to the bound, enumerated by TLC, executed on the real object"""
    maxlen = 3 if tier == 'quick' else 4
    res = vlib.tlc(FVSS_SPEC, 'FVSS', vlib.cfg({'MaxLen': maxlen, 'FixD3': True},
                                               invariants=['NeverKeysOnBadDeal', 'KeysOnGoodDeal', 'Emit']), name='fvss', timeout=1800)
    if not res.ok:
        raise vlib.Undecided('FVSS model: %s %s' % (res.violated, res.error))
    ck.add_states(res, 'plain FVSS, all histories of <= %d deliveries' % maxlen)
    neg = vlib.tlc(FVSS_SPEC, 'FVSS', vlib.cfg({'MaxLen': 3, 'FixD3': False}, invariants=['NeverKeysOnBadDeal']), name='fvssneg')
    if 'NeverKeysOnBadDeal' not in neg.violated:
        raise vlib.Undecided('negative control D3: un-repaired FVSS model satisfies the invariant')
    ck.cov['negative_controls'] = ck.cov.get('negative_controls', 0) + 1
    cases = tlc_cases(res.out)
    if len(cases) < 1000:
        raise vlib.Undecided('FVSS enumeration produced only %d cases' % len(cases))
    cp = os.path.join(vlib.subdir('scripts'), 'fvss.ndjson')
    shapes = [(4, 1), (5, 2)] if tier == 'quick' else [(4, 1), (5, 2), (3, 1), (7, 3), (9, 5)]
    with open(cp, 'w') as f:
        k = 0
        for (n, t) in shapes:
            for c in cases:
                c2 = dict(c, id='fvss-%d-%d-%d' % (n, t, k), n=n, t=t, seed=vlib.jseed(seed, k))
                k += 1
                f.write(json.dumps(c2) + '\n')
    rp = os.path.join(vlib.subdir('results'), 'fvss.ndjson')
    vlib.run([vh, 'fvss-replay', '--in', cp, '--out', rp], check=True)
    nres = 0
    mism = 0
    for line in open(rp):
        r = json.loads(line)
        nres += 1
        for v in r['violations']:
            if v['property'] == prop:
                ck.violation('%s:%s' % (prop, v['predicate']), '%s: %s [case %s]' % (v['predicate'], v['detail'], r['id']),
                             {'family': 'fvss', 'case': r['case'], 'violation': v})
        ck.case('fvss:' + vlib.digest([r['case']['hist'], r['case']['n']]), len(r['case']['hist']) > 0)
        if r['notes']:
            mism += 1
            if len(ck.notes) < 40:
                ck.notes.append('%s: %s' % (r['id'], r['notes'][0]))
        if nres == 500:
            ck.sample({'family': 'fvss', 'hist': r['case']['hist'], 'model_res': r['case']['res'], 'real_res': r['res']})
    if nres != k:
        raise vlib.Undecided('fvss executor returned %d of %d results' % (nres, k))
    ck.cov['fvss_cases_replayed'] = nres
    ck.cov['fvss_model_mismatches'] = mism
    ck.cov['traces_validated_against_impl'] = ck.cov.get('traces_validated_against_impl', 0) + nres - mism


def run_big(ck, prop, tier, vh, seed):
    """all-honest runs at the edges of the size / threshold / index ranges, on real objects (harness/dkgsim/big.go)"""
    big = [('qual', 254, 1, 0, [0, 1, 253]), ('qual', 254, 2, 253, [0, 252, 253]), ('qual', 2, 1, 1, [0, 1]), ('qual', 2, 1, 0, [0, 1]),
           ('jf', 24, 1, 0, []), ('jf', 10, 9, 0, []), ('jf', 2, 1, 0, []), ('qual', 128, 127, 127, [0, 127]), ('qual', 255 - 1, 3, 100, [0, 100, 127, 128, 253]),
           ('qual', 17, 16, 16, list(range(17))), ('qual', 9, 4, 8, list(range(9)))]
    if tier == 'thorough':
        big += [('qual', 254, 253, 253, [0, 253]), ('qual', 200, 100, 0, [0, 1, 199]), ('jf', 40, 13, 0, []), ('jf', 16, 15, 0, []), ('jf', 64, 1, 0, []),
                ('qual', 254, 127, 127, [126, 127, 128]), ('qual', 129, 64, 128, list(range(60, 129)))]
    cp = os.path.join(vlib.subdir('scripts'), 'big.ndjson')
    with open(cp, 'w') as f:
        for k, (proto, n, t, d, mem) in enumerate(big):
            f.write(json.dumps({'id': 'big-%d' % k, 'proto': proto, 'n': n, 't': t, 'dealer': d, 'members': mem, 'seed': seed * 31 + k}) + '\n')
    rp = os.path.join(vlib.subdir('results'), 'big.ndjson')
    vlib.run([vh, 'dkg-big', '--in', cp, '--out', rp], check=True, timeout=3000)
    n = 0
    for line, b in zip(open(rp), big):
        r = json.loads(line)
        n += 1
        for v in r['violations']:
            if v['property'] == prop:
                ck.violation('%s:%s' % (prop, v['predicate']), '%s: %s' % (v['predicate'], v['detail']), {'family': 'dkg-big', 'case': list(b)})
        ck.case('big:' + vlib.digest(list(b)), True)
    if n != len(big):
        raise vlib.Undecided('dkg-big returned %d of %d results' % (n, len(big)))
    ck.cov['all_honest_runs_at_range_edges'] = [list(b[:4]) for b in big]


def run_refdeal(ck, prop, tier, vh, seed, only_shapes=None):
    """a protocol-following dealer implemented with reference arithmetic deals shaped polynomials (zero coefficients, a root at a
    participant's point, the opposite of the real participant's polynomial, ...) to real receivers: case matrix and prescribed
    outcome from specs/dkg/RefDealing.tla; it must be qualified, and the receivers' keys must be the images of its vector"""
    res = vlib.tlc(SPEC, 'RefDealing', vlib.cfg({}, spec='Spec', invariants=['Emit']).replace('CONSTANTS\n', ''), name='refdealing')
    if not res.ok:
        raise vlib.Undecided('RefDealing: %s %s' % (res.violated, res.error))
    matrix = tlc_cases(res.out)
    if len(matrix) < 150:
        raise vlib.Undecided('RefDealing enumeration produced %d cases' % len(matrix))
    ck.add_states(res, 'dealings of a protocol-following dealer with a shaped polynomial: net x shape x delivery order')
    cases = []
    reps = 1 if tier == 'quick' else 6
    for r in range(reps):
        for m in matrix:
            if only_shapes and (m['shape'] not in only_shapes or m.get('relation')) and m['shape'] != 'cancel':
                continue
            cases.append(dict(m, id='rd-%d' % len(cases), seed=vlib.jseed(seed, len(cases), 77)))
    cp = os.path.join(vlib.subdir('scripts'), 'refdeal.ndjson')
    with open(cp, 'w') as f:
        for c in cases:
            f.write(json.dumps(c) + '\n')
    rp = os.path.join(vlib.subdir('results'), 'refdeal.ndjson')
    vlib.run([vh, 'dkg-refdeal', '--in', cp, '--out', rp], check=True, timeout=3000)
    n = 0
    for line, c in zip(open(rp), cases):
        r = json.loads(line)
        n += 1
        for v in r['violations']:
            if v['property'] == prop:
                ck.violation('%s:%s' % (prop, v['predicate']), '%s: %s' % (v['predicate'], v['detail']), {'family': 'dkg-refdeal', 'case': c})
        ck.case('refdeal:' + vlib.digest([c['proto'], c['n'], c['t'], c['dealer'], c['shape'], c['silent'], c['order'], c.get('relation')]), c['shape'] != 'generic' or bool(c.get('relation')))
    if n != len(cases):
        raise vlib.Undecided('dkg-refdeal returned %d of %d results' % (n, len(cases)))
    ck.cov['reference_dealer_runs'] = n


def run_repo_tests(ck, vh, tier):
    """the repository's own DKG tests, recorded through the hook verifTraceDKG and validated against DKGNodeTrace.tla"""
    import re
    raw = vlib.subdir('repotraces')
    env = dict(vlib.GOENV, VERIF_DKG_TRACE_DIR=raw)
    count = '1' if tier == 'quick' else '4'
    p = vlib.run([vlib.GO, 'test', '-tags', 'verif', '-vet=off', '-count=' + count, '-run', 'TestDKG$', '.'], env=env, cwd=vlib.REPO, timeout=3000)
    if p.returncode != 0:
        ck.notes.append('the repository DKG tests did not pass with the tracing hook on: %s' % p.stdout[-300:])
        return
    absd = vlib.subdir('repoabs')
    vlib.run([vh, 'dkg-abstract', '--dir', raw, '--out', absd], check=True, timeout=3000)
    total = rejected = 0
    first = None
    for f in sorted(glob.glob(os.path.join(absd, '*.ndjson'))):
        kind, n, t = os.path.basename(f)[:-7].split('-')
        cfgtxt = vlib.cfg({'FixD1': True, 'FixD2': True, 'N': int(n), 'T': int(t), 'Kind': kind, 'TraceFile': 'trace.ndjson'}, postcondition='Accepted')
        lines = open(f).read().split('\n')
        res = vlib.tlc(SPEC, 'DKGNodeTrace', cfgtxt, workers=1, files=[(f, 'trace.ndjson')], name='nodetrace', timeout=600)
        m = re.findall(r'"TRACE_PREFIX", (\d+), (\d+)', res.out)
        if not m:
            raise vlib.Undecided('DKGNodeTrace failed to run on %s: %s' % (f, res.error))
        pre, tot = int(m[-1][0]), int(m[-1][1])
        total += tot
        if pre < tot:
            rejected += 1
            ck.cov.setdefault('repo_test_nonconformance', []).append({'config': os.path.basename(f), 'at_event': pre + 1, 'event': json.loads(lines[pre])})
        elif first is None:
            first = f
    ck.cov['repo_test_events_validated'] = total
    ck.cov['repo_test_configs_rejected'] = rejected
    # binding demonstration: one corrupted callback must make the validation fail
    if first:
        evs = [json.loads(x) for x in open(first) if x.strip()]
        k = max(i for i, e in enumerate(evs) if e['e'] in ('HB', 'HP'))
        evs[k]['fl'] = evs[k]['fl'] + [['disq', 0]] if not evs[k]['fl'] else []
        bad = os.path.join(absd, 'corrupted.txt')
        with open(bad, 'w') as fh:
            for e in evs:
                fh.write(json.dumps(e) + '\n')
        kind, n, t = os.path.basename(first)[:-7].split('-')
        cfgtxt = vlib.cfg({'FixD1': True, 'FixD2': True, 'N': int(n), 'T': int(t), 'Kind': kind, 'TraceFile': 'trace.ndjson'}, postcondition='Accepted')
        res = vlib.tlc(SPEC, 'DKGNodeTrace', cfgtxt, workers=1, files=[(bad, 'trace.ndjson')], name='nodetraceneg', timeout=600)
        m = re.findall(r'"TRACE_PREFIX", (\d+), (\d+)', res.out)
        if not m or int(m[-1][0]) >= int(m[-1][1]):
            raise vlib.Undecided('negative control: a corrupted repository-test trace was accepted by DKGNodeTrace')
        ck.cov['negative_controls'] = ck.cov.get('negative_controls', 0) + 1


def replay(prop, path):
    d = json.load(open(path))
    rp = d['replay']
    vh = vlib.build_vh()
    inp = os.path.join(vlib.subdir('replay'), 'in.ndjson')
    outp = os.path.join(vlib.subdir('replay'), 'out.ndjson')
    if rp['family'] == 'dkg-refdeal':
        open(inp, 'w').write(json.dumps(rp['case']) + '\n')
        vlib.run([vh, 'dkg-refdeal', '--in', inp, '--out', outp], check=True)
        vs = json.loads(open(outp).readline())['violations']
    elif rp['family'] == 'dkg-big':
        proto, n, t, d, mem = rp['case']
        open(inp, 'w').write(json.dumps({'id': 'replay', 'proto': proto, 'n': n, 't': t, 'dealer': d, 'members': mem, 'seed': 1}) + '\n')
        vlib.run([vh, 'dkg-big', '--in', inp, '--out', outp], check=True)
        vs = json.loads(open(outp).readline())['violations']
    elif rp['family'] == 'fvss':
        open(inp, 'w').write(json.dumps(rp['case']) + '\n')
        vlib.run([vh, 'fvss-replay', '--in', inp, '--out', outp], check=True)
        r = json.loads(open(outp).readline())
        vs = r['violations']
    else:
        open(inp, 'w').write(json.dumps(rp['script']) + '\n')
        vlib.run([vh, 'dkg-replay', '--in', inp, '--out', outp], check=True)
        r = json.loads(open(outp).readline())['result']
        vs = r['violations']
    hit = [v for v in vs if v['property'] == prop]
    for v in hit:
        print('VIOLATION property=%s replay=%s' % (prop, path))
        print('  %s: %s' % (v['predicate'], v['detail']))
    if not hit:
        print('replay %s: no violation of %s reproduced' % (path, prop))
    return 1 if hit else 0


def run(prop, tier):
    ck = vlib.Check(prop, tier, 'model_checking')
    seed = vlib.seed()
    # ---- MC
    for label, c, to in MC[tier]:
        res = vlib.tlc(SPEC, 'DKGNet', vlib.cfg(c, invariants=INVS, properties=PROPS, view='View'), timeout=to, name='mc')
        if not res.ok:
            if res.violated:
                raise vlib.Undecided('specification violates %s in %s: the model is wrong or the design has a new defect; '
                                     'counterexample must be replayed by hand\n%s' % (res.violated, label, res.out[-3000:]))
            raise vlib.Undecided('TLC failed on %s: %s' % (label, res.error))
        ck.add_states(res, label)
    # ---- liveness (no state constraint, weak fairness) and refinement of the ideal dealing functionality
    live_cfgs = [('qual n=3 Byzantine dealer, 1 broadcast, slack', consts(3, 1, [0], [0], 1, 1, 1)),
                 ('joint-feldman n=3 one Byzantine, 1 private/receiver', consts(3, 1, [0, 1, 2], [0], 0, 1, 0))]
    if tier == 'thorough':
        live_cfgs.append(('qual n=3 Byzantine dealer, 2 broadcasts + 1 private/receiver', consts(3, 1, [0], [0], 2, 1, 0)))
    for label, c in live_cfgs:
        res = vlib.tlc(SPEC, 'DKGNet', vlib.cfg(c, spec='FairSpec', invariants=['MappingIndependent'], properties=['Termination', 'RefinesIdeal']),
                       timeout=3000, name='live')
        if not res.ok:
            raise vlib.Undecided('liveness / refinement check failed on %s: %s %s' % (label, res.violated, res.error))
        ck.cov.setdefault('liveness_refinement_runs', []).append({'config': label, 'distinct_states': res.distinct, 'wall_s': round(res.wall, 1)})
    # ---- NEG
    neg = 0
    for fix1, fix2, expect in [(False, True, 'D1'), (True, False, 'D2')]:
        c = consts(3, 1, [0], [0], 2, 1, 0, fix1=fix1, fix2=fix2)
        res = vlib.tlc(SPEC, 'DKGNet', vlib.cfg(c, invariants=['Agreement', 'NoHonestBlamed'], view='View'), timeout=600, name='neg')
        if not res.violated:
            raise vlib.Undecided('negative control %s: the un-repaired model satisfies the invariants (vacuous model)' % expect)
        neg += 1
    ck.cov['negative_controls'] = neg
    # ---- build
    vh = vlib.build_vh()
    run_fvss(ck, prop, tier, vh, seed)
    run_repo_tests(ck, vh, tier)
    run_big(ck, prop, tier, vh, seed)
    run_refdeal(ck, prop, tier, vh, seed)
    all_results = []
    per_net = {}
    for (proto, n, t, dealer, byz) in NETS[tier]:
        tag = '%s-n%d-t%d-d%d-b%s' % (proto, n, t, dealer, ''.join(map(str, byz)))
        dealers = list(range(n)) if proto == 'jf' else [dealer]
        # B1: simulate
        c = consts(n, t, dealers, byz, 6 if proto == 'qual' else 4, 2, 1, sim=True)
        res = vlib.tlc(SPEC, 'DKGNet', vlib.cfg(c, invariants=INVS), workers=1, timeout=900, name='sim-' + tag,
                       extra=['-simulate', 'file=tr,num=%d' % SIM_N[tier], '-depth', '200', '-seed', str(seed)])
        if res.violated or (res.error and 'timeout' in str(res.error)):
            raise vlib.Undecided('simulation of %s: %s %s' % (tag, res.violated, res.error))
        files = glob.glob(os.path.join(res.dir, 'tr_*'))
        scripts = scripts_from_sim(files, proto, n, t, dealer, byz, seed, tag)
        if len(scripts) < SIM_N[tier] // 2:
            raise vlib.Undecided('simulation of %s produced only %d behaviours\n%s' % (tag, len(scripts), res.out[-2000:]))
        sp = os.path.join(vlib.subdir('scripts'), tag + '.ndjson')
        with open(sp, 'w') as f:
            for s in scripts:
                f.write(json.dumps(s) + '\n')
        rp = os.path.join(vlib.subdir('results'), tag + '-sim.ndjson')
        vlib.run([vh, 'dkg-replay', '--in', sp, '--out', rp], check=True)
        # B2: randomised runs driven on the real objects
        rq = os.path.join(vlib.subdir('results'), tag + '-rnd.ndjson')
        vlib.run([vh, 'dkg-random', '--proto', proto, '--n', str(n), '--t', str(t), '--dealer', str(dealer), '--byz',
                  ','.join(map(str, byz)), '--count', str(RND_N[tier]), '--seed', str(seed), '--prefix', tag + '-rnd',
                  '--out', rq], check=True)
        # B2 (grid): systematic strategies of the first Byzantine participant, three delivery orders
        rg = os.path.join(vlib.subdir('results'), tag + '-grid.ndjson')
        gcount, gstride = GRID_N[tier]
        vlib.run([vh, 'dkg-random', '--grid', '--stride', str(gstride), '--proto', proto, '--n', str(n), '--t', str(t), '--dealer',
                  str(dealer), '--byz', ','.join(map(str, byz)), '--count', str(gcount), '--seed', str(seed), '--prefix', tag + '-grid',
                  '--out', rg], check=True)
        results = []
        for path in (rp, rq, rg):
            for line in open(path):
                d = json.loads(line)
                r = d['result']
                r['script'] = d['script']
                results.append(r)
        if len(results) < len(scripts) + RND_N[tier] + GRID_N[tier][0]:
            raise vlib.Undecided('%s: executor returned %d results for %d scripts' % (tag, len(results), len(scripts) + RND_N[tier]))
        per_net[tag] = (proto, n, t, dealer, byz, results)
        all_results += results
    # ---- judge the real outcomes
    outcomes = {}
    for r in all_results:
        for v in (r.get('violations') or []):
            if v['property'] == prop:
                ck.violation('%s:%s' % (prop, v['predicate']), '%s: %s [script %s]' % (v['predicate'], v['detail'], r['id']),
                             {'family': 'dkg', 'script': r['script'], 'violation': v})
        shape = [(e['a'], e.get('p'), e.get('s'), json.dumps(e.get('script'), sort_keys=True) if e['a'] == 'byz' else '')
                 for e in r['events']]
        nontrivial = any(e['a'] == 'byz' and any(b['bc'] or any(b['pv'].values()) for b in (e['script'] or {}).values())
                         for e in r['events'])
        ck.case(vlib.digest(shape), nontrivial)
        outcomes[r.get('outcome', '?')] = outcomes.get(r.get('outcome', '?'), 0) + 1
        ck.cov['key_sets_rechecked_by_reference_arithmetic'] = ck.cov.get('key_sets_rechecked_by_reference_arithmetic', 0) + (r.get('refkeys') or 0)
        if r.get('notes'):
            ck.notes.append('%s: %s' % (r['id'], r['notes'][0]))
    ck.cov['real_outcomes'] = dict(sorted(outcomes.items(), key=lambda kv: -kv[1])[:12])
    # ---- VAL
    acc_total, rej_total = 0, []
    for tag, (proto, n, t, dealer, byz, results) in per_net.items():
        acc, rej = validate(ck, tag, proto, n, t, dealer, byz, results)
        acc_total += acc
        rej_total += rej
    ck.cov['traces_validated_against_impl'] = ck.cov.get('traces_validated_against_impl', 0) + acc_total
    ck.cov['nonconformance'] = rej_total[:10]
    ck.cov['nonconformance_count'] = len(rej_total)
    if all_results:
        r = all_results[0]
        ck.sample({'id': r['id'], 'events': r['events'][:12], 'outcome': r.get('outcome')})
        r = all_results[-1]
        ck.sample({'id': r['id'], 'events': r['events'][:12], 'outcome': r.get('outcome')})
    ck.assumptions = [
        'round-synchronous network with reliable broadcast as modelled in DKGNet.tla (landing rounds, FIFO per sender)',
        'Byzantine behaviour limited to the message grammar of DKGNet.tla; exhaustive only within the stated budgets',
        'polynomial names abstract the field arithmetic; concretisation uses real dealer objects as sources of well-formed values',
        'the disqualified set of a participant is read from its Disqualify callbacks',
        'key consistency is judged twice: through the threshold-signature API on every successful run, and with the reference G2 arithmetic '
        '(public shares on one degree-t polynomial with the group key at 0, private share x generator) on one successful run in four',
    ]
    return ck.finish(rule='one case = one executed network behaviour (delivery order + Byzantine scripts); distinct by the '
                          'sequence of actions and scripts; non-trivial when a Byzantine participant sent at least one message',
                     exhaustive=False)
