"""C06 (threshold reconstruction) and C18 (linearisability of the stateful object).

 C06  MC  ThresholdMath.tla: the Lagrange-at-zero computation of the C code, with limb batching and sign tracking,
          interpolates every polynomial for every enumerated index sequence (+ 2 negative controls)
          ThresholdSigSeq.tla: object invariants over all operation sequences
      B   every enumerated index sequence -> real keygen + stateless + stateful reconstruction, compared with a
          reference interpolation in E1 and verified under the group key; every enumerated operation sequence
          replayed on a real inspector / participant with the prescribed return classes
 C18  MC  ThresholdSigSeq.tla invariants (<= t+1 shares, monotone EnoughShares, stable cache)
      B2  concurrent histories recorded on one real object (goroutines, global atomic stamps) validated by
          TLC against ThresholdSigLin.tla: a history is accepted iff a linearisation exists (+ negative control)
"""
import json, os, re, subprocess, sys, time
sys.path.insert(0, os.path.join(os.path.dirname(os.path.abspath(__file__)), '..', 'tools'))
import vlib
from dkg import tlc_cases

SPEC = os.path.join(vlib.SPECS, 'threshold')
SEQ_INVS = ['AtMostTPlus1', 'CachedOnlyValid', 'NeverBadSignature', 'AbsInv']
SEQ_PROPS = ['EnoughMonotone', 'SharesOnlyGrow', 'CacheStable', 'RefinesAbs']


def seq_model(ck, tier, emit):
    runs = [(3, 1, 2, 'full'), (3, 1, 3, 'adds'), (4, 2, 3, 'adds'), (3, 1, 4, 'core')] if tier == 'quick' else [(3, 1, 3, 'full'), (4, 2, 3, 'full'), (3, 1, 4, 'adds'), (3, 1, 5, 'core'), (4, 2, 5, 'core')]
    cases = []
    for n, t, L, a in runs:
        res = vlib.tlc(SPEC, 'ThresholdSigSeq', vlib.cfg({'N': n, 'T': t, 'MaxLen': L, 'Alphabet': a},
                       invariants=SEQ_INVS + (['Emit'] if emit else []), properties=SEQ_PROPS), name='tsseq', timeout=2400)
        if not res.ok:
            raise vlib.Undecided('ThresholdSigSeq n=%d t=%d: %s %s' % (n, t, res.violated, res.error))
        ck.add_states(res, 'threshold object n=%d t=%d, all %s-alphabet sequences of length %d' % (n, t, a, L))
        if emit:
            for c in tlc_cases(res.out):
                cases.append(dict(c, n=n, t=t))
    return cases


def inductive(ck):
    """Apalache: the invariant of the abstract share pool (ThresholdSigAbs.tla, refined by ThresholdSig.tla: RefinesAbs above) is inductive
    for every group size 2..12 and every threshold (symbolic constants), and every step satisfies the action properties."""
    runs = [('initialisation', ['--cinit=CInit', '--init=Init', '--inv=IndInv', '--length=0']),
            ('consecution', ['--cinit=CInit', '--init=IndInit', '--inv=IndInv', '--length=1']),
            ('action properties', ['--cinit=CInit', '--init=IndInit', '--inv=StepProps', '--length=1'])]
    done = []
    for label, args in runs:
        t0 = time.time()
        outcome, out = vlib.apalache(SPEC, 'ThresholdSigInd', args, timeout=900, name='tsind')
        if outcome == 'Error':
            raise vlib.Undecided('Apalache refutes the inductive invariant of the share pool (%s): the model is wrong\n%s' % (label, out[-1500:]))
        done.append({'obligation': label, 'outcome': outcome, 'wall_s': round(time.time() - t0, 1)})
    ck.cov['inductive_invariant_apalache'] = {'module': 'ThresholdSigInd', 'group_sizes': '2..12, every threshold 1..n-1 (symbolic)', 'obligations': done}
    if any(d['outcome'] != 'NoError' for d in done):
        ck.notes.append('Apalache did not complete every obligation of the inductive invariant (supplementary unbounded argument, not a verdict on the code)')
    # TLAPS: the same invariant and action properties for EVERY group size and threshold (ThresholdSigProof.tla)
    t0 = time.time()
    proved, total, out = vlib.tlapm(SPEC, 'ThresholdSigProof', timeout=900, name='tsproof')
    ck.cov['tlaps_proof'] = {'module': 'ThresholdSigProof', 'theorems': ['InitInv', 'Consecution', 'Safety (Spec => []IndInv)', 'StepProperties'],
                             'obligations_proved': proved, 'obligations': total, 'wall_s': round(time.time() - t0, 1)}
    if proved >= 0 and proved < total:
        raise vlib.Undecided('TLAPS: %d of %d obligations of ThresholdSigProof fail: the proof or the model is wrong\n%s' % (total - proved, total, out[-1500:]))
    if proved < 0:
        ck.notes.append('tlapm did not run to completion (supplementary unbounded argument, not a verdict on the code)')


def run_c06(tier):
    ck = vlib.Check('C06', tier, 'model_checking')
    seed = vlib.seed()
    maxn = 5 if tier == 'quick' else 6
    sizes = {7, 8, 9, 15, 16, 17, 33} if tier == 'quick' else {7, 8, 9, 15, 16, 17, 23, 24, 25, 31, 32, 33, 41, 49, 57, 64, 65}
    res = vlib.tlc(SPEC, 'ThresholdMath', vlib.cfg({'Q': 257, 'MaxN': maxn, 'Sizes': sizes, 'Mutation': 'none'},
                   invariants=['Interpolates', 'LimbFits', 'Emit']), name='tmath', timeout=3000)
    if not res.ok:
        raise vlib.Undecided('ThresholdMath: %s %s' % (res.violated, res.error))
    ck.add_states(res, 'Lagrange transcription over F_257: all ordered (t+1)-subsets of 1..n, n<=%d; structured sizes %s' % (maxn, sorted(sizes)))
    mcases = tlc_cases(res.out)
    # longer structured sequences (same four shapes as ThresholdMath.Structured), beyond what TLC evaluates in reasonable time:
    # executed on the real code against the reference interpolation only
    for k in ([65, 100] if tier == 'quick' else [66, 100, 127, 128, 129, 200, 253, 254]):
        mcases.append({'n': 254, 'ind': list(range(1, k + 1))})
        mcases.append({'n': 254, 'ind': [255 - j for j in range(1, k + 1)]})
        mcases.append({'n': 254, 'ind': [(j + 1) // 2 if j % 2 == 1 else 255 - j // 2 for j in range(1, k + 1)]})
        mcases.append({'n': 254, 'ind': [((j * 37 + 11) % 254) + 1 for j in range(1, k + 1)]})
    # eight indices at one end of 1..254 filling one batch of the coefficient computation, one index at the other end in another batch,
    # in both orders; the two complete orders of all 254 (differences of the largest magnitude: 253, eight per 64-bit limb)
    hi, lo = list(range(246, 254)), list(range(1, 9))
    for ind in ([hi + [1], [1] + hi, lo + [254], [254] + lo, hi + [1, 2], [2, 1] + hi, [3] + hi + [1], hi[::-1] + [1], list(range(247, 255)) + [1],
                 [1, 2, 3, 4] + hi + [5, 6, 7], list(range(1, 255)), list(range(254, 0, -1))]):
        mcases.append({'n': 254, 'ind': ind})
    neg = 0
    for mut, inv in [('nosign', 'Interpolates'), ('batch9', 'LimbFits')]:
        r = vlib.tlc(SPEC, 'ThresholdMath', vlib.cfg({'Q': 257, 'MaxN': 3, 'Sizes': {9, 17}, 'Mutation': mut}, invariants=[inv]), name='tmneg')
        if inv not in r.violated:
            raise vlib.Undecided('negative control %s not detected by %s' % (mut, inv))
        neg += 1
    ck.cov['negative_controls'] = neg
    scases = seq_model(ck, tier, True)
    vh = vlib.build_vh()
    # (a) index sequences
    mp = os.path.join(vlib.subdir('scripts'), 'tmath.ndjson')
    with open(mp, 'w') as f:
        for k, c in enumerate(mcases):
            f.write(json.dumps({'id': 'tm-%d' % k, 'n': max(c['n'], max(c['ind'])), 'ind': c['ind'], 'seed': vlib.jseed(seed, k)}) + '\n')
    mo = os.path.join(vlib.subdir('results'), 'tmath.ndjson')
    vlib.run([vh, 'thresh-math', '--in', mp, '--out', mo], check=True)
    nm = 0
    for line, c in zip(open(mo), mcases):
        r = json.loads(line)
        nm += 1
        for v in r['violations']:
            if v['property'] == 'C06':
                ck.violation('C06:%s' % v['predicate'], '%s: %s' % (v['predicate'], v['detail']),
                             {'family': 'thresh-math', 'case': {'n': max(c['n'], max(c['ind'])), 'ind': c['ind'], 'seed': vlib.jseed(seed, nm - 1), 'id': r['id']}})
        ck.case('tm:' + vlib.digest(c['ind']), len(c['ind']) >= 2)
    if nm != len(mcases):
        raise vlib.Undecided('thresh-math returned %d of %d' % (nm, len(mcases)))
    ck.sample({'family': 'index sequence', 'ind': mcases[0]['ind']})
    ck.sample({'family': 'index sequence', 'ind': mcases[-1]['ind']})
    # (b) operation sequences
    sp = os.path.join(vlib.subdir('scripts'), 'tseq.ndjson')
    with open(sp, 'w') as f:
        for k, c in enumerate(scases):
            c['id'] = 'ts-%d' % k
            c['seed'] = vlib.jseed(seed, k)
            f.write(json.dumps(c) + '\n')
    so = os.path.join(vlib.subdir('results'), 'tseq.ndjson')
    vlib.run([vh, 'thresh-seq', '--in', sp, '--out', so], check=True)
    ns = 0
    for line, c in zip(open(so), scases):
        r = json.loads(line)
        ns += 1
        for v in r['violations']:
            if v['property'] == 'C06':
                ck.violation('C06:%s' % v['predicate'], '%s: %s' % (v['predicate'], v['detail']), {'family': 'thresh-seq', 'case': c})
        ck.case('ts:' + vlib.digest([c['n'], c['t'], [(h['op']['name'], h['op']['i'], h['op']['k']) for h in c['hist']]]),
                any(h['ret'] in ('II', 'dup', 'invalidSig', 'notEnough', 'sig') for h in c['hist']))
    if ns != len(scases):
        raise vlib.Undecided('thresh-seq returned %d of %d' % (ns, len(scases)))
    ck.sample({'family': 'operation sequence', 'n': scases[-1]['n'], 't': scases[-1]['t'],
               'ops_with_prescribed_return': [[h['op']['name'], h['op']['i'], h['op']['k'], h['ret']] for h in scases[-1]['hist']]})
    ck.cov['traces_validated_against_impl'] = nm + ns
    ck.assumptions = ['the Lagrange transcription is checked over F_257; the real field arithmetic is reached through the replays only',
                      'reference interpolation uses math/big curve arithmetic (harness/ref), hash-to-curve is the library\'s own',
                      'index sequences: exhaustive for n <= %d, structured beyond' % maxn]
    return ck.finish(rule='cases = TLC-enumerated signer index sequences (each run through keygen, stateless and stateful reconstruction, '
                          'bad-share and error-class probes) and TLC-enumerated operation sequences on one object; distinct by their content',
                     exhaustive=True)


def run_c18(tier):
    ck = vlib.Check('C18', tier, 'model_checking')
    seed = vlib.seed()
    seq_model(ck, 'quick', False)
    inductive(ck)
    vh = vlib.build_vh()
    plans = [(4, 1, 4, 3, False), (3, 1, 2, 4, True), (5, 2, 8, 3, True), (4, 2, 3, 4, False)]
    count = 120 if tier == 'quick' else 2500
    hists = {}
    bcount = 1500 if tier == 'quick' else 20000
    for (n, t, g, ops, chaos) in plans + [(5, 2, 0, 0, 'boundary'), (8, 3, 0, 0, 'boundary'), (4, 1, 0, 0, 'boundary')]:
        boundary = chaos == 'boundary'
        cnt = bcount if boundary else count
        out = os.path.join(vlib.subdir('results'), 'conc-%d-%d-%d-%s.ndjson' % (n, t, g, chaos))
        cmd = [vh, 'thresh-conc', '--out', out, '--count', str(cnt), '--n', str(n), '--t', str(t), '--g', str(g or 2), '--ops', str(ops or 1),
               '--seed', str(seed + (7 if boundary else 0))] + (['--boundary'] if boundary else (['--chaos'] if chaos else []))
        vlib.run(cmd, check=True)
        hs = [json.loads(l) for l in open(out)]
        if len(hs) != cnt:
            raise vlib.Undecided('recorder returned %d of %d histories' % (len(hs), cnt))
        hists[(n, t)] = hists.get((n, t), []) + hs
    total = 0
    orders = set()
    for (n, t), hs in hists.items():
        for h in hs:
            for v in h['violations']:
                if v['property'] == 'C18':
                    ck.violation('C18:%s' % v['predicate'], v['detail'], {'family': 'thresh-conc', 'history': h})
            overl = sum(1 for a, b in zip(h['events'], h['events'][1:]) if a['e'] == 'inv' and b['e'] == 'inv')
            ck.case(vlib.digest(h['events']), overl > 0)
            orders.add(vlib.digest([(e['e'], e['g']) for e in h['events']]))
        acc, rej = validate_lin(ck, n, t, hs)
        total += acc
        for h, at in rej:
            ck.violation('C18:NoLinearisation', 'no sequential order explains the recorded returns of history %s (stopped at event %d: %s)'
                         % (h['id'], at, json.dumps(h['events'][min(at, len(h['events']) - 1)])), {'family': 'thresh-conc', 'history': h})
    # negative control: a history whose returns cannot be explained must be rejected
    hs = list(hists.values())[0]
    bad = corrupt(hs)
    if bad is None:
        raise vlib.Undecided('negative control: no history suitable for corruption')
    n, t = list(hists.keys())[0]
    acc, rej = validate_lin(ck, n, t, [bad], count_states=False)
    if not rej:
        raise vlib.Undecided('negative control: corrupted history accepted by ThresholdSigLin')
    ck.cov['negative_controls'] = 1
    ck.cov['traces_validated_against_impl'] = total
    ck.cov['distinct_interleaving_shapes'] = len(orders)
    h0 = list(hists.values())[0][0]
    ck.sample({'history': h0['id'], 'events': h0['events'][:16]})
    ck.assumptions = ['only the schedules the Go scheduler produced (with yields in chaos mode) are explored; their diversity is reported as distinct_interleaving_shapes',
                      'invocation stamped before and response after the call with one atomic counter, so recorded intervals contain the real ones',
                      'share kinds v/i/g/m as in ThresholdSig.tla']
    return ck.finish(rule='one case = one recorded concurrent history on a fresh real object; non-trivial when at least two invocations overlap',
                     exhaustive=False)


def corrupt(hs):
    """flip one returned 'true' of TrustedAdd into 'false' after enough shares were surely present -> unexplainable"""
    for h in hs:
        evs = json.loads(json.dumps(h['events']))
        for k in range(len(evs) - 1, 0, -1):
            if evs[k]['e'] == 'res' and evs[k]['g'] == 0 and evs[k]['ret'] in ('true', 'false') and evs[k - 1]['name'] == 'EnoughShares':
                evs[k]['ret'] = 'false' if evs[k]['ret'] == 'true' else 'true'
                return {'id': h['id'] + '-corrupted', 'events': evs, 'violations': []}
    return None


def validate_lin(ck, n, t, hs, count_states=True):
    pending = list(hs)
    accepted, rejected = 0, []
    rounds = 0
    cfgtxt = vlib.cfg({'N': n, 'T': t, 'TraceFile': 'trace.ndjson'}, invariants=['AtMostTPlus1', 'CachedOnlyValid'],
                      constraint='Mark', postcondition='Accepted')
    while pending and rounds < 6:
        rounds += 1
        path = os.path.join(vlib.subdir('traces'), 'lin-%d-%d-%d.ndjson' % (n, t, rounds))
        bounds = []
        pos = 0
        with open(path, 'w') as f:
            for h in pending:
                for e in h['events']:
                    f.write(json.dumps(e) + '\n')
                pos += len(h['events'])
                bounds.append(pos)
        res = vlib.tlc(SPEC, 'ThresholdSigLin', cfgtxt, workers=1, files=[(path, 'trace.ndjson')], timeout=1800, name='lin',
                       java_opts='-Dtlc2.tool.queue.IStateQueue=StateDeque')
        m = re.findall(r'"TRACE_PREFIX", (\d+), (\d+)', res.out)
        if not m or res.violated:
            raise vlib.Undecided('ThresholdSigLin run failed: %s %s\n%s' % (res.violated, res.error, res.out[-1200:]))
        prefix, tot = int(m[-1][0]), int(m[-1][1])
        if count_states:
            ck.cov['trace_states'] = ck.cov.get('trace_states', 0) + res.distinct
        if prefix >= tot:
            accepted += len(pending)
            pending = []
            break
        k = 0
        while k < len(bounds) and bounds[k] <= prefix:
            k += 1
        accepted += k
        start = bounds[k - 1] if k else 0
        rejected.append((pending[k], prefix - start))
        pending = pending[k + 1:]
    if pending:
        # every rejection is already a reported violation; the rest of the batch stays unexamined
        ck.notes.append('%d histories left unvalidated after %d rejections' % (len(pending), len(rejected)))
    return accepted, rejected


def run(prop, tier):
    return run_c06(tier) if prop == 'C06' else run_c18(tier)


def replay(prop, path):
    d = json.load(open(path))
    rp = d['replay']
    vh = vlib.build_vh()
    inp = os.path.join(vlib.subdir('replay'), 'in.ndjson')
    outp = os.path.join(vlib.subdir('replay'), 'out.ndjson')
    if rp['family'] in ('thresh-math', 'thresh-seq'):
        open(inp, 'w').write(json.dumps(rp['case']) + '\n')
        vlib.run([vh, rp['family'], '--in', inp, '--out', outp], check=True)
        r = json.loads(open(outp).readline())
        hit = [v for v in r['violations'] if v['property'] == prop]
        for v in hit:
            print('VIOLATION property=%s replay=%s' % (prop, path))
            print('  %s: %s' % (v['predicate'], v['detail']))
        if not hit:
            print('replay %s: no violation of %s reproduced' % (path, prop))
        return 1 if hit else 0
    # a recorded concurrent history is re-validated (the schedule itself cannot be forced)
    h = rp['history']
    ck = vlib.Check(prop, 'quick', 'model_checking')
    n = max([e['i'] for e in h['events'] if e['e'] == 'inv'] + [2])
    m = re.match(r'h-(\d+)-(\d+)-', h['id'])
    acc, rej = validate_lin(ck, int(m.group(1)), int(m.group(2)), [h], count_states=False)
    if rej or h['violations']:
        print('VIOLATION property=%s replay=%s' % (prop, path))
        print('  recorded history %s has no linearisation' % h['id'])
        return 1
    print('replay %s: history accepted' % path)
    return 0
