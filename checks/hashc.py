"""C13: hashers and KMAC128 equal their standards for all inputs and chunkings.

 MC  Hasher.tla: the sponge write loop (fast / buffered path, nil sentinel) keeps its buffer invariants for EVERY write length
     0..2*rate+1 from every reachable fill level (real rates 136 and 104); stream semantics of all operation histories;
     KmacPad.tla: bytepad lengths for every key length (negative control: the pinned formula fails at 163, 331, ...)
 B1  every enumerated history replayed on real hashers of its class, digests compared with independent references on the
     model's stream; plus complete sweeps on the real code: every length 0..4*rate x every 2-split, fresh objects,
     dirty-object ComputeHash, one-shot helpers, long inputs; KMAC key/customizer/output grids incl. the block-boundary keys
"""
import json, os, sys
sys.path.insert(0, os.path.join(os.path.dirname(os.path.abspath(__file__)), '..', 'tools'))
import vlib
from dkg import tlc_cases

SPEC = os.path.join(vlib.SPECS, 'hash')
INV = ['BufferBounded', 'BufferAccounts', 'NilOnlyFresh', 'FastPathOnlyWhole', 'DirtyOnlyFinalised']


def lens_for(rate):
    return {0, 1, rate - 1, rate, rate + 1, 2 * rate, 2 * rate + 1}


def run(prop, tier):
    ck = vlib.Check('C13', tier, 'model_checking')
    seed = vlib.seed()
    jobs = []
    ops = 4 if tier == 'quick' else 5
    for rate in (136, 104):
        r = vlib.tlc(SPEC, 'Hasher', vlib.cfg({'Rate': rate, 'Class': 'sponge', 'MaxOps': 3, 'Record': False}, invariants=INV, view='View'),
                     name='hbuf', timeout=1200, defs={'Lens': '0..%d' % (2 * rate + 1)})
        if not r.ok:
            raise vlib.Undecided('Hasher buffer model rate %d: %s %s' % (rate, r.violated, r.error))
        ck.add_states(r, 'sponge buffer, rate %d, every write length 0..%d, 3 operations' % (rate, 2 * rate + 1))
    # the write loop one iteration per step (SpongeLoop.tla): TLC for small and real rates with every length, agreement with WriteLoop above;
    # TLAPS for every rate >= 1, every length, any number of writes, with termination of the loop (SpongeLoopProof.tla)
    for rate, maxlen, writes in [(5, 17, 3), (8, 25, 3), (136, 2 * 136 + 1, 2), (104, 2 * 104 + 1, 2)]:
        r = vlib.tlc(SPEC, 'SpongeLoopMC', vlib.cfg({'Rate': rate, 'MaxLen': maxlen, 'MaxWrites': writes}, spec='MCSpec',
                     invariants=['LoopInv', 'LoopIsWriteLoop', 'ClosedForm'], properties=['Terminates']), name='sloop', timeout=1200)
        if not r.ok:
            raise vlib.Undecided('SpongeLoop rate %d: %s %s' % (rate, r.violated, r.error))
        ck.add_states(r, 'sponge write loop step by step, rate %d, every write length 0..%d, %d writes' % (rate, maxlen, writes))
    import time
    t0 = time.time()
    proved, total, out = vlib.tlapm(SPEC, 'SpongeLoopProof', timeout=900, name='sloopproof')
    ck.cov['tlaps_proof'] = {'module': 'SpongeLoopProof', 'theorems': ['InitInv', 'Consecution', 'Safety (Spec => []LoopInv)', 'Progress', 'PaddingFits'],
                             'for': 'every rate >= 1, every write length, any number of writes', 'obligations_proved': proved, 'obligations': total,
                             'wall_s': round(time.time() - t0, 1)}
    p2, t2, out2 = vlib.tlapm(SPEC, 'KmacPadProof', timeout=900, name='kpadproof')
    ck.cov['tlaps_proof_kmac_pad'] = {'module': 'KmacPadProof', 'theorems': ['PadOK (every length)', 'OldPadWrongExactlyOnBoundaries (D7)'],
                                      'obligations_proved': p2, 'obligations': t2}
    if p2 >= 0 and p2 < t2:
        raise vlib.Undecided('TLAPS: %d of %d obligations of KmacPadProof fail: the proof or the model is wrong\n%s' % (t2 - p2, t2, out2[-1500:]))
    if proved >= 0 and proved < total:
        raise vlib.Undecided('TLAPS: %d of %d obligations of SpongeLoopProof fail: the proof or the model is wrong\n%s' % (total - proved, total, out[-1500:]))
    if proved < 0:
        ck.notes.append('tlapm did not run to completion (supplementary unbounded argument, not a verdict on the code)')
    for cls, rate, o in [('sponge', 136, ops), ('sponge', 104, ops - 1), ('sha2', 64, ops - 1), ('kmac', 168, ops - 1)]:
        r = vlib.tlc(SPEC, 'Hasher', vlib.cfg({'Rate': rate, 'Class': cls, 'MaxOps': o, 'Lens': lens_for(rate), 'Record': True},
                                               invariants=INV + ['Emit']), name='hhist', timeout=2400)
        if not r.ok:
            raise vlib.Undecided('Hasher history model %s: %s %s' % (cls, r.violated, r.error))
        ck.add_states(r, '%s histories of %d operations, boundary lengths of rate %d' % (cls, o, rate))
        for c in tlc_cases(r.out):
            if not any(h['op'] in ('SumHash', 'ComputeHash') for h in c['hist']):
                continue
            jobs.append({'kind': 'history', 'case': {'id': 'h-%d' % len(jobs), 'class': cls, 'rate': rate, 'seed': vlib.jseed(seed, len(jobs)),
                                                     'hist': c['hist']}})
    # long behaviours: one hasher object reused across many operations (tlc -simulate on the same specification)
    nlong, depth = (60, 30) if tier == 'quick' else (1200, 60)
    nl = 0
    for cls, rate in [('sponge', 136), ('sponge', 104), ('sha2', 64), ('kmac', 168)]:
        r = vlib.tlc(SPEC, 'Hasher', vlib.cfg({'Rate': rate, 'Class': cls, 'MaxOps': depth, 'Lens': lens_for(rate) | {7, 8, 9, 31, 64, 100, rate - 9, rate - 8, rate - 7, 3 * rate + 5},
                                               'Record': True}, invariants=INV + ['Emit']), name='hsim', timeout=1200, workers=1,
                     extra=['-simulate', 'num=%d' % nlong, '-depth', str(depth + 2), '-seed', str(seed)])
        if r.violated:
            raise vlib.Undecided('Hasher simulation %s violates %s' % (cls, r.violated))
        for c in tlc_cases(r.out):
            nl += 1
            jobs.append({'kind': 'history', 'case': {'id': 'hl-%d' % len(jobs), 'class': cls, 'rate': rate, 'seed': vlib.jseed(seed, len(jobs)),
                                                     'hist': c['hist']}})
    if nl < nlong * 2:
        raise vlib.Undecided('Hasher simulation produced only %d long behaviours' % nl)
    ck.cov['long_behaviours'] = {'count': nl, 'operations_each': depth}
    nhist = len(jobs)
    r = vlib.tlc(SPEC, 'KmacPad', vlib.cfg({'MaxKey': 1200, 'Fixed': True}, invariants=['Holds', 'Emit']), name='kpad')
    if not r.ok:
        raise vlib.Undecided('KmacPad: %s %s' % (r.violated, r.error))
    ck.add_states(r, 'KMAC bytepad lengths, key length 0..1200 and windows around 8192 and 2097152 (longer length headers)')
    boundary = sorted(set(tlc_cases(r.out)[0]['boundary']) | set(tlc_cases(r.out)[0]['steps']))     # block boundaries and header steps (32, 8192, 2097152)
    neg = vlib.tlc(SPEC, 'KmacPad', vlib.cfg({'MaxKey': 400, 'Fixed': False}, invariants=['Holds']), name='kpadneg')
    if 'Holds' not in neg.violated:
        raise vlib.Undecided('negative control D7 not detected')
    ck.cov['negative_controls'] = 1
    for algo, rate in [('SHA3_256', 136), ('Keccak_256', 136), ('SHA3_384', 104), ('SHA2_256', 64), ('SHA2_384', 128)]:
        jobs.append({'kind': 'sweep', 'algo': algo, 'maxlen': 4 * rate, 'three': 2000 if tier == 'quick' else 3000000, 'seed': seed})
    jobs.append({'kind': 'kmac', 'boundary': [b for b in boundary if b <= 700 or b > 1200], 'seed': seed, 'dense': tier == 'thorough'})
    vh = vlib.build_vh()
    jp = os.path.join(vlib.subdir('scripts'), 'hash.ndjson')
    with open(jp, 'w') as f:
        for j in jobs:
            f.write(json.dumps(j) + '\n')
    op = os.path.join(vlib.subdir('results'), 'hash.ndjson')
    vlib.run([vh, 'hash-run', '--in', jp, '--out', op], check=True, timeout=7200)
    n = 0
    evals = 0
    for line, j in zip(open(op), jobs):
        r = json.loads(line)
        n += 1
        evals += r['evals']
        for v in r['violations']:
            if v['property'] == 'C13':
                key = 'C13:%s' % v['predicate']
                if v['predicate'] == 'KmacSP800_185' and 'key length' in v['detail']:
                    import re
                    m = re.search(r'key length (\d+)', v['detail'])
                    if m and int(m.group(1)) in boundary:
                        key = 'C13:KMAC:bytepad'
                ck.violation(key, '%s: %s' % (v['predicate'], v['detail']), {'family': 'hash', 'job': j})
        if j['kind'] == 'history':
            ck.case(vlib.digest([j['case']['class'], j['case']['rate'], j['case']['hist']]), len(j['case']['hist']) > 1)
        else:
            ck.case(j['kind'] + j.get('algo', ''), True)
    if n != len(jobs):
        raise vlib.Undecided('hash-run returned %d of %d' % (n, len(jobs)))
    ck.evaluations = evals
    ck.cov['traces_validated_against_impl'] = nhist
    ck.cov['kmac_boundary_key_lengths'] = boundary
    ck.sample(jobs[0]['case'])
    ck.sample(jobs[nhist - 1]['case'])
    ck.assumptions = ['references: Go standard library crypto/sha3 (SHA-3, cSHAKE128), crypto/sha256, crypto/sha512; x/crypto legacy Keccak; KMAC built from SP 800-185 in the harness',
                      'Keccak-f itself is reached only through the comparisons',
                      'sponge objects are not written to after SumHash/ComputeHash without Reset (documented restriction)']
    return ck.finish(rule='evaluations = digests compared with a reference; distinct cases = TLC-enumerated histories per class plus the sweep / grid jobs',
                     exhaustive=True)


def replay(prop, path):
    d = json.load(open(path))
    vh = vlib.build_vh()
    inp = os.path.join(vlib.subdir('replay'), 'in.ndjson')
    outp = os.path.join(vlib.subdir('replay'), 'out.ndjson')
    open(inp, 'w').write(json.dumps(d['replay']['job']) + '\n')
    vlib.run([vh, 'hash-run', '--in', inp, '--out', outp], check=True)
    r = json.loads(open(outp).readline())
    hit = [v for v in r['violations'] if v['property'] == prop]
    for v in hit:
        print('VIOLATION property=%s replay=%s' % (prop, path))
        print('  %s: %s' % (v['predicate'], v['detail']))
    if not hit:
        print('replay %s: no violation of %s reproduced' % (path, prop))
    return 1 if hit else 0
