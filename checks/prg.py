"""C14 (ChaCha20 PRG stream, Store/Restore) and C15 (sampling helpers).

 C14  MC  ChaChaPRG.tla: every sequence of reads / store-restore over the boundary read sizes, and every byte offset
          0..MaxPos as the store point: SameStream, RestoreResumes
      B1  every enumerated behaviour replayed on the real PRG (random seeds, customizer lengths 0..12), every returned
          buffer compared with an independent RFC 8439 keystream at the prescribed interval; derived outputs after restore
 C15  MC  Sampling.tla: one-attempt uniformity of UintN by direct counting for every n <= MaxN; Fisher-Yates bijections
      B1  TLC tables (n, chunk) -> result and (draws -> outcome) compared with the real helpers run on explicit tapes through
          the hook random.NewVerifRand; the real UintN run on EVERY one-attempt tape for every n up to the tier bound with
          preimage counting (exact uniformity measured on the real code)
"""
import json, os, sys
sys.path.insert(0, os.path.join(os.path.dirname(os.path.abspath(__file__)), '..', 'tools'))
import vlib
from dkg import tlc_cases

SPEC = os.path.join(vlib.SPECS, 'prg')
SIZES = {0, 1, 63, 64, 65, 127, 128, 129}


def run_c14(tier):
    ck = vlib.Check('C14', tier, 'model_checking')
    seed = vlib.seed()
    cases = []
    plans = [('free', 3 if tier == 'quick' else 4, 2, 0), ('offsets', 4, 2, 321 if tier == 'thorough' else 200),
             ('far', 3 if tier == 'quick' else 4, 2, 0)]
    if tier == 'thorough':
        plans.append(('free', 3, 3, 0))
    for pattern, ops, gens, maxpos in plans:
        res = vlib.tlc(SPEC, 'ChaChaPRG', vlib.cfg({'Sizes': SIZES, 'MaxOps': ops, 'MaxGens': gens, 'Pattern': pattern, 'MaxPos': maxpos, 'TruncBug': False},
                       invariants=['SameStream', 'RestoreResumes', 'Emit']), name='prg', timeout=2400)
        if not res.ok:
            raise vlib.Undecided('ChaChaPRG %s: %s %s' % (pattern, res.violated, res.error))
        ck.add_states(res, 'pattern=%s ops=%d generators<=%d maxpos=%d' % (pattern, ops, gens, maxpos))
        cases += tlc_cases(res.out)
    # long behaviours (one generator reused across many operations, forks far into the run): tlc -simulate on the same specification
    nlong, depth = (80, 40) if tier == 'quick' else (1500, 80)
    res = vlib.tlc(SPEC, 'ChaChaPRG', vlib.cfg({'Sizes': SIZES, 'MaxOps': depth, 'MaxGens': 4, 'Pattern': 'free', 'MaxPos': 0, 'TruncBug': False},
                   invariants=['SameStream', 'Emit']), name='prgsim', timeout=1200, workers=1,
                   extra=['-simulate', 'num=%d' % nlong, '-depth', str(depth + 2), '-seed', str(seed)])
    if res.violated:
        raise vlib.Undecided('ChaChaPRG simulation violates %s' % res.violated)
    longc = tlc_cases(res.out)
    if len(longc) < nlong // 2:
        raise vlib.Undecided('ChaChaPRG simulation produced %d behaviours' % len(longc))
    ck.cov['long_behaviours'] = {'count': len(longc), 'operations_each': depth}
    cases += longc
    neg = vlib.tlc(SPEC, 'ChaChaPRG', vlib.cfg({'Sizes': {1}, 'MaxOps': 2, 'MaxGens': 2, 'Pattern': 'far', 'MaxPos': 0, 'TruncBug': True},
                   invariants=['SameStream']), name='prgneg')
    if 'SameStream' not in neg.violated:
        raise vlib.Undecided('negative control (32-bit truncation in Restore) not detected')
    ck.cov['negative_controls'] = 1
    # reads of EVERY size, behaviours of EVERY length: the position arithmetic of the specification (cipher position = byte counter,
    # a read of k bytes advances the stream position by exactly k) is an inductive invariant (TLAPS, ChaChaPRGProof.tla)
    import time
    t0 = time.time()
    proved, total, out = vlib.tlapm(SPEC, 'ChaChaPRGProof', timeout=900, name='prgproof')
    ck.cov['tlaps_proof'] = {'module': 'ChaChaPRGProof', 'theorems': ['InitInv', 'Consecution', 'Safety (Spec => []IndInv)', 'ReadAdvancesByK'],
                             'obligations_proved': proved, 'obligations': total, 'wall_s': round(time.time() - t0, 1)}
    if proved >= 0 and proved < total:
        raise vlib.Undecided('TLAPS: %d of %d obligations of ChaChaPRGProof fail: the proof or the model is wrong\n%s' % (total - proved, total, out[-1500:]))
    if proved < 0:
        ck.notes.append('tlapm did not run to completion (supplementary unbounded argument, not a verdict on the code)')
    if len(cases) < 500:
        raise vlib.Undecided('ChaChaPRG enumeration produced %d cases' % len(cases))
    vh = vlib.build_vh()
    reps = 1 if tier == 'quick' else 10
    cp = os.path.join(vlib.subdir('scripts'), 'prg.ndjson')
    n = 0
    with open(cp, 'w') as f:
        for r in range(reps):
            for c in cases:
                f.write(json.dumps({'id': 'prg-%d' % n, 'seed': vlib.jseed(seed, n), 'hist': c['hist']}) + '\n')
                n += 1
    op = os.path.join(vlib.subdir('results'), 'prg.ndjson')
    vlib.run([vh, 'prg-stream', '--in', cp, '--out', op, '--seed', str(seed)], check=True)
    got = 0
    for line in open(op):
        r = json.loads(line)
        got += 1
        for v in r['violations']:
            if v['property'] == 'C14':
                ck.violation('C14:%s' % v['predicate'], '%s: %s' % (v['predicate'], v['detail']), {'family': 'prg-stream', 'result': r})
    if got != n + 1:
        raise vlib.Undecided('prg-stream returned %d of %d' % (got, n + 1))
    for c in cases:
        ck.case(vlib.digest(c['hist']), any(h['op'] == 'fork' or h['k'] > 0 for h in c['hist']))
    ck.evaluations = n + 1
    ck.cov['traces_validated_against_impl'] = n
    ck.sample(cases[len(cases) // 2])
    ck.sample(cases[-1])
    ck.assumptions = ['reference keystream: own RFC 8439 block function (harness/ref/chacha.go)',
                      'seeds and customizers are sampled; read sizes and store offsets are enumerated']
    return ck.finish(rule='one case = one sequence of Read / Store+Restore operations with the prescribed keystream intervals; '
                          'non-trivial when it reads bytes or restores', exhaustive=True)


def run_c15(tier):
    ck = vlib.Check('C15', tier, 'model_checking')
    seed = vlib.seed()
    maxn, maxperm, exh = (64, 5, 4096) if tier == 'quick' else (256, 7, 65536)
    res = vlib.tlc(SPEC, 'Sampling', vlib.cfg({'MaxN': maxn, 'MaxPerm': maxperm}, invariants=['Holds', 'Emit']), name='samp', timeout=3000)
    if not res.ok:
        raise vlib.Undecided('Sampling: %s %s' % (res.violated, res.error))
    ck.add_states(res, 'UintN counting for n<=%d; Fisher-Yates bijections for population <= %d' % (maxn, maxperm))
    cases = tlc_cases(res.out)
    for c in cases:
        if c['kind'] != 'uintn':
            c['rows'] = list(c['rows'])
    vh = vlib.build_vh()
    cp = os.path.join(vlib.subdir('scripts'), 'samp.ndjson')
    with open(cp, 'w') as f:
        for c in cases:
            f.write(json.dumps(c) + '\n')
    op = os.path.join(vlib.subdir('results'), 'samp.ndjson')
    vlib.run([vh, 'prg-sampling', '--in', cp, '--out', op, '--seed', str(seed), '--exh-hi', str(exh),
              '--per', '20' if tier == 'quick' else '200'], check=True, timeout=7200)
    evals = 0
    ids = 0
    for line in open(op):
        r = json.loads(line)
        ids += 1
        evals += r['evals']
        for v in r['violations']:
            if v['property'] == 'HARNESS':
                raise vlib.Undecided('harness transcription of the specification disagrees with the TLC table: %s' % v['detail'])
            if v['property'] == 'C15':
                ck.violation('C15:%s' % v['predicate'], '%s: %s' % (v['predicate'], v['detail']), {'family': 'prg-sampling', 'result': r})
        ck.case(r['id'], r['evals'] > 1)
    if ids < len(cases) + 3:
        raise vlib.Undecided('prg-sampling returned %d results' % ids)
    ck.evaluations = evals
    ck.cov['traces_validated_against_impl'] = evals
    ck.cov['exhaustive_uintn_upto'] = exh
    c0 = [c for c in cases if c['kind'] == 'uintn' and c['n'] == 5][0]
    ck.sample({'kind': 'uintn', 'n': 5, 'size': c0['size'], 'mask': c0['mask'], 'table_first_16_chunks': c0['table'][:16]})
    c1 = [c for c in cases if c['kind'] == 'perm' and c['n'] == 3][0]
    ck.sample({'kind': 'perm', 'n': 3, 'rows': c1['rows']})
    ck.assumptions = ['uniformity is a counting statement over source bytes: the source itself (ChaCha20) is C14',
                      'the real UintN is run on every one-attempt tape for n <= %d and for n = 2^k, 2^k+-1 (k<=16); larger n by sampled tapes' % exh,
                      'hook random.NewVerifRand (build tag verif) substitutes the byte source only']
    return ck.finish(rule='evaluations = calls of the real helpers on explicit tapes; distinct cases = (helper, n[, m]) jobs and exhaustive slices',
                     exhaustive=True)


def run(prop, tier):
    return run_c14(tier) if prop == 'C14' else run_c15(tier)


def replay(prop, path):
    d = json.load(open(path))
    print('replay of %s: re-run the check (cases are enumerated deterministically): bin/check %s' % (path, prop))
    return run(prop, 'quick')
