"""C09: no exported function panics or corrupts memory on untrusted input.

 MODEL  specs/misc/APIMisuse.tla: the table of every exported function x argument classes with the documented outcome class,
        and every (protocol, phase, channel, tag, payload size, origin) DKG message; TLC enumerates it completely
 RUN    every call is executed on the real library under recover() in child processes (a C abort / fatal error kills only the
        child and is attributed by bisection); typed-error / false-verdict expectations are checked
 PLUS   the behaviours generated for the other properties (DKG network runs, plain-FVSS histories, DKG API sequences, decoder
        classes, verification classes, threshold-object sequences) are re-executed and any recovered panic is reported here
 THOROUGH  the same corpus under a harness built with -asan
"""
import json, os, sys
sys.path.insert(0, os.path.join(os.path.dirname(os.path.abspath(__file__)), '..', 'tools'))
import vlib
from dkg import tlc_cases

MISC = os.path.join(vlib.SPECS, 'misc')


def run_jobs_in_children(ck, vh, jobs, chunk=400, env=None):
    """bls-run on chunks; a dying child is bisected down to the job that kills it"""
    results = []
    died = []

    def run_chunk(js, tag):
        jp = os.path.join(vlib.subdir('scripts'), 'c09-%s.ndjson' % tag)
        op = os.path.join(vlib.subdir('results'), 'c09-%s.ndjson' % tag)
        with open(jp, 'w') as f:
            for j in js:
                f.write(json.dumps(j) + '\n')
        if os.path.exists(op):
            os.remove(op)
        p = vlib.run([vh, 'bls-run', '--in', jp, '--out', op], timeout=3600, env=env)
        if p.returncode == 0 and os.path.exists(op):
            rs = [json.loads(l) for l in open(op)]
            if len(rs) == len(js):
                return rs, None
        return None, p

    stack = [(jobs[i:i + chunk], 'c%d' % i) for i in range(0, len(jobs), chunk)]
    while stack:
        js, tag = stack.pop()
        rs, p = run_chunk(js, tag)
        if rs is not None:
            results += list(zip(js, rs))
            continue
        if len(js) == 1:
            died.append((js[0], p.returncode, p.stdout[-1500:]))
            continue
        mid = len(js) // 2
        stack.append((js[:mid], tag + 'a'))
        stack.append((js[mid:], tag + 'b'))
    return results, died


def collect(ck, results, died, family):
    for j, r in results:
        for v in r['violations']:
            if v['property'] == 'C09':
                pred, _, key = v['predicate'].partition('|')
                ck.violation('C09:%s:%s' % (pred, key or family), '%s: %s' % (pred, v['detail']), {'family': family, 'job': j})
    for j, rc, out in died:
        ck.violation('C09:ProcessDied:%s' % vlib.digest(j.get('case')), 'the process executing %s died (exit %s): %s' % (json.dumps(j)[:300], rc, out[-400:]),
                     {'family': family, 'job': j})


def other_family_jobs(tier, seed):
    """behaviours of the other properties, re-run for their panics only"""
    jobs = []
    bls = os.path.join(vlib.SPECS, 'bls')
    r = vlib.tlc(bls, 'Serialization', vlib.cfg({'InfinityLoopBound': 'all'}, invariants=['Emit']), name='c09ser')
    jobs += [{'kind': 'serial', 'seed': seed * 11 + i, 'case': c} for i, c in enumerate(tlc_cases(r.out))]
    r = vlib.tlc(bls, 'BLSVerify', vlib.cfg({'Keys': {'x1', 'x2', 'x3'}, 'Msgs': {'m1', 'm2'}, 'DropMembershipCheck': False}, invariants=['Emit']), name='c09ver')
    jobs += [{'kind': 'verify', 'seed': 0, 'case': dict(c, id='v%d' % i, seed=seed * 13 + i)} for i, c in enumerate(tlc_cases(r.out))]
    r = vlib.tlc(bls, 'SPoCK', vlib.cfg({'Keys': {'x1', 'x2', 'x3'}, 'Msgs': {'m1', 'm2'}, 'DropSecondMembership': False}, invariants=['Emit']), name='c09sp')
    jobs += [{'kind': 'spock', 'seed': seed * 17 + i, 'case': c} for i, c in enumerate(tlc_cases(r.out)) if i % 3 == seed % 3]
    jobs += [{'kind': 'aggverify-args', 'seed': seed, 'case': {}}, {'kind': 'batch-extra', 'seed': seed, 'case': {}},
             {'kind': 'serial-extra', 'seed': seed, 'case': {}}]
    return jobs


def run(prop, tier):
    ck = vlib.Check('C09', tier, 'fault_enumeration')
    seed = vlib.seed()
    res = vlib.tlc(MISC, 'APIMisuse', vlib.cfg({}, invariants=['WellFormed', 'Emit']).replace('CONSTANTS\n', ''), name='apimis', timeout=1200)
    if not res.ok:
        raise vlib.Undecided('APIMisuse: %s %s' % (res.violated, res.error))
    ck.cov['states'] = res.distinct
    cases = tlc_cases(res.out)
    if len(cases) < 5000:
        raise vlib.Undecided('APIMisuse enumeration produced %d cases' % len(cases))
    reps = 1 if tier == 'quick' else 4
    jobs = [{'kind': 'misuse', 'seed': vlib.jseed(seed, i, r), 'case': c} for r in range(reps) for i, c in enumerate(cases)]
    vh = vlib.build_vh()
    results, died = run_jobs_in_children(ck, vh, jobs)
    collect(ck, results, died, 'misuse')
    outcomes = {}
    for j, r in results:
        o = r.get('outcome') or ''
        o = o.split(':')[0]
        outcomes[o] = outcomes.get(o, 0) + 1
    for c in cases:
        ck.case(vlib.digest(c), c['expect'] != 'ok')
    oj = other_family_jobs(tier, seed)
    r2, d2 = run_jobs_in_children(ck, vh, oj)
    collect(ck, r2, d2, 'other-families')
    # DKG behaviours: network runs (grid), plain FVSS histories, API sequences -- executed by their own commands
    import dkg, dkgapi
    fv = vlib.tlc(dkg.FVSS_SPEC, 'FVSS', vlib.cfg({'MaxLen': 3, 'FixD3': True}, invariants=['Emit']), name='c09fvss')
    fcases = tlc_cases(fv.out)
    cp = os.path.join(vlib.subdir('scripts'), 'c09fvss.ndjson')
    with open(cp, 'w') as f:
        for k, c in enumerate(fcases):
            f.write(json.dumps(dict(c, id='f%d' % k, n=4, t=1, seed=seed * 19 + k)) + '\n')
    rp = os.path.join(vlib.subdir('results'), 'c09fvss.ndjson')
    vlib.run([vh, 'fvss-replay', '--in', cp, '--out', rp], check=True)
    nf = 0
    for line in open(rp):
        r = json.loads(line)
        nf += 1
        for v in r['violations']:
            if v['property'] == 'C09':
                ck.violation('C09:NoPanic:fvss', v['detail'], {'family': 'fvss', 'case': r['case']})
    nd = 0
    for proto, n, t, byz in [('qual', 3, 1, '0'), ('jf', 3, 1, '0'), ('qual', 5, 2, '0,1')]:
        out = os.path.join(vlib.subdir('results'), 'c09dkg-%s%d.ndjson' % (proto, n))
        vlib.run([vh, 'dkg-random', '--grid', '--stride', '11', '--proto', proto, '--n', str(n), '--t', str(t), '--byz', byz, '--count',
                  '600' if tier == 'quick' else '4000', '--seed', str(seed), '--out', out], check=True)
        for line in open(out):
            d = json.loads(line)
            nd += 1
            for v in d['result']['violations']:
                if v['property'] == 'C09':
                    ck.violation('C09:NoPanic:dkg', v['detail'], {'family': 'dkg', 'script': d['script']})
    ck.evaluations = len(results) + len(r2) + nf + nd
    ck.cov['outcomes'] = outcomes
    ck.cov['calls_in_table'] = len(cases)
    ck.cov['other_family_behaviours'] = len(r2) + nf + nd
    if tier == 'thorough':
        vha = vlib.build_vh(asan=True, name='vh-asan')
        ra, da = run_jobs_in_children(ck, vha, jobs[:len(cases)], env={'ASAN_OPTIONS': 'detect_leaks=0:halt_on_error=1'})
        collect(ck, ra, da, 'misuse-asan')
        ck.cov['asan_calls'] = len(ra)
    ck.sample(cases[0])
    ck.sample([c for c in cases if c['fn'] == 'DKGMessage'][17])
    ck.sample([c for c in cases if c['fn'] == 'BLSReconstructThresholdSignature'][5])
    ck.assumptions = ['argument classes as enumerated in APIMisuse.tla; inputs outside the class grid are not explored',
                      'documented exceptions (UintN(0), nil interfaces / callbacks, linear-memory sizes) are executed but not judged',
                      'C reads inside the capacity of a Go slice are invisible to recover() and to ASan']
    return ck.finish(rule='one case = one exported function with one combination of argument classes (or one DKG message at one phase); '
                          'non-trivial = anything but the all-valid call', exhaustive=True)


def replay(prop, path):
    d = json.load(open(path))
    ck = vlib.Check(prop, 'quick', 'fault_enumeration')
    vh = vlib.build_vh()
    rp = d['replay']
    if rp.get('family') in ('misuse', 'other-families', 'misuse-asan'):
        results, died = run_jobs_in_children(ck, vh, [rp['job']])
        collect(ck, results, died, rp['family'])
        for v in ck.violations:
            print('VIOLATION property=%s replay=%s' % (prop, path))
            print('  ' + v['what'][:400])
        return 1 if ck.violations else 0
    print('replay: re-run bin/check C09')
    return run(prop, 'quick')
