// Package thresh executes cases of specs/threshold (ThresholdMath, ThresholdSigSeq) on the real
// threshold-signature code and records concurrent histories for ThresholdSigLin (C06, C18).
package thresh

import (
	"bytes"
	"fmt"
	"math/big"
	"math/rand"

	crypto "github.com/onflow/crypto"
	"github.com/onflow/crypto/hash"
	"verifharness/ref"
)

type Violation struct {
	Property  string `json:"property"`
	Predicate string `json:"predicate"`
	Detail    string `json:"detail"`
}

// ---------------------------------------------------------------- key material

type Group struct {
	N, T   int
	Sks    []crypto.PrivateKey
	Pks    []crypto.PublicKey
	PK     crypto.PublicKey
	Msg    []byte
	Tag    string
	Shares []crypto.Signature // valid share of every signer
}

func NewGroup(n, t int, seed int64) (*Group, error) {
	rng := rand.New(rand.NewSource(seed))
	s := make([]byte, 32+rng.Intn(64))
	rng.Read(s)
	sks, pks, pk, err := crypto.BLSThresholdKeyGen(n, t, s)
	if err != nil {
		return nil, err
	}
	g := &Group{N: n, T: t, Sks: sks, Pks: pks, PK: pk, Tag: fmt.Sprintf("verif-thresh-%d", seed%7)}
	g.Msg = make([]byte, rng.Intn(100))
	rng.Read(g.Msg)
	h := crypto.NewExpandMsgXOFKMAC128(g.Tag)
	for i := 0; i < n; i++ {
		sig, err := sks[i].Sign(g.Msg, h)
		if err != nil {
			return nil, err
		}
		g.Shares = append(g.Shares, sig)
	}
	return g, nil
}

// RefReconstruct: Lagrange interpolation at 0 in E1 with the reference arithmetic.
// signers are 0-based participant indices; the polynomial argument of participant i is i+1.
func RefReconstruct(shares []crypto.Signature, signers []int) ([]byte, error) {
	acc := ref.G1Inf
	for i := range signers {
		p, err := ref.G1Decompress(shares[i])
		if err != nil {
			return nil, err
		}
		num, den := big.NewInt(1), big.NewInt(1)
		xi := big.NewInt(int64(signers[i] + 1))
		for j := range signers {
			if j == i {
				continue
			}
			xj := big.NewInt(int64(signers[j] + 1))
			num.Mod(num.Mul(num, xj), ref.R)
			den.Mod(den.Mul(den, new(big.Int).Sub(xj, xi)), ref.R)
		}
		l := num.Mul(num, new(big.Int).ModInverse(den, ref.R))
		l.Mod(l, ref.R)
		acc = acc.Add(p.Mul(l))
	}
	return acc.Compress(), nil
}

// Share of kind k offered for signer i (see ThresholdSig.tla)
func (g *Group) ShareOfKind(i int, k string, rng *rand.Rand) crypto.Signature {
	switch k {
	case "v":
		return g.Shares[i]
	case "i":
		if rng.Intn(2) == 0 {
			return g.Shares[(i+1+rng.Intn(g.N-1))%g.N] // another signer's valid share
		}
		p, _ := ref.G1Decompress(g.Shares[i])
		// s + delta in G1; delta of 62 random bits: small deltas at two signers can cancel in the interpolation (L_a.d_a + L_b.d_b = 0,
		// e.g. d_b = 2 d_a for n = 3), which makes the reconstruction the genuine group signature although both shares are wrong
		return p.Add(ref.G1Gen.Mul(big.NewInt(1 + rng.Int63n(1<<62)))).Compress()
	case "g":
		p, _ := ref.G1Decompress(g.Shares[i])
		// a curve point outside G1 whose G1 component is not the share either: s + delta + T.
		// (A pure s + T is a different matter: E1(Fp)[h1] has exponent x-1, which divides r-1, so a Lagrange
		// coefficient equal to -1 = r-1 annihilates ANY cofactor-torsion component and the reconstruction is the
		// genuine group signature; that case is kind "g3", judged only by the validity of the result.)
		return p.Add(ref.G1Gen.Mul(big.NewInt(1 + rng.Int63n(1<<62)))).Add(ref.TorsionE1(rng)).Compress()
	case "g3": // s + T, T of order 3: may or may not survive the interpolation, judged only by the validity of the result
		p, _ := ref.G1Decompress(g.Shares[i])
		return p.Add(ref.Order3E1(rng)).Compress()
	default: // "m"
		b := append([]byte(nil), g.Shares[i]...)
		switch rng.Intn(8) {
		case 5:
			return nil // no bytes at all: a literal nil
		case 6:
			return crypto.Signature{} // ... and an empty, non-nil one
		case 7:
			return b[:1]
		case 3:
			return b[:47] // one byte short
		case 4:
			return append(b, 0) // one byte long
		case 0:
			b[0] &= 0x7f // compression flag cleared
		case 1:
			for j := range b {
				b[j] = 0xff
			}
			b[0] = 0x9f // x >= p
		default:
			b[0] |= 0x40 // infinity flag with a non-zero x
		}
		return b
	}
}

// ---------------------------------------------------------------- C06 (a): reconstruction on TLC-enumerated index sequences

type MathCase struct {
	N    int    `json:"n"`
	Ind  []int  `json:"ind"` // polynomial arguments 1..254 in reconstruction order
	Seed int64  `json:"seed"`
	ID   string `json:"id"`
}

type MathResult struct {
	ID         string      `json:"id"`
	Violations []Violation `json:"violations"`
	Sig        string      `json:"sig"`
}

func RunMath(c MathCase) (res MathResult) {
	res.ID = c.ID
	res.Violations = []Violation{}
	add := func(pred, detail string) {
		res.Violations = append(res.Violations, Violation{"C06", pred, fmt.Sprintf("%s [n=%d ind=%v seed=%d]", detail, c.N, c.Ind, c.Seed)})
	}
	defer func() {
		if r := recover(); r != nil {
			res.Violations = append(res.Violations, Violation{"C09", "NoPanic", fmt.Sprintf("threshold reconstruction n=%d ind=%v: panic: %v", c.N, c.Ind, r)})
		}
	}()
	t := len(c.Ind) - 1
	n := c.N
	if n < 2 {
		n = 2
	}
	g, err := NewGroup(n, t, c.Seed)
	if err != nil {
		add("KeyGen", err.Error())
		return
	}
	rng := rand.New(rand.NewSource(c.Seed))
	// dealer output: every private share matches its public share
	for _, k := range c.Ind {
		if !g.Sks[k-1].PublicKey().Equals(g.Pks[k-1]) {
			add("PrivateMatchesPublicShare", fmt.Sprintf("signer %d", k-1))
		}
	}
	signers := make([]int, len(c.Ind))
	shares := make([]crypto.Signature, len(c.Ind))
	for i, k := range c.Ind {
		signers[i] = k - 1
		shares[i] = g.Shares[k-1]
	}
	h := crypto.NewExpandMsgXOFKMAC128(g.Tag)
	want, err := RefReconstruct(shares, signers)
	if err != nil {
		add("Reference", err.Error())
		return
	}
	// stateless API
	ts, err := crypto.BLSReconstructThresholdSignature(g.N, g.T, shares, signers)
	if err != nil {
		add("StatelessReconstruct", err.Error())
		return
	}
	if !bytes.Equal(ts, want) {
		add("UniqueGroupSignature", fmt.Sprintf("stateless reconstruction %x differs from the reference interpolation %x", []byte(ts), want))
	}
	ok, err := g.PK.Verify(ts, g.Msg, h)
	if err != nil || !ok {
		add("ValidUnderGroupKey", "stateless reconstruction does not verify under the group public key")
	}
	res.Sig = fmt.Sprintf("%x", []byte(ts)[:8])
	// extra shares beyond the first t+1 are ignored by the stateless API; any other signer set gives the same bytes
	if g.N > g.T+1 {
		var extraS []crypto.Signature
		var extraI []int
		used := map[int]bool{}
		for _, s := range signers {
			used[s] = true
		}
		for i := 0; i < g.N && len(extraI) < 3; i++ {
			if !used[i] {
				extraI = append(extraI, i)
				extraS = append(extraS, g.Shares[i])
			}
		}
		ts2, err := crypto.BLSReconstructThresholdSignature(g.N, g.T, append(append([]crypto.Signature{}, shares...), extraS...), append(append([]int{}, signers...), extraI...))
		if err != nil || !bytes.Equal(ts2, want) {
			add("ExtraSharesIgnored", fmt.Sprintf("with extra signers %v: err=%v", extraI, err))
		}
		// replace the last signer by an unused one: a different (t+1)-set, the same signature
		alt := append([]int{}, signers...)
		altS := append([]crypto.Signature{}, shares...)
		alt[len(alt)-1] = extraI[0]
		altS[len(altS)-1] = g.Shares[extraI[0]]
		ts3, err := crypto.BLSReconstructThresholdSignature(g.N, g.T, altS, alt)
		if err != nil || !bytes.Equal(ts3, want) {
			add("UniqueGroupSignature", fmt.Sprintf("signer set %v reconstructs a different signature (err=%v)", alt, err))
		}
	}
	// key sets that are NOT the images of one polynomial (a wrong group key; one public key share replaced by an unrelated key, its
	// signer signing with the unrelated private key): every share the object verifies is valid for the key it was given, yet the
	// interpolation is not the signature of the group key: ThresholdSignature() must report an error, never hand out a signature
	// that fails under the group key it was constructed with (C06)
	if len(signers) == g.T+1 && g.T+1 <= 12 {
		foreign, _ := crypto.GeneratePrivateKey(crypto.BLSBLS12381, append([]byte("verif-foreign-key-"), make([]byte, 32)...))
		for variant := 0; variant < 2; variant++ {
			gk := g.PK
			pks := append([]crypto.PublicKey(nil), g.Pks...)
			sh := append([]crypto.Signature(nil), shares...)
			if variant == 0 {
				gk = foreign.PublicKey()
			} else {
				pks[signers[0]] = foreign.PublicKey()
				sh[0], _ = foreign.Sign(g.Msg, h)
			}
			for _, trusted := range []bool{false, true} {
				in2, err := crypto.NewBLSThresholdSignatureInspector(gk, pks, g.T, g.Msg, g.Tag)
				if err != nil {
					add("Inspector", err.Error())
					break
				}
				for i := range signers {
					if trusted && i == len(signers)-1 {
						in2.TrustedAdd(signers[i], sh[i])
					} else if valid, _, err := in2.VerifyAndAdd(signers[i], sh[i]); err != nil || !valid {
						add("ValidShareVerifies", fmt.Sprintf("VerifyAndAdd(%d) = (%v, %v) for a share valid under the key of that signer", signers[i], valid, err))
					}
				}
				for rep := 0; rep < 2; rep++ {
					ts, err := in2.ThresholdSignature()
					if err == nil {
						if ok, _ := gk.Verify(ts, g.Msg, h); !ok {
							add("StatefulNeverBadSignature", fmt.Sprintf("key set that is not one polynomial (variant %d, last share trusted: %v): ThresholdSignature() call %d returned a signature that fails under the group key", variant, trusted, rep+1))
						}
					}
				}
			}
		}
	}
	// stateful API, shares added in the same order, alternately trusted / verified
	insp, err := crypto.NewBLSThresholdSignatureInspector(g.PK, g.Pks, g.T, g.Msg, g.Tag)
	if err != nil {
		add("Inspector", err.Error())
		return
	}
	for i := range signers {
		var enough bool
		if (int(c.Seed)+i)%2 == 0 {
			enough, err = insp.TrustedAdd(signers[i], shares[i])
		} else {
			var valid bool
			valid, enough, err = insp.VerifyAndAdd(signers[i], shares[i])
			if !valid {
				add("ValidShareVerifies", fmt.Sprintf("VerifyAndAdd(%d) = false for the valid share", signers[i]))
			}
		}
		if err != nil || enough != (i == len(signers)-1) {
			add("StatefulAdd", fmt.Sprintf("add #%d: enough=%v err=%v", i, enough, err))
		}
	}
	ts4, err := insp.ThresholdSignature()
	if err != nil || !bytes.Equal(ts4, want) {
		add("UniqueGroupSignature", fmt.Sprintf("stateful reconstruction differs (err=%v)", err))
	}
	// one invalid share at a seeded position: stateless gives a signature that does not verify, stateful gives an error
	if len(signers) >= 2 {
		pos := rng.Intn(len(signers))
		kind := []string{"i", "g", "m", "g3"}[rng.Intn(4)]
		bad := append([]crypto.Signature{}, shares...)
		bad[pos] = g.ShareOfKind(signers[pos], kind, rng)
		tsb, err := crypto.BLSReconstructThresholdSignature(g.N, g.T, bad, signers)
		if kind == "m" {
			if !crypto.IsInvalidSignatureError(err) {
				add("MalformedShareError", fmt.Sprintf("stateless, malformed share at %d: err=%v", pos, err))
			}
		} else if err == nil {
			// the only 48 bytes that verify under the group key are the group signature itself
			if ok, _ := g.PK.Verify(tsb, g.Msg, h); ok && !bytes.Equal(tsb, want) {
				add("UniqueGroupSignature", fmt.Sprintf("stateless, %s share at %d: a second string verifies under the group key", kind, pos))
			} else if ok && kind != "g3" {
				add("InvalidShareAccepted", fmt.Sprintf("stateless, %s share at %d reconstructs the group signature", kind, pos))
			}
		}
		insp2, _ := crypto.NewBLSThresholdSignatureInspector(g.PK, g.Pks, g.T, g.Msg, g.Tag)
		for i := range signers {
			insp2.TrustedAdd(signers[i], bad[i])
		}
		tsc, err := insp2.ThresholdSignature()
		if err == nil {
			if !bytes.Equal(tsc, want) {
				add("StatefulNeverBadSignature", fmt.Sprintf("stateful object returned %x, not the group signature, with a %s share at %d", []byte(tsc)[:8], kind, pos))
			} else if kind != "g3" {
				add("InvalidShareAccepted", fmt.Sprintf("stateful, %s share at %d reconstructs the group signature", kind, pos))
			}
		} else if kind == "m" && !crypto.IsInvalidSignatureError(err) || kind != "m" && !crypto.IsInvalidInputsError(err) {
			add("StatefulErrorClass", fmt.Sprintf("stateful, %s share at %d: err=%v", kind, pos, err))
		}
	}
	// fewer than t+1 shares; duplicate and out-of-range signers
	if _, err := crypto.BLSReconstructThresholdSignature(g.N, g.T, shares[:len(shares)-1], signers[:len(signers)-1]); !crypto.IsNotEnoughSharesError(err) {
		add("NotEnoughShares", fmt.Sprintf("err=%v", err))
	}
	dup := append([]int{}, signers...)
	dup[len(dup)-1] = dup[0]
	if _, err := crypto.BLSReconstructThresholdSignature(g.N, g.T, shares, dup); !crypto.IsDuplicatedSignerError(err) {
		add("DuplicateSigner", fmt.Sprintf("err=%v", err))
	}
	for _, badIdx := range []int{-1, g.N, 255, 256, 256 + signers[0], 65536 + signers[0], signers[0] - 256, 1 << 32, -(1 << 31)} {
		if badIdx >= 0 && badIdx < g.N {
			continue
		}
		oor := append([]int{}, signers...)
		oor[rng.Intn(len(oor))] = badIdx
		if _, err := crypto.BLSReconstructThresholdSignature(g.N, g.T, shares, oor); !crypto.IsInvalidInputsError(err) {
			add("OutOfRangeSigner", fmt.Sprintf("index %d: err=%v", badIdx, err))
		}
	}
	return
}

// ---------------------------------------------------------------- C06 (b) / C18: operation sequences on one object

type Op struct {
	Name string `json:"name"`
	I    int    `json:"i"`
	K    string `json:"k"`
}

type SeqStep struct {
	Op  Op     `json:"op"`
	Ret string `json:"ret"`
}

type SeqCase struct {
	ID   string    `json:"id"`
	N    int       `json:"n"`
	T    int       `json:"t"`
	Seed int64     `json:"seed"`
	Hist []SeqStep `json:"hist"`
}

type SeqResult struct {
	ID         string      `json:"id"`
	Rets       []string    `json:"rets"`
	Violations []Violation `json:"violations"`
}

func b2s(b bool) string {
	if b {
		return "true"
	}
	return "false"
}

// Object under test: inspector or participant
type Object interface {
	crypto.ThresholdSignatureInspector
}

// Apply performs one operation on the real object and returns its return class (see ThresholdSig.tla)
func Apply(g *Group, o Object, op Op, rng *rand.Rand, truth []byte) (ret string, sig []byte) {
	return applyOp(g, o, op, rng, truth, false)
}

// applyOp; scribble: the share is handed over in a private buffer that the caller overwrites right after the call (a reception
// buffer reused for the next message)
func applyOp(g *Group, o Object, op Op, rng *rand.Rand, truth []byte, scribble bool) (ret string, sig []byte) {
	share := func() crypto.Signature {
		sh := g.ShareOfKind(clampIdx(op.I, g.N), op.K, rng)
		if scribble && sh != nil {
			return append(crypto.Signature(nil), sh...)
		}
		return sh
	}
	wipe := func(b crypto.Signature) {
		if scribble && len(b) > 0 {
			// the caller receives the next message into the same buffer: another signer's (well-formed) share, or junk
			if next := g.Shares[(clampIdx(op.I, g.N)+1)%g.N]; len(next) == len(b) && rng.Intn(4) != 0 {
				copy(b, next)
				return
			}
			for i := range b {
				b[i] = 0xEE
			}
		}
	}
	switch op.Name {
	case "TrustedAdd":
		sh := share()
		en, err := o.TrustedAdd(op.I, sh)
		wipe(sh)
		return addErr(err, b2s(en)), nil
	case "VerifyAndAdd":
		sh := share()
		v, en, err := o.VerifyAndAdd(op.I, sh)
		wipe(sh)
		return addErr(err, b2s(v)+","+b2s(en)), nil
	case "HasShare":
		h, err := o.HasShare(op.I)
		return addErr(err, b2s(h)), nil
	case "EnoughShares":
		return b2s(o.EnoughShares()), nil
	case "VerifyShare":
		v, err := o.VerifyShare(op.I, g.ShareOfKind(clampIdx(op.I, g.N), op.K, rng))
		return addErr(err, b2s(v)), nil
	case "VerifyThresholdSignature":
		s := truth
		if op.K != "ts" {
			s = g.Shares[0]
		}
		v, err := o.VerifyThresholdSignature(s)
		return addErr(err, b2s(v)), nil
	case "ThresholdSignature":
		s, err := o.ThresholdSignature()
		switch {
		case err == nil:
			return "sig", s
		case crypto.IsNotEnoughSharesError(err):
			return "notEnough", nil
		case crypto.IsInvalidSignatureError(err):
			return "invalidSig", nil
		case crypto.IsInvalidInputsError(err):
			return "II", nil
		}
		return "other(" + err.Error() + ")", nil
	}
	return "unknown-op", nil
}

func clampIdx(i, n int) int {
	if i < 0 || i >= n {
		return 0
	}
	return i
}

func addErr(err error, ok string) string {
	switch {
	case err == nil:
		return ok
	case crypto.IsInvalidInputsError(err):
		return "II"
	case crypto.IsDuplicatedSignerError(err):
		return "dup"
	}
	return "other(" + err.Error() + ")"
}

// Truth: the unique group signature, by reference interpolation of the first t+1 valid shares
func (g *Group) Truth() []byte {
	signers := make([]int, g.T+1)
	for i := range signers {
		signers[i] = i
	}
	w, err := RefReconstruct(g.Shares[:g.T+1], signers)
	if err != nil {
		panic(err)
	}
	return w
}

func NewObject(g *Group, participant bool) (Object, error) {
	if participant {
		return crypto.NewBLSThresholdSignatureParticipant(g.PK, g.Pks, g.T, 0, g.Sks[0], g.Msg, g.Tag)
	}
	return crypto.NewBLSThresholdSignatureInspector(g.PK, g.Pks, g.T, g.Msg, g.Tag)
}

var groupCache = map[string]*Group{}

func RunSeq(c SeqCase, g *Group, truth []byte) (res SeqResult) {
	res.ID = c.ID
	res.Violations = []Violation{}
	defer func() {
		if r := recover(); r != nil {
			res.Violations = append(res.Violations, Violation{"C09", "NoPanic", fmt.Sprintf("threshold object, ops %v: panic: %v", c.Hist, r)})
		}
	}()
	rng := rand.New(rand.NewSource(c.Seed))
	o, err := NewObject(g, c.Seed%2 == 1)
	if err != nil {
		res.Violations = append(res.Violations, Violation{"C06", "Constructor", err.Error()})
		return
	}
	h := crypto.NewExpandMsgXOFKMAC128(g.Tag)
	for k, st := range c.Hist {
		ret, sig := Apply(g, o, st.Op, rng, truth)
		res.Rets = append(res.Rets, ret)
		if ret != st.Ret {
			res.Violations = append(res.Violations, Violation{"C06", "ReturnClass",
				fmt.Sprintf("n=%d t=%d op #%d %v returned %s, the sequential semantics prescribes %s (ops %v)", c.N, c.T, k, st.Op, ret, st.Ret, ops(c.Hist))})
		}
		if sig != nil {
			if ok, err := g.PK.Verify(sig, g.Msg, h); err != nil || !ok {
				res.Violations = append(res.Violations, Violation{"C06", "StatefulNeverBadSignature",
					fmt.Sprintf("ThresholdSignature() returned a signature invalid under the group key (ops %v)", ops(c.Hist))})
			} else if !bytes.Equal(sig, truth) {
				res.Violations = append(res.Violations, Violation{"C06", "UniqueGroupSignature",
					fmt.Sprintf("ThresholdSignature() differs from the reference interpolation (ops %v)", ops(c.Hist))})
			}
		}
	}
	// the same history on a fresh object whose caller reuses (overwrites) every share buffer right after handing it in.  What the
	// calls return is then not prescribed (the object may or may not have kept a private copy); what stays prescribed is that
	// ThresholdSignature() never returns anything but the valid group signature.
	o2, err := NewObject(g, c.Seed%2 == 1)
	if err != nil {
		return
	}
	rng2 := rand.New(rand.NewSource(c.Seed))
	for _, st := range c.Hist {
		_, sig := applyOp(g, o2, st.Op, rng2, truth, true)
		if sig != nil {
			if ok, err := g.PK.Verify(sig, g.Msg, h); err != nil || !ok || !bytes.Equal(sig, truth) {
				res.Violations = append(res.Violations, Violation{"C06", "StatefulNeverBadSignature",
					fmt.Sprintf("with share buffers overwritten by the caller after each add, ThresholdSignature() returned a signature that is not the valid group signature (ops %v)", ops(c.Hist))})
				break
			}
		}
	}
	return
}

func ops(h []SeqStep) []string {
	var out []string
	for _, s := range h {
		out = append(out, fmt.Sprintf("%s(%d,%s)", s.Op.Name, s.Op.I, s.Op.K))
	}
	return out
}

func newHasher(g *Group) hash.Hasher { return crypto.NewExpandMsgXOFKMAC128(g.Tag) }
