package thresh

import (
	"fmt"
	"math/rand"
	"runtime"
	"sync"
	"sync/atomic"
)

// HEvent is one line of a recorded concurrent history (validated by specs/threshold/ThresholdSigLin.tla)
type HEvent struct {
	E    string `json:"e"` // reset | inv | res
	G    int    `json:"g"`
	Name string `json:"name"`
	I    int    `json:"i"`
	K    string `json:"k"`
	Ret  string `json:"ret"`
	ID   string `json:"id"`
}

type History struct {
	ID         string      `json:"id"`
	Events     []HEvent    `json:"events"`
	Violations []Violation `json:"violations"`
	Sigs       int         `json:"sigs"`
}

type stamped struct {
	at uint64
	ev HEvent
}

// Record runs one concurrent history on a fresh object: `prefix` sequential adds, then G goroutines with their own
// operation lists, released together.  Invocation is stamped before the call and response after it with one global
// atomic counter, so every recorded interval contains the real one: any real linearisation remains admissible.
func Record(g *Group, truth []byte, id string, seed int64, goroutines, opsPer int, chaos func(), boundary bool) History {
	rng := rand.New(rand.NewSource(seed))
	h := History{ID: id, Violations: []Violation{}}
	o, err := NewObject(g, seed%2 == 1)
	if err != nil {
		h.Violations = append(h.Violations, Violation{"C18", "Constructor", err.Error()})
		return h
	}
	var clock uint64
	var mu sync.Mutex
	var log []stamped
	emit := func(at uint64, ev HEvent) {
		mu.Lock()
		log = append(log, stamped{at, ev})
		mu.Unlock()
	}
	hsh := newHasher(g)
	var sigMu sync.Mutex
	check := func(sig []byte) {
		if sig == nil {
			return
		}
		sigMu.Lock()
		defer sigMu.Unlock()
		h.Sigs++
		ok, err := g.PK.Verify(sig, g.Msg, hsh)
		if err != nil || !ok {
			h.Violations = append(h.Violations, Violation{"C18", "ValidStableSignature", "ThresholdSignature() returned a signature invalid under the group key"})
		} else if string(sig) != string(truth) {
			h.Violations = append(h.Violations, Violation{"C18", "ValidStableSignature", "ThresholdSignature() returned a signature different from the group signature"})
		}
	}
	do := func(gid int, op Op, r *rand.Rand) {
		at := atomic.AddUint64(&clock, 1)
		emit(at, HEvent{E: "inv", G: gid, Name: op.Name, I: op.I, K: op.K})
		var ret string
		var sig []byte
		func() {
			defer func() {
				if p := recover(); p != nil {
					ret = fmt.Sprintf("panic(%v)", p)
				}
			}()
			ret, sig = Apply(g, o, op, r, truth)
		}()
		at = atomic.AddUint64(&clock, 1)
		emit(at, HEvent{E: "res", G: gid, Ret: ret})
		check(sig)
	}
	randOp := func(r *rand.Rand) Op {
		idx := r.Intn(g.N)
		if r.Intn(12) == 0 {
			idx = []int{-1, g.N}[r.Intn(2)]
		}
		switch x := r.Intn(20); {
		case x < 6:
			return Op{"TrustedAdd", idx, []string{"v", "v", "v", "i", "m"}[r.Intn(5)]}
		case x < 12:
			return Op{"VerifyAndAdd", idx, []string{"v", "v", "v", "i", "g", "m"}[r.Intn(6)]}
		case x < 14:
			return Op{"HasShare", idx, "-"}
		case x < 16:
			return Op{"EnoughShares", 0, "-"}
		case x < 19:
			return Op{"ThresholdSignature", 0, "-"}
		default:
			return Op{"VerifyShare", clampIdx(idx, g.N), []string{"v", "i"}[r.Intn(2)]}
		}
	}
	// sequential prefix: bring the object near the t+1 boundary
	pre := rng.Intn(g.T + 1)
	if boundary {
		pre = rng.Intn(2) * rng.Intn(g.T+1) // mostly a fresh object
	}
	perm := rng.Perm(g.N)
	for k := 0; k < pre; k++ {
		do(0, Op{"TrustedAdd", perm[k], "v"}, rng)
	}
	var wg sync.WaitGroup
	start := make(chan struct{})
	if boundary {
		// exactly the adds that cross the t+1 boundary, one per goroutine, distinct signers, all valid: in every sequential
		// order the adds report enough = false until the (t+1)-th share is in, then true
		goroutines = g.T + 1 - pre + rng.Intn(3)
		if goroutines > g.N-pre {
			goroutines = g.N - pre
		}
		opsPer = 1
	}
	for gi := 1; gi <= goroutines; gi++ {
		wg.Add(1)
		r := rand.New(rand.NewSource(seed*131 + int64(gi)))
		var opsList []Op
		for k := 0; k < opsPer; k++ {
			opsList = append(opsList, randOp(r))
		}
		if boundary {
			name := "TrustedAdd"
			if r.Intn(3) == 0 {
				name = "VerifyAndAdd"
			}
			opsList = []Op{{name, perm[pre+gi-1], "v"}}
			if r.Intn(4) == 0 {
				opsList = append(opsList, Op{"EnoughShares", 0, "-"})
			}
		}
		go func(gid int, r *rand.Rand, opsList []Op) {
			defer wg.Done()
			<-start
			for _, op := range opsList {
				if chaos != nil {
					chaos()
				}
				do(gid, op, r)
			}
		}(gi, r, opsList)
	}
	close(start)
	wg.Wait()
	// final observations, sequential
	do(0, Op{"EnoughShares", 0, "-"}, rng)
	do(0, Op{"ThresholdSignature", 0, "-"}, rng)
	// order by stamp
	evs := make([]HEvent, len(log)+1)
	evs[0] = HEvent{E: "reset", ID: id}
	for _, s := range log {
		evs[s.at] = s.ev
	}
	h.Events = evs
	for _, e := range evs {
		if e.E == "res" && len(e.Ret) > 5 && e.Ret[:5] == "panic" {
			h.Violations = append(h.Violations, Violation{"C09", "NoPanic", "threshold object under concurrency: " + e.Ret})
		}
	}
	return h
}

func Yield() { runtime.Gosched() }
