// Package keyx executes the cases of specs/misc/ECDSAVerify.tla (C11) and specs/misc/KeyGen.tla (C12) on the real code
// against independent references: ECDSA verification equation and scalar multiplication in math/big (harness/ref),
// HKDF written from RFC 5869 over crypto/hmac, digests from the standard library.
package keyx

import (
	"bytes"
	"crypto/hmac"
	"crypto/sha256"
	"crypto/sha3"
	"crypto/sha512"
	"encoding/json"
	"fmt"
	"math/big"
	"math/rand"
	"sync"

	crypto "github.com/onflow/crypto"
	"github.com/onflow/crypto/hash"
	xsha3 "golang.org/x/crypto/sha3"
	"verifharness/hashx"
	"verifharness/ref"
)

type Violation struct {
	Property  string `json:"property"`
	Predicate string `json:"predicate"`
	Detail    string `json:"detail"`
}

type Result struct {
	ID         string      `json:"id"`
	Evals      int         `json:"evals"`
	Violations []Violation `json:"violations"`
}

// ---------------- C11

type ECDSACase struct {
	Curve  string `json:"curve"`
	Hasher string `json:"hasher"`
	Sig    string `json:"sig"`
	Expect string `json:"expect"`
	Format bool   `json:"format"`
}

func curveOf(name string) (crypto.SigningAlgorithm, *ref.Curve) {
	if name == "P-256" {
		return crypto.ECDSAP256, ref.P256
	}
	return crypto.ECDSASecp256k1, ref.Secp256k1
}

// hasher of the class and an independent digest function
func hasherOf(cls string, rng *rand.Rand) (hash.Hasher, func([]byte) []byte) {
	kmac := func(size int) (hash.Hasher, func([]byte) []byte) {
		key := make([]byte, 16+rng.Intn(40))
		rng.Read(key)
		cust := make([]byte, rng.Intn(20))
		rng.Read(cust)
		h, err := hash.NewKMAC_128(key, cust, size)
		if err != nil {
			panic(err)
		}
		return h, func(b []byte) []byte { return hashx.RefKMAC128(key, cust, b, size) }
	}
	switch cls {
	case "SHA2_256":
		return hash.NewSHA2_256(), func(b []byte) []byte { s := sha256.Sum256(b); return s[:] }
	case "SHA2_384":
		return hash.NewSHA2_384(), func(b []byte) []byte { s := sha512.Sum384(b); return s[:] }
	case "SHA3_256":
		return hash.NewSHA3_256(), func(b []byte) []byte { s := sha3.Sum256(b); return s[:] }
	case "SHA3_384":
		return hash.NewSHA3_384(), func(b []byte) []byte { s := sha3.Sum384(b); return s[:] }
	case "Keccak_256":
		return hash.NewKeccak_256(), func(b []byte) []byte { h := xsha3.NewLegacyKeccak256(); h.Write(b); return h.Sum(nil) }
	case "KMAC128-32":
		return kmac(32)
	case "KMAC128-64":
		return kmac(64)
	case "KMAC128-31":
		return kmac(31)
	case "KMAC128-16":
		return kmac(16)
	}
	return nil, nil
}

func verdictOf(ok bool, err error) string {
	switch {
	case err == nil && ok:
		return "true"
	case err == nil:
		return "false"
	case crypto.IsNilHasherError(err):
		return "err:nilHasher"
	case crypto.IsInvalidHasherSizeError(err):
		return "err:hasherSize"
	}
	return "err:other(" + err.Error() + ")"
}

func RunECDSA(raw json.RawMessage, seed int64) (res Result) {
	res.Violations = []Violation{}
	var c ECDSACase
	if err := json.Unmarshal(raw, &c); err != nil {
		panic(err)
	}
	defer func() {
		if r := recover(); r != nil {
			res.Violations = append(res.Violations, Violation{"C09", "NoPanic", fmt.Sprintf("ECDSA case %s: panic: %v", string(raw), r)})
		}
	}()
	rng := rand.New(rand.NewSource(seed))
	algo, cur := curveOf(c.Curve)
	add := func(pred, d string) {
		res.Violations = append(res.Violations, Violation{"C11", pred, fmt.Sprintf("%s [case %s seed %d]", d, string(raw), seed)})
	}
	// the key: generated, or decoded from a special scalar
	var sk crypto.PrivateKey
	var d *big.Int
	switch seed % 4 {
	case 0:
		d = big.NewInt(1)
	case 1:
		d = new(big.Int).Sub(cur.N, big.NewInt(1))
	default:
		b := make([]byte, 40)
		rng.Read(b)
		d = new(big.Int).Mod(new(big.Int).SetBytes(b), new(big.Int).Sub(cur.N, big.NewInt(1)))
		d.Add(d, big.NewInt(1))
	}
	db := make([]byte, 32)
	d.FillBytes(db)
	sk, err := crypto.DecodePrivateKey(algo, db)
	if err != nil {
		add("DecodePrivateKey", err.Error())
		return
	}
	pub := cur.Mul(cur.G(), d)
	msg := make([]byte, []int{0, 1, 31, 32, 100, 1000}[rng.Intn(6)])
	rng.Read(msg)
	h, refDigest := hasherOf(c.Hasher, rng)
	// a hasher that was used before and holds pending input is still a hasher of that algorithm: the message digest is
	// ComputeHash(message), independent of anything written earlier (whole blocks of every rate, and odd lengths)
	if h != nil && rng.Intn(2) == 0 {
		pend := make([]byte, []int{1, 64, 72, 104, 128, 135, 136, 137, 144, 168, 208, 272, 336}[rng.Intn(13)])
		rng.Read(pend)
		h.Write(pend)
	}
	signH, signRef := h, refDigest
	if c.Hasher == "nil" || c.Hasher == "KMAC128-31" || c.Hasher == "KMAC128-16" {
		signH, signRef = hasherOf("SHA3_256", rng) // the candidate is made with a good hasher, the verifier gets the bad one
		_ = signRef
		// Sign with the bad hasher must be refused with the same typed error
		_, err := sk.Sign(msg, h)
		want := c.Expect
		if got := verdictOf(false, err); got != want {
			add("SignHasherGuard", fmt.Sprintf("Sign with hasher %s: %v, expected %s", c.Hasher, err, want))
		}
	}
	sig, err := sk.Sign(msg, signH)
	res.Evals++
	if err != nil || len(sig) != 64 {
		add("Sign", fmt.Sprintf("Sign: %x %v", []byte(sig), err))
		return
	}
	e := func(digest []byte) *big.Int { return new(big.Int).SetBytes(digest[:32]) } // leftmost 256 bits
	r0, s0 := new(big.Int).SetBytes(sig[:32]), new(big.Int).SetBytes(sig[32:])
	// every signature returned by Sign satisfies the equation (independent verifier, independent digest)
	if !cur.ECDSAVerify(pub, e(signRef(msg)), r0, s0) {
		add("SignSatisfiesEquation", fmt.Sprintf("Sign returned %x which fails the reference verification", []byte(sig)))
	}
	enc := func(r, s *big.Int) []byte {
		out := make([]byte, 64)
		r.FillBytes(out[:32])
		s.FillBytes(out[32:])
		return out
	}
	max := new(big.Int).Sub(new(big.Int).Lsh(big.NewInt(1), 256), big.NewInt(1))
	cand := append([]byte(nil), sig...)
	vmsg := msg
	vpk := sk.PublicKey()
	vpub := pub
	switch c.Sig {
	case "signed":
	case "twin":
		cand = enc(r0, new(big.Int).Sub(cur.N, s0))
	case "r=0":
		cand = enc(big.NewInt(0), s0)
	case "s=0":
		cand = enc(r0, big.NewInt(0))
	case "r=n":
		cand = enc(cur.N, s0)
	case "s=n":
		cand = enc(r0, cur.N)
	case "r=n+1":
		cand = enc(new(big.Int).Add(cur.N, r0), s0) // congruent to r mod n but out of range (fits while r is small enough)
		if new(big.Int).Add(cur.N, r0).BitLen() > 256 {
			cand = enc(new(big.Int).Add(cur.N, big.NewInt(1)), s0)
		}
		// r + n only fits in 32 bytes when r is tiny: take a nonce point R with a tiny abscissa, any s, and RECOVER the public key
		// Q = r^-1 (s R - e G) under which (r, s) is a valid signature of this message; then (r + n, s) must not be
		if signRef != nil {
			e0 := e(signRef(msg))
			for x := int64(1 + rng.Intn(50)); x < 400; x++ {
				y, ok := cur.YFor(big.NewInt(x))
				if !ok {
					continue
				}
				if rng.Intn(2) == 1 {
					y = new(big.Int).Sub(cur.P, y)
				}
				R := ref.Pt{X: big.NewInt(x), Y: y}
				rr := big.NewInt(x)
				sb := make([]byte, 40)
				rng.Read(sb)
				ss := new(big.Int).Mod(new(big.Int).SetBytes(sb), new(big.Int).Sub(cur.N, big.NewInt(1)))
				ss.Add(ss, big.NewInt(1))
				Q := cur.Mul(cur.Add(cur.Mul(R, ss), cur.Neg(cur.Mul(cur.G(), e0))), new(big.Int).ModInverse(rr, cur.N))
				if Q.Inf || !cur.OnCurve(Q) {
					continue
				}
				if !cur.ECDSAVerify(Q, e0, rr, ss) {
					add("HarnessConstruction", "crafted tiny-r signature fails the reference equation")
					break
				}
				qb := make([]byte, 64)
				Q.X.FillBytes(qb[:32])
				Q.Y.FillBytes(qb[32:])
				qpk, err := crypto.DecodePublicKey(algo, qb)
				if err != nil {
					add("DecodePublicKey", fmt.Sprintf("recovered public key %x refused: %v", qb, err))
					break
				}
				if ok, err := qpk.Verify(enc(rr, ss), msg, signH); !ok || err != nil {
					add("VerifyExact", fmt.Sprintf("the valid signature (r=%v, s) is rejected under the recovered key (%v, %v)", rr, ok, err))
				}
				res.Evals++
				vpk, vpub = qpk, Q
				cand = enc(new(big.Int).Add(rr, cur.N), ss)
				if rng.Intn(3) == 0 { // both scalars congruent but out of range needs a tiny s as well: not reachable together; r alone
					cand = enc(new(big.Int).Add(rr, cur.N), new(big.Int).Sub(cur.N, ss))
				}
				break
			}
		}
	case "s=n+1":
		// s + n only fits in 32 bytes when s is tiny: craft a key for which a tiny s is a valid signature of this message:
		// pick k, r = (kG).x mod n, s small, d = (s*k - e) / r mod n; then (r, s) verifies under d and (r, s + n) must not
		if signRef != nil {
			e0 := e(signRef(msg))
			for try := 0; try < 20; try++ {
				kb := make([]byte, 40)
				rng.Read(kb)
				k := new(big.Int).Mod(new(big.Int).SetBytes(kb), cur.N)
				if k.Sign() == 0 {
					continue
				}
				R := cur.Mul(cur.G(), k)
				rr := new(big.Int).Mod(R.X, cur.N)
				if rr.Sign() == 0 {
					continue
				}
				ss := big.NewInt(int64(1 + rng.Intn(1000)))
				dd := new(big.Int).Mul(ss, k)
				dd.Sub(dd, e0)
				dd.Mul(dd, new(big.Int).ModInverse(rr, cur.N))
				dd.Mod(dd, cur.N)
				if dd.Sign() == 0 {
					continue
				}
				ddb := make([]byte, 32)
				dd.FillBytes(ddb)
				csk, err := crypto.DecodePrivateKey(algo, ddb)
				if err != nil {
					continue
				}
				// sanity of the construction: the tiny-s signature itself is valid, for the reference and for the library
				if !cur.ECDSAVerify(cur.Mul(cur.G(), dd), e0, rr, ss) {
					add("HarnessConstruction", "crafted tiny-s signature fails the reference equation")
					break
				}
				if ok, err := csk.PublicKey().Verify(enc(rr, ss), msg, signH); !ok || err != nil {
					add("VerifyExact", fmt.Sprintf("the valid signature (r, s=%v) is rejected (%v, %v)", ss, ok, err))
				}
				vpk, vpub = csk.PublicKey(), cur.Mul(cur.G(), dd)
				cand = enc(rr, new(big.Int).Add(ss, cur.N))
				break
			}
		}
		if len(cand) == 64 && bytes.Equal(cand, sig) {
			cand = enc(r0, new(big.Int).Add(cur.N, big.NewInt(1)))
		}
	case "r=max":
		cand = enc(max, s0)
	case "s=max":
		cand = enc(r0, max)
	case "swapped":
		cand = enc(s0, r0)
	case "otherkey":
		o, _ := crypto.GeneratePrivateKey(algo, append(make([]byte, 31), byte(1+rng.Intn(200))))
		vpk = o.PublicKey()
		ob := o.Encode()
		vpub = cur.Mul(cur.G(), new(big.Int).SetBytes(ob))
	case "othermsg":
		vmsg = append(append([]byte{}, msg...), 1)
	case "bitflip-r":
		cand[rng.Intn(32)] ^= 1 << uint(rng.Intn(8))
	case "bitflip-s":
		cand[32+rng.Intn(32)] ^= 1 << uint(rng.Intn(8))
	case "len0":
		cand = []byte{}
	case "len63":
		cand = cand[:63]
	case "len65":
		cand = append(cand, 0)
	case "len128":
		cand = append(cand, cand...)
	}
	got := verdictOf(vpk.Verify(cand, vmsg, h))
	res.Evals++
	if got != c.Expect {
		add("VerifyExact", fmt.Sprintf("Verify(%s signature %x) = %s, the specification gives %s", c.Sig, cand, got, c.Expect))
	}
	// the model's class verdict is itself cross-checked with the reference equation on the concrete values
	if refDigest != nil && len(cand) == 64 && (c.Expect == "true" || c.Expect == "false") {
		rr, ss := new(big.Int).SetBytes(cand[:32]), new(big.Int).SetBytes(cand[32:])
		if cur.ECDSAVerify(vpub, e(refDigest(vmsg)), rr, ss) != (got == "true") {
			add("VerifyExact", fmt.Sprintf("Verify(%x) = %s but the reference equation says %v", cand, got, got != "true"))
		}
	}
	fc, ferr := crypto.SignatureFormatCheck(algo, cand)
	res.Evals++
	if ferr != nil || fc != c.Format {
		add("SignatureFormatCheck", fmt.Sprintf("SignatureFormatCheck(%x) = (%v, %v), expected %v", cand, fc, ferr, c.Format))
	}
	if !fc && got == "true" {
		add("FormatCheckImplied", "SignatureFormatCheck is false but Verify is true")
	}
	return
}

// ---------------- C12

// HKDF (RFC 5869) over HMAC-SHA256
func hkdf(ikm, salt, info []byte, n int) []byte {
	if len(salt) == 0 {
		salt = make([]byte, 32)
	}
	ext := hmac.New(sha256.New, salt)
	ext.Write(ikm)
	prk := ext.Sum(nil)
	var out, t []byte
	for i := byte(1); len(out) < n; i++ {
		m := hmac.New(sha256.New, prk)
		m.Write(t)
		m.Write(info)
		m.Write([]byte{i})
		t = m.Sum(nil)
		out = append(out, t...)
	}
	return out[:n]
}

// RefBLSKeyGen: IETF BLS KeyGen (draft-irtf-cfrg-bls-signature): salt = SHA256("BLS-SIG-KEYGEN-SALT-"), IKM || 0, info = I2OSP(48, 2)
func RefBLSKeyGen(seed []byte) *big.Int {
	salt := sha256.Sum256([]byte("BLS-SIG-KEYGEN-SALT-"))
	s := salt[:]
	for {
		okm := hkdf(append(append([]byte{}, seed...), 0), s, []byte{0, 48}, 48)
		sk := new(big.Int).Mod(new(big.Int).SetBytes(okm), ref.R)
		if sk.Sign() != 0 {
			return sk
		}
		n := sha256.Sum256(s)
		s = n[:]
	}
}

// RefECDSAKeyGen: HKDF-SHA256(seed, salt = "", info = "") to 48 bytes, d = okm mod (n-1) + 1
func RefECDSAKeyGen(seed []byte, cur *ref.Curve) *big.Int {
	okm := hkdf(seed, nil, nil, 48)
	d := new(big.Int).Mod(new(big.Int).SetBytes(okm), new(big.Int).Sub(cur.N, big.NewInt(1)))
	return d.Add(d, big.NewInt(1))
}

// LeadingZeroSeeds: seeds (32 bytes, a counter in the first 8) whose PRESCRIBED scalar starts with `bits` zero bits, found with the
// reference derivation alone (no library call): generation must return exactly that key, however short its significant part is
func LeadingZeroSeeds(algoName string, bits uint, want int, limit uint64, seed int64) [][]byte {
	_, cur, _ := algoOf(algoName)
	bound := new(big.Int).Lsh(big.NewInt(1), 256-bits)
	var mu sync.Mutex
	var out [][]byte
	var wg sync.WaitGroup
	workers := 16
	for wk := 0; wk < workers; wk++ {
		wg.Add(1)
		go func(wk int) {
			defer wg.Done()
			sd := make([]byte, 32)
			for i := 8; i < 32; i++ {
				sd[i] = byte(seed>>uint(8*(i%8))) ^ byte(i*37)
			}
			for c := uint64(wk); c < limit; c += uint64(workers) {
				if c%4096 == uint64(wk) {
					mu.Lock()
					done := len(out) >= want
					mu.Unlock()
					if done {
						return
					}
				}
				for b := 0; b < 8; b++ {
					sd[b] = byte(c >> uint(8*b))
				}
				var d *big.Int
				if cur == nil {
					d = RefBLSKeyGen(sd)
				} else {
					d = RefECDSAKeyGen(sd, cur)
				}
				if d.Cmp(bound) < 0 {
					mu.Lock()
					out = append(out, append([]byte(nil), sd...))
					mu.Unlock()
				}
			}
		}(wk)
	}
	wg.Wait()
	return out
}

// RunLeadingZeros: key generation from seeds whose prescribed scalar has 8 / 16 (thorough: 24) leading zero bits
func RunLeadingZeros(seed int64, deep bool) (res Result) {
	res.Violations = []Violation{}
	defer func() {
		if r := recover(); r != nil {
			res.Violations = append(res.Violations, Violation{"C09", "NoPanic", fmt.Sprintf("key generation, leading-zero scalars: panic: %v", r)})
		}
	}()
	for _, an := range []string{"BLS", "P-256", "secp256k1"} {
		algo, cur, _ := algoOf(an)
		plans := []struct {
			bits  uint
			limit uint64
		}{{8, 1 << 14}, {16, 1 << 21}}
		if deep {
			plans = append(plans, struct {
				bits  uint
				limit uint64
			}{24, 1 << 28})
		}
		for _, pl := range plans {
			seeds := LeadingZeroSeeds(an, pl.bits, 2, pl.limit, seed)
			for _, sd := range seeds {
				var want *big.Int
				if cur == nil {
					want = RefBLSKeyGen(sd)
				} else {
					want = RefECDSAKeyGen(sd, cur)
				}
				wb := make([]byte, 32)
				want.FillBytes(wb)
				res.Evals++
				sk, err := crypto.GeneratePrivateKey(algo, append([]byte(nil), sd...))
				if err != nil || !bytes.Equal(sk.Encode(), wb) {
					got := []byte(nil)
					if sk != nil {
						got = sk.Encode()
					}
					res.Violations = append(res.Violations, Violation{"C12", "DocumentedDerivation",
						fmt.Sprintf("%s key from seed %x (prescribed scalar %x with %d leading zero bits): got %x, err %v", an, sd, wb, pl.bits, got, err)})
					continue
				}
				if pk := sk.PublicKey().Encode(); !bytes.Equal(pk, refPublicKey(an, cur, want)) {
					res.Violations = append(res.Violations, Violation{"C12", "PublicKeyIsScalarTimesGenerator", fmt.Sprintf("%s key with %d leading zero bits: public key %x", an, pl.bits, pk)})
				}
				d2, err := crypto.DecodePrivateKey(algo, wb)
				if err != nil || !d2.Equals(sk) {
					res.Violations = append(res.Violations, Violation{"C12", "Deterministic", fmt.Sprintf("%s key with %d leading zero bits does not round-trip through its 32-byte encoding (%v)", an, pl.bits, err)})
				}
			}
		}
	}
	return
}

type KeyGenCase struct {
	Job struct {
		Kind   string `json:"kind"`
		Algo   string `json:"algo"`
		Len    int    `json:"len"`
		Origin string `json:"origin"`
	} `json:"job"`
	Accept bool     `json:"accept"`
	Calls  []string `json:"calls"`
	// kind "pool" (specs/misc/KeyPool.tla): actions on a pool of BLS key objects and the formal scalar (coefficients of a, b) of each object
	Hist []struct {
		Op string `json:"op"`
		I  int    `json:"i"`
		S  []int  `json:"s"`
	} `json:"hist"`
	Vals [][]int64 `json:"vals"`
}

// runKeyPool executes one behaviour of KeyPool.tla on real key objects, then asks EVERY object for its public key:
// it must encode to (reference) scalar * generator, whatever was cached, decoded or aggregated on the way.
func runKeyPool(c KeyGenCase, rng *rand.Rand, res *Result, add func(pred, d string)) {
	sd := make([]byte, 32+rng.Intn(100))
	rng.Read(sd)
	ka, err := crypto.GeneratePrivateKey(crypto.BLSBLS12381, sd)
	if err != nil {
		add("Generate", err.Error())
		return
	}
	a := new(big.Int).SetBytes(ka.Encode())
	b := new(big.Int)
	for b.Sign() == 0 {
		x := make([]byte, 40)
		rng.Read(x)
		b.Mod(new(big.Int).SetBytes(x), ref.R)
	}
	if rng.Intn(3) == 0 { // a + b wraps around r by a small amount
		b.Sub(ref.R, a)
		b.Add(b, big.NewInt(int64(1+rng.Intn(1000))))
		b.Mod(b, ref.R)
	}
	decode := func(d *big.Int) crypto.PrivateKey {
		bb := make([]byte, 32)
		d.FillBytes(bb)
		k, err := crypto.DecodePrivateKey(crypto.BLSBLS12381, bb)
		if err != nil {
			panic(fmt.Sprintf("DecodePrivateKey(%x): %v", bb, err))
		}
		return k
	}
	pool := []crypto.PrivateKey{ka, decode(b)}
	firstPK := map[int]crypto.PublicKey{}
	for _, h := range c.Hist {
		switch h.Op {
		case "PK":
			pk := pool[h.I-1].PublicKey()
			if f, ok := firstPK[h.I-1]; ok && (!f.Equals(pk) || !pk.Equals(f)) {
				add("CachedConsistently", "repeated PublicKey() calls are not Equal")
			}
			firstPK[h.I-1] = pk
		case "PKAll":
			for i := range pool {
				pk := pool[i].PublicKey()
				if f, ok := firstPK[i]; ok && (!f.Equals(pk) || !pk.Equals(f)) {
					add("CachedConsistently", "repeated PublicKey() calls are not Equal")
				}
				firstPK[i] = pk
			}
		case "Redecode":
			pool = append(pool, decode(new(big.Int).SetBytes(pool[h.I-1].Encode())))
		case "Agg":
			var in []crypto.PrivateKey
			for _, i := range h.S {
				in = append(in, pool[i-1])
			}
			if rng.Intn(2) == 0 { // list order is immaterial
				for i, j := 0, len(in)-1; i < j; i, j = i+1, j-1 {
					in[i], in[j] = in[j], in[i]
				}
			}
			k, err := crypto.AggregateBLSPrivateKeys(in)
			if err != nil {
				add("Aggregate", err.Error())
				return
			}
			pool = append(pool, k)
		}
	}
	if len(pool) != len(c.Vals) {
		panic("harness: pool size differs from the model")
	}
	for i, k := range pool {
		d := new(big.Int).Mul(a, big.NewInt(c.Vals[i][0]))
		d.Add(d, new(big.Int).Mul(b, big.NewInt(c.Vals[i][1])))
		d.Mod(d, ref.R)
		if d.Sign() == 0 {
			continue // the zero key (only by a 2^-255 coincidence): not in the documented domain
		}
		want := refPublicKey("BLS", nil, d)
		res.Evals++
		pk := k.PublicKey()
		if !bytes.Equal(pk.Encode(), want) {
			add("PublicKeyIsScalarTimesGenerator", fmt.Sprintf("object %d of the pool (scalar %d*a + %d*b = %x) after %s: PublicKey() encodes to %x, scalar*G is %x",
				i+1, c.Vals[i][0], c.Vals[i][1], d.Bytes(), histString(c), pk.Encode(), want))
			return
		}
		if f, ok := firstPK[i]; ok && (!f.Equals(pk) || !pk.Equals(f)) {
			add("CachedConsistently", fmt.Sprintf("object %d: PublicKey() at the end is not Equal to the one returned earlier (%s)", i+1, histString(c)))
		}
		sb := make([]byte, 32)
		d.FillBytes(sb)
		if !bytes.Equal(k.Encode(), sb) {
			add("PublicKeyIsScalarTimesGenerator", fmt.Sprintf("object %d: private scalar encodes to %x, expected %x (%s)", i+1, k.Encode(), sb, histString(c)))
		}
	}
}

func histString(c KeyGenCase) string {
	s := ""
	for _, h := range c.Hist {
		if h.Op == "Agg" {
			s += fmt.Sprintf("Agg%v ", h.S)
		} else {
			s += fmt.Sprintf("%s(%d) ", h.Op, h.I)
		}
	}
	return s
}

func algoOf(name string) (crypto.SigningAlgorithm, *ref.Curve, *big.Int) {
	switch name {
	case "BLS":
		return crypto.BLSBLS12381, nil, ref.R
	case "P-256":
		return crypto.ECDSAP256, ref.P256, ref.P256.N
	}
	return crypto.ECDSASecp256k1, ref.Secp256k1, ref.Secp256k1.N
}

var g2Order string // "zcash" | "flow": coefficient order of the library's G2 encoding (finding D5 is judged by C05)

var refPKMemo sync.Map // scalar (hex) -> reference BLS public key bytes

func refPublicKey(algo string, cur *ref.Curve, d *big.Int) []byte {
	if cur == nil {
		if v, ok := refPKMemo.Load(d.Text(16)); ok {
			return v.([]byte)
		}
		out := refPublicKeyBLS(d)
		refPKMemo.Store(d.Text(16), out)
		return out
	}
	return refPublicKeyECDSA(cur, d)
}

func refPublicKeyECDSA(cur *ref.Curve, d *big.Int) []byte {
	p := cur.Mul(cur.G(), d)
	out := make([]byte, 64)
	p.X.FillBytes(out[:32])
	p.Y.FillBytes(out[32:])
	return out
}

func refPublicKeyBLS(d *big.Int) []byte {
	var cur *ref.Curve
	if cur == nil {
		if g2Order == "" {
			one, _ := crypto.DecodePrivateKey(crypto.BLSBLS12381, append(make([]byte, 31), 1))
			if bytes.Equal(one.PublicKey().Encode(), ref.G2Gen.Compress(true)) {
				g2Order = "zcash"
			} else {
				g2Order = "flow"
			}
		}
		return ref.G2Gen.Mul(d).Compress(g2Order == "zcash")
	}
	p := cur.Mul(cur.G(), d)
	out := make([]byte, 64)
	p.X.FillBytes(out[:32])
	p.Y.FillBytes(out[32:])
	return out
}

func RunKeyGen(raw json.RawMessage, seed int64) (res Result) {
	res.Violations = []Violation{}
	var c KeyGenCase
	if err := json.Unmarshal(raw, &c); err != nil {
		panic(err)
	}
	defer func() {
		if r := recover(); r != nil {
			res.Violations = append(res.Violations, Violation{"C09", "NoPanic", fmt.Sprintf("key generation case %s: panic: %v", string(raw), r)})
		}
	}()
	rng := rand.New(rand.NewSource(seed))
	algo, cur, order := algoOf(c.Job.Algo)
	add := func(pred, d string) {
		res.Violations = append(res.Violations, Violation{"C12", pred, fmt.Sprintf("%s [case %s seed %d]", d, string(raw), seed)})
	}
	if c.Job.Kind == "pool" {
		runKeyPool(c, rng, &res, add)
		return
	}
	if c.Job.Kind == "seed" {
		for rep := 0; rep < 2; rep++ {
			sd := make([]byte, c.Job.Len)
			rng.Read(sd)
			if rep == 1 {
				for i := range sd {
					sd[i] = 0 // the all-zero seed of that length
				}
			}
			// the seed is a window of a larger buffer (seeds stored back to back): nothing outside, and nothing inside, is written
			room := make([]byte, len(sd)+24)
			for i := range room {
				room[i] = 0xA7
			}
			copy(room[8:], sd)
			before := append([]byte(nil), room...)
			sk, err := crypto.GeneratePrivateKey(algo, room[8:8+len(sd)])
			res.Evals++
			if !bytes.Equal(room, before) {
				add("Deterministic", fmt.Sprintf("GeneratePrivateKey(%s, %d-byte seed) writes into the caller's buffer (seed bytes or the bytes next to them changed)", c.Job.Algo, c.Job.Len))
			}
			if (err == nil) != c.Accept {
				add("SeedLengthBounds", fmt.Sprintf("GeneratePrivateKey(%s, %d-byte seed): err=%v, accepted lengths are 32..256", c.Job.Algo, c.Job.Len, err))
				continue
			}
			if err != nil {
				if !crypto.IsInvalidInputsError(err) {
					add("SeedLengthBounds", fmt.Sprintf("rejection of a %d-byte seed is not an invalid-inputs error: %v", c.Job.Len, err))
				}
				continue
			}
			var want *big.Int
			if cur == nil {
				want = RefBLSKeyGen(sd)
			} else {
				want = RefECDSAKeyGen(sd, cur)
			}
			wb := make([]byte, 32)
			want.FillBytes(wb)
			if !bytes.Equal(sk.Encode(), wb) {
				add("DocumentedDerivation", fmt.Sprintf("%s key from a %d-byte seed is %x, the documented derivation gives %x", c.Job.Algo, c.Job.Len, sk.Encode(), wb))
			}
			if want.Sign() == 0 || want.Cmp(order) >= 0 {
				add("InRange", "reference derivation out of range")
			}
			sk2, err2 := crypto.GeneratePrivateKey(algo, sd)
			if err2 != nil || !sk2.Equals(sk) || !bytes.Equal(sk2.Encode(), sk.Encode()) {
				add("Deterministic", "two calls with the same seed differ")
			}
			if pk := sk.PublicKey().Encode(); !bytes.Equal(pk, refPublicKey(c.Job.Algo, cur, want)) {
				add("PublicKeyIsScalarTimesGenerator", fmt.Sprintf("%s generated key: public key %x, reference %x", c.Job.Algo, pk, refPublicKey(c.Job.Algo, cur, want)))
			}
		}
		return
	}
	// life cycle
	var d *big.Int
	var sk crypto.PrivateKey
	decode := func(d *big.Int) crypto.PrivateKey {
		b := make([]byte, 32)
		d.FillBytes(b)
		k, err := crypto.DecodePrivateKey(algo, b)
		if err != nil {
			panic(fmt.Sprintf("DecodePrivateKey(%x): %v", b, err))
		}
		return k
	}
	switch c.Job.Origin {
	case "generated":
		sd := make([]byte, 32+rng.Intn(225))
		rng.Read(sd)
		var err error
		sk, err = crypto.GeneratePrivateKey(algo, sd)
		if err != nil {
			add("Generate", err.Error())
			return
		}
		d = new(big.Int).SetBytes(sk.Encode())
	case "decoded:1":
		d = big.NewInt(1)
		sk = decode(d)
	case "decoded:ord-1":
		d = new(big.Int).Sub(order, big.NewInt(1))
		sk = decode(d)
	case "decoded:small":
		d = big.NewInt(int64(2 + rng.Intn(1<<20)))
		sk = decode(d)
	case "decoded:leading-zero": // the top 1..3 bytes of the scalar are zero
		b := make([]byte, 32)
		rng.Read(b)
		for i := 0; i <= rng.Intn(3); i++ {
			b[i] = 0
		}
		d = new(big.Int).SetBytes(b)
		if d.Sign() == 0 {
			d = big.NewInt(5)
		}
		sk = decode(d)
	case "aggregated":
		a, b := big.NewInt(0), big.NewInt(0)
		for a.Sign() == 0 || b.Sign() == 0 {
			x := make([]byte, 40)
			rng.Read(x)
			a.Mod(new(big.Int).SetBytes(x), ref.R)
			rng.Read(x)
			b.Mod(new(big.Int).SetBytes(x), ref.R)
		}
		if seed%3 == 0 { // the sum wraps around r
			a = new(big.Int).Sub(ref.R, big.NewInt(int64(1+rng.Intn(1000))))
			b = big.NewInt(int64(2000 + rng.Intn(1000)))
		}
		var err error
		sk, err = crypto.AggregateBLSPrivateKeys([]crypto.PrivateKey{decode(a), decode(b)})
		if err != nil {
			add("Aggregate", err.Error())
			return
		}
		d = new(big.Int).Mod(new(big.Int).Add(a, b), ref.R)
	}
	want := refPublicKey(c.Job.Algo, cur, d)
	var first crypto.PublicKey
	for _, call := range c.Calls {
		switch call {
		case "PublicKey":
			pk := sk.PublicKey()
			res.Evals++
			if !bytes.Equal(pk.Encode(), want) {
				add("PublicKeyIsScalarTimesGenerator", fmt.Sprintf("%s key of origin %s (scalar %x): PublicKey() encodes to %x, scalar*G is %x", c.Job.Algo, c.Job.Origin, d.Bytes(), pk.Encode(), want))
				return
			}
			if first == nil {
				first = pk
			} else if !pk.Equals(first) || !first.Equals(pk) {
				add("CachedConsistently", "repeated PublicKey() calls are not Equal")
			}
		case "Redecode":
			sk = decode(new(big.Int).SetBytes(sk.Encode()))
		}
	}
	return
}

// RunStructuredScalars: private keys DECODED from (and, for BLS, aggregated to) scalars with structure in their machine words - a
// power of two, a multiple of 2^64 / 2^128 / 2^192, one word zero or all ones at each position, only one word set - must have the
// public key scalar * generator like any other (C12: "for every scalar in range").
func RunStructuredScalars(seed int64) (res Result) {
	res.Violations = []Violation{}
	defer func() {
		if r := recover(); r != nil {
			res.Violations = append(res.Violations, Violation{"C09", "NoPanic", fmt.Sprintf("structured scalars: panic: %v", r)})
		}
	}()
	rng := rand.New(rand.NewSource(seed))
	one := big.NewInt(1)
	word := new(big.Int).Sub(new(big.Int).Lsh(one, 64), one)
	for _, an := range []string{"BLS", "P-256", "secp256k1"} {
		algo, cur, order := algoOf(an)
		var scalars []*big.Int
		put := func(x *big.Int) {
			x = new(big.Int).Mod(x, order)
			if x.Sign() != 0 {
				scalars = append(scalars, x)
			}
		}
		rnd := func() *big.Int {
			b := make([]byte, 40)
			rng.Read(b)
			return new(big.Int).Mod(new(big.Int).SetBytes(b), order)
		}
		for k := uint(1); k < 4; k++ {
			put(new(big.Int).Lsh(one, 64*k))                                 // 2^64k
			put(new(big.Int).Lsh(big.NewInt(int64(2+rng.Intn(1000))), 64*k)) // small multiple of 2^64k
			put(new(big.Int).Lsh(new(big.Int).Rsh(rnd(), 64*k), 64*k))       // random with the k low words zero
			put(new(big.Int).Sub(new(big.Int).Lsh(one, 64*k), one))          // k low words all ones
			put(new(big.Int).AndNot(rnd(), new(big.Int).Lsh(word, 64*k)))    // random with word k zero
			put(new(big.Int).Or(rnd(), new(big.Int).Lsh(word, 64*k)))        // random with word k all ones
		}
		put(new(big.Int).AndNot(rnd(), word)) // low word zero
		put(new(big.Int).Lsh(one, 32))
		put(new(big.Int).Lsh(one, 255-uint(rng.Intn(3))))
		for _, s := range scalars {
			sb := make([]byte, 32)
			s.FillBytes(sb)
			res.Evals++
			sk, err := crypto.DecodePrivateKey(algo, sb)
			if err != nil {
				res.Violations = append(res.Violations, Violation{"C12", "DecodeInRange", fmt.Sprintf("%s scalar %x refused: %v", an, sb, err)})
				continue
			}
			if pk := sk.PublicKey().Encode(); !bytes.Equal(pk, refPublicKey(an, cur, s)) {
				res.Violations = append(res.Violations, Violation{"C12", "PublicKeyIsScalarTimesGenerator", fmt.Sprintf("%s private key %x (structured machine words): public key %x is not scalar * generator", an, sb, pk)})
			}
			if cur == nil && len(res.Violations) == 0 && rng.Intn(3) == 0 {
				// the same scalar reached by aggregation: (s - a) + a with a random
				a := rnd()
				b := new(big.Int).Mod(new(big.Int).Sub(s, a), order)
				if a.Sign() == 0 || b.Sign() == 0 {
					continue
				}
				ab, bb := make([]byte, 32), make([]byte, 32)
				a.FillBytes(ab)
				b.FillBytes(bb)
				ka, _ := crypto.DecodePrivateKey(algo, ab)
				kb, _ := crypto.DecodePrivateKey(algo, bb)
				agg, err := crypto.AggregateBLSPrivateKeys([]crypto.PrivateKey{ka, kb})
				res.Evals++
				if err != nil || !bytes.Equal(agg.Encode(), sb) {
					res.Violations = append(res.Violations, Violation{"C12", "Deterministic", fmt.Sprintf("aggregate of two keys summing to %x: %v", sb, err)})
				} else if pk := agg.PublicKey().Encode(); !bytes.Equal(pk, refPublicKey(an, cur, s)) {
					res.Violations = append(res.Violations, Violation{"C12", "PublicKeyIsScalarTimesGenerator", fmt.Sprintf("aggregated BLS private key %x (structured machine words): public key %x is not scalar * generator", sb, pk)})
				}
			}
		}
	}
	return
}

// RunKeyGenAfterNoise: key generation is a function of the seed alone, whatever the process did before: between two derivations of
// the same keys a battery of unrelated calls is made (format checks of signatures with tiny, huge and boundary scalars, decoding of
// rejected and accepted strings, verification of junk) - nothing of it may leak into GeneratePrivateKey / DecodePrivateKey.
func RunKeyGenAfterNoise(seed int64) (res Result) {
	res.Violations = []Violation{}
	defer func() {
		if r := recover(); r != nil {
			res.Violations = append(res.Violations, Violation{"C09", "NoPanic", fmt.Sprintf("key generation after unrelated calls: panic: %v", r)})
		}
	}()
	rng := rand.New(rand.NewSource(seed))
	one := big.NewInt(1)
	for _, an := range []string{"BLS", "P-256", "secp256k1"} {
		algo, cur, order := algoOf(an)
		sd := make([]byte, 32+rng.Intn(40))
		rng.Read(sd)
		var want *big.Int
		if cur == nil {
			want = RefBLSKeyGen(sd)
		} else {
			want = RefECDSAKeyGen(sd, cur)
		}
		wb := make([]byte, 32)
		want.FillBytes(wb)
		check := func(when string) {
			res.Evals += 3
			sk, err := crypto.GeneratePrivateKey(algo, append([]byte(nil), sd...))
			if err != nil || !bytes.Equal(sk.Encode(), wb) {
				res.Violations = append(res.Violations, Violation{"C12", "DocumentedDerivation", fmt.Sprintf("%s key from seed %x %s: %v, the documented derivation gives %x", an, sd, when, err, wb)})
				return
			}
			if pk := sk.PublicKey().Encode(); !bytes.Equal(pk, refPublicKey(an, cur, want)) {
				res.Violations = append(res.Violations, Violation{"C12", "PublicKeyIsScalarTimesGenerator", fmt.Sprintf("%s key from seed %x %s: public key %x", an, sd, when, pk)})
			}
			ob := make([]byte, 32)
			order.FillBytes(ob)
			if _, err := crypto.DecodePrivateKey(algo, ob); err == nil {
				res.Violations = append(res.Violations, Violation{"C12", "DecodeInRange", fmt.Sprintf("%s: the group order decodes as a private key %s", an, when)})
			}
			om := make([]byte, 32)
			new(big.Int).Sub(order, one).FillBytes(om)
			if _, err := crypto.DecodePrivateKey(algo, om); err != nil {
				res.Violations = append(res.Violations, Violation{"C12", "DecodeInRange", fmt.Sprintf("%s: order - 1 is refused as a private key %s: %v", an, when, err)})
			}
		}
		check("at first")
		// the battery
		sigLen := 64
		if cur == nil {
			sigLen = 48
		}
		var vals []*big.Int
		for _, k := range []uint{0, 1, 8, 32, 63, 64, 127, 128, 129, 191, 192, 255} {
			vals = append(vals, new(big.Int).Lsh(one, k), new(big.Int).Sub(new(big.Int).Lsh(one, k), one))
		}
		vals = append(vals, new(big.Int).Sub(order, one), new(big.Int).Set(order), new(big.Int).Add(order, one), big.NewInt(0))
		sk0, _ := crypto.GeneratePrivateKey(algo, make([]byte, 48))
		for _, r := range vals {
			for _, s := range []*big.Int{one, r, new(big.Int).Sub(order, one)} {
				sig := make([]byte, sigLen)
				if cur != nil {
					new(big.Int).Mod(r, new(big.Int).Lsh(one, 256)).FillBytes(sig[:32])
					new(big.Int).Mod(s, new(big.Int).Lsh(one, 256)).FillBytes(sig[32:])
				} else {
					new(big.Int).Mod(r, new(big.Int).Lsh(one, 256)).FillBytes(sig[16:])
					sig[0] |= 0x80
				}
				_, _ = crypto.SignatureFormatCheck(algo, sig)
				if cur != nil {
					_, _ = sk0.PublicKey().Verify(sig, []byte("noise"), hash.NewSHA3_256())
				}
				res.Evals++
			}
		}
		junk := make([]byte, 200)
		rng.Read(junk)
		for _, l := range []int{0, 1, 31, 32, 33, 48, 64, 65, 96, 97, 192} {
			_, _ = crypto.DecodePrivateKey(algo, junk[:l])
			_, _ = crypto.DecodePublicKey(algo, junk[:l])
			_, _ = crypto.DecodePublicKeyCompressed(algo, junk[:l])
		}
		_, _ = crypto.DecodePublicKey(algo, sk0.PublicKey().Encode())
		check("after a battery of unrelated calls (format checks with tiny and boundary scalars, decoding, verification of junk)")
	}
	return
}
