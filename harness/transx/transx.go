// Package transx prints a deterministic transcript of operations over seeded inputs (C20): one line per result,
// "section|label|hex-or-verdict".  The same program is built in every configuration; transcripts must be identical.
package transx

import (
	"bufio"
	"crypto/sha256"
	"encoding/hex"
	"fmt"
	"io"
	"math/big"
	"math/rand"

	crypto "github.com/onflow/crypto"
	"github.com/onflow/crypto/hash"
	"github.com/onflow/crypto/random"
	"verifharness/ref"
)

type proc struct {
	me  int
	out *[]string
}

func (p proc) PrivateSend(d int, b []byte) {
	*p.out = append(*p.out, fmt.Sprintf("priv %d->%d %x", p.me, d, b))
}
func (p proc) Broadcast(b []byte) { *p.out = append(*p.out, fmt.Sprintf("bcast %d %x", p.me, b)) }
func (p proc) Disqualify(i int, _ string) {
	*p.out = append(*p.out, fmt.Sprintf("disq %d by %d", i, p.me))
}
func (p proc) FlagMisbehavior(i int, _ string) {
	*p.out = append(*p.out, fmt.Sprintf("flag %d by %d", i, p.me))
}

func Write(w io.Writer, seed int64, bls bool) {
	bw := bufio.NewWriter(w)
	defer bw.Flush()
	line := func(section, label string, v any) {
		switch x := v.(type) {
		case []byte:
			fmt.Fprintf(bw, "%s|%s|%s\n", section, label, hex.EncodeToString(x))
		default:
			fmt.Fprintf(bw, "%s|%s|%v\n", section, label, x)
		}
	}
	rng := rand.New(rand.NewSource(seed))
	rb := func(n int) []byte { b := make([]byte, n); rng.Read(b); return b }

	// ---- hashing
	data := rb(1200)
	hashers := map[string]func() hash.Hasher{"SHA2_256": hash.NewSHA2_256, "SHA2_384": hash.NewSHA2_384, "SHA3_256": hash.NewSHA3_256,
		"SHA3_384": hash.NewSHA3_384, "Keccak_256": hash.NewKeccak_256}
	for _, name := range []string{"SHA2_256", "SHA2_384", "SHA3_256", "SHA3_384", "Keccak_256"} {
		for _, n := range []int{0, 1, 55, 56, 64, 103, 104, 105, 135, 136, 137, 208, 272, 273, 1000, 1200} {
			h := hashers[name]()
			line("hash", fmt.Sprintf("%s/%d", name, n), []byte(h.ComputeHash(data[:n])))
			h.Reset()
			h.Write(data[:n/3])
			h.Write(data[n/3 : n])
			line("hash", fmt.Sprintf("%s/%d/split", name, n), []byte(h.SumHash()))
		}
		// the same bytes at misaligned addresses (word-wise absorption of unaligned input), on a fresh and on a reused object
		h := hashers[name]()
		for _, off := range []int{1, 3, 5, 7} {
			for _, n := range []int{7, 104, 136, 137, 280, 1000} {
				line("hash", fmt.Sprintf("%s/%d/misaligned%d", name, n, off), []byte(hashers[name]().ComputeHash(data[off:off+n])))
				line("hash", fmt.Sprintf("%s/%d/misaligned%d/reused", name, n, off), []byte(h.ComputeHash(data[off:off+n])))
			}
		}
	}
	var o32 [32]byte
	hash.ComputeSHA3_256(&o32, data[:300])
	line("hash", "ComputeSHA3_256", o32[:])
	hash.ComputeSHA2_256(&o32, data[:300])
	line("hash", "ComputeSHA2_256", o32[:])
	for _, kl := range []int{16, 32, 163, 164, 331} {
		for _, ol := range []int{0, 32, 128, 500} {
			k, err := hash.NewKMAC_128(data[:kl], data[kl:kl+7], ol)
			if err != nil {
				line("kmac", fmt.Sprintf("%d/%d", kl, ol), "error")
				continue
			}
			line("kmac", fmt.Sprintf("%d/%d", kl, ol), []byte(k.ComputeHash(data[:200])))
			k.Write(data[:77])
			k.Write(data[77:200])
			line("kmac", fmt.Sprintf("%d/%d/split", kl, ol), []byte(k.SumHash()))
		}
	}
	// ---- PRG and samplers
	g, _ := random.NewChacha20PRG(rb(32), []byte("verif"))
	for _, n := range []int{0, 1, 63, 64, 65, 128, 200, 1000} {
		b := make([]byte, n)
		g.Read(b)
		line("prg", fmt.Sprintf("read/%d", n), b)
	}
	st := g.Store()
	line("prg", "store", st)
	g2, _ := random.RestoreChacha20PRG(st)
	for _, n := range []uint64{1, 2, 3, 255, 256, 257, 65535, 65536, 65537, 1 << 40, ^uint64(0)} {
		line("prg", fmt.Sprintf("uintn/%d", n), fmt.Sprint(g.UintN(n), g2.UintN(n)))
	}
	p, _ := g.Permutation(30)
	line("prg", "permutation", fmt.Sprint(p))
	sp, _ := g.SubPermutation(50, 10)
	line("prg", "subpermutation", fmt.Sprint(sp))
	arr := make([]int, 12)
	for i := range arr {
		arr[i] = i
	}
	g.Shuffle(12, func(i, j int) { arr[i], arr[j] = arr[j], arr[i] })
	line("prg", "shuffle", fmt.Sprint(arr))
	g.Samples(12, 5, func(i, j int) { arr[i], arr[j] = arr[j], arr[i] })
	line("prg", "samples", fmt.Sprint(arr))
	// ---- ECDSA: key generation, decoding, verification verdicts
	for _, a := range []crypto.SigningAlgorithm{crypto.ECDSAP256, crypto.ECDSASecp256k1} {
		for _, sl := range []int{32, 33, 64, 256} {
			sk, err := crypto.GeneratePrivateKey(a, rb(sl))
			if err != nil {
				line("ecdsa", fmt.Sprintf("%s/gen/%d", a, sl), "error")
				continue
			}
			line("ecdsa", fmt.Sprintf("%s/gen/%d/sk", a, sl), sk.Encode())
			line("ecdsa", fmt.Sprintf("%s/gen/%d/pk", a, sl), sk.PublicKey().Encode())
			line("ecdsa", fmt.Sprintf("%s/gen/%d/pkc", a, sl), sk.PublicKey().EncodeCompressed())
			msg := rb(50)
			h := hash.NewSHA3_256()
			sig, _ := sk.Sign(msg, h)
			ok, _ := sk.PublicKey().Verify(sig, msg, h)
			bad := append([]byte(nil), sig...)
			bad[7] ^= 4
			nok, _ := sk.PublicKey().Verify(bad, msg, h)
			fc, _ := crypto.SignatureFormatCheck(a, bad)
			line("ecdsa", fmt.Sprintf("%s/verify/%d", a, sl), fmt.Sprint(ok, nok, fc))
		}
		_, e1 := crypto.DecodePrivateKey(a, make([]byte, 32))
		_, e2 := crypto.DecodePublicKey(a, make([]byte, 64))
		_, e3 := crypto.GeneratePrivateKey(a, rb(31))
		line("ecdsa", fmt.Sprintf("%s/rejections", a), fmt.Sprint(e1 != nil, e2 != nil, e3 != nil))
	}
	if !bls {
		return
	}
	// ---- BLS: key generation, signing, verification verdicts, aggregation, PoP, SPoCK
	var sks []crypto.PrivateKey
	for _, sl := range []int{32, 48, 256} {
		sk, _ := crypto.GeneratePrivateKey(crypto.BLSBLS12381, rb(sl))
		sks = append(sks, sk)
		line("bls", fmt.Sprintf("gen/%d/sk", sl), sk.Encode())
		line("bls", fmt.Sprintf("gen/%d/pk", sl), sk.PublicKey().Encode())
	}
	for _, sc := range []*big.Int{big.NewInt(1), new(big.Int).Sub(ref.R, big.NewInt(1)), big.NewInt(0x1234567)} {
		b := make([]byte, 32)
		sc.FillBytes(b)
		sk, _ := crypto.DecodePrivateKey(crypto.BLSBLS12381, b)
		sks = append(sks, sk)
		line("bls", fmt.Sprintf("decoded/%x/pk", sc.Bytes()), sk.PublicKey().Encode())
	}
	var sigs []crypto.Signature
	var pks []crypto.PublicKey
	msg := rb(100)
	for i, tag := range []string{"", "verif", "a much longer application tag ..........................................", "t", "u", "v"} {
		h := crypto.NewExpandMsgXOFKMAC128(tag)
		sig, _ := sks[i].Sign(msg, h)
		line("bls", fmt.Sprintf("sign/%d", i), []byte(sig))
		ok, _ := sks[i].PublicKey().Verify(sig, msg, h)
		okOtherTag, _ := sks[i].PublicKey().Verify(sig, msg, crypto.NewExpandMsgXOFKMAC128(tag+"x"))
		pt, _ := ref.G1Decompress(sig)
		t3 := ref.Order3E1(rand.New(rand.NewSource(seed + int64(i))))
		okT, _ := sks[i].PublicKey().Verify(pt.Add(t3).Compress(), msg, h)
		okNeg, _ := sks[i].PublicKey().Verify(pt.Neg().Compress(), msg, h)
		line("bls", fmt.Sprintf("verify/%d", i), fmt.Sprint(ok, okOtherTag, okT, okNeg))
		hh := crypto.NewExpandMsgXOFKMAC128("common")
		s2, _ := sks[i].Sign(msg, hh)
		sigs = append(sigs, s2)
		pks = append(pks, sks[i].PublicKey())
	}
	hh := crypto.NewExpandMsgXOFKMAC128("common")
	agg, _ := crypto.AggregateBLSSignatures(sigs)
	line("bls", "aggsig", []byte(agg))
	apk, _ := crypto.AggregateBLSPublicKeys(pks)
	line("bls", "aggpk", apk.Encode())
	ask, _ := crypto.AggregateBLSPrivateKeys(sks)
	line("bls", "aggsk", ask.Encode())
	ok, _ := crypto.VerifyBLSSignatureOneMessage(pks, agg, msg, hh)
	rpk, _ := crypto.RemoveBLSPublicKeys(apk, pks[:2])
	line("bls", "removepk", rpk.Encode())
	msgs := [][]byte{msg, msg, rb(10), rb(10), msg, rb(3)}
	var hs []hash.Hasher
	var ms []crypto.Signature
	for i := range msgs {
		hs = append(hs, hh)
		s, _ := sks[i].Sign(msgs[i], hh)
		ms = append(ms, s)
	}
	magg, _ := crypto.AggregateBLSSignatures(ms)
	okm, _ := crypto.VerifyBLSSignatureManyMessages(pks, magg, msgs, hs)
	okm2, _ := crypto.VerifyBLSSignatureManyMessages(pks, agg, msgs, hs)
	bv, _ := crypto.BatchVerifyBLSSignaturesOneMessage(pks, append(append([]crypto.Signature{}, sigs[:5]...), sigs[0]), msg, hh)
	line("bls", "aggverify", fmt.Sprint(ok, okm, okm2, bv))
	pop, _ := crypto.BLSGeneratePOP(sks[0])
	line("bls", "pop", []byte(pop))
	okp, _ := crypto.BLSVerifyPOP(pks[0], pop)
	okp2, _ := crypto.BLSVerifyPOP(pks[1], pop)
	p1, _ := crypto.SPOCKProve(sks[0], msg, hh)
	p2, _ := crypto.SPOCKProve(sks[1], msg, hh)
	oks, _ := crypto.SPOCKVerify(pks[0], p1, pks[1], p2)
	oks2, _ := crypto.SPOCKVerify(pks[0], p2, pks[1], p1)
	line("bls", "pop-spock", fmt.Sprint(okp, okp2, oks, oks2))
	_, e1 := crypto.DecodePublicKey(crypto.BLSBLS12381, make([]byte, 96))
	_, e2 := crypto.DecodePrivateKey(crypto.BLSBLS12381, make([]byte, 32))
	idpk := make([]byte, 96)
	idpk[0] = 0xc0
	_, e3 := crypto.DecodePublicKey(crypto.BLSBLS12381, idpk)
	line("bls", "decoding", fmt.Sprint(e1 != nil, e2 != nil, e3 != nil))
	// ---- threshold signatures
	for _, nt := range [][2]int{{3, 1}, {10, 4}, {40, 20}, {254, 100}} {
		tsks, tpks, gpk, err := crypto.BLSThresholdKeyGen(nt[0], nt[1], rb(32))
		if err != nil {
			line("threshold", fmt.Sprint(nt), "error")
			continue
		}
		line("threshold", fmt.Sprintf("%v/group", nt), gpk.Encode())
		line("threshold", fmt.Sprintf("%v/pk0", nt), tpks[0].Encode())
		line("threshold", fmt.Sprintf("%v/sk-last", nt), tsks[nt[0]-1].Encode())
		var shares []crypto.Signature
		var signers []int
		for i := nt[0] - 1; len(shares) < nt[1]+1; i -= 1 {
			s, _ := tsks[i].Sign(msg, hh)
			shares = append(shares, s)
			signers = append(signers, i)
		}
		ts, err := crypto.BLSReconstructThresholdSignature(nt[0], nt[1], shares, signers)
		line("threshold", fmt.Sprintf("%v/sig", nt), []byte(ts))
		okt, _ := gpk.Verify(ts, msg, hh)
		line("threshold", fmt.Sprintf("%v/verify", nt), fmt.Sprint(okt, err == nil))
	}
	// ---- DKG: an honest Joint-Feldman and a Feldman-VSS-Qual run, every message and the final keys
	for _, proto := range []string{"jf", "qual", "fvss"} {
		const n, t = 3, 1
		var log []string
		nodes := make([]crypto.DKGState, n)
		for i := 0; i < n; i++ {
			switch proto {
			case "jf":
				nodes[i], _ = crypto.NewJointFeldman(n, t, i, proc{i, &log})
			case "qual":
				nodes[i], _ = crypto.NewFeldmanVSSQual(n, t, i, proc{i, &log}, 0)
			default:
				nodes[i], _ = crypto.NewFeldmanVSS(n, t, i, proc{i, &log}, 0)
			}
		}
		for i := 0; i < n; i++ {
			nodes[i].Start(append([]byte{byte(i)}, data[:40]...))
		}
		// deliver everything recorded so far, in order
		for k := 0; k < len(log); k++ {
			var from, to int
			var hx string
			if c, _ := fmt.Sscanf(log[k], "priv %d->%d %s", &from, &to, &hx); c == 3 {
				b, _ := hex.DecodeString(hx)
				nodes[to].HandlePrivateMsg(from, b)
			} else if c, _ := fmt.Sscanf(log[k], "bcast %d %s", &from, &hx); c == 2 {
				b, _ := hex.DecodeString(hx)
				for j := 0; j < n; j++ {
					nodes[j].HandleBroadcastMsg(from, b)
				}
			}
		}
		for i := 0; i < n; i++ {
			nodes[i].NextTimeout()
			nodes[i].NextTimeout()
			sk, gpk, pks, err := nodes[i].End()
			if err != nil {
				line("dkg", fmt.Sprintf("%s/end/%d", proto, i), "error "+fmt.Sprint(crypto.IsDKGFailureError(err)))
				continue
			}
			line("dkg", fmt.Sprintf("%s/end/%d/sk", proto, i), sk.Encode())
			line("dkg", fmt.Sprintf("%s/end/%d/group", proto, i), gpk.Encode())
			line("dkg", fmt.Sprintf("%s/end/%d/pk2", proto, i), pks[2].Encode())
		}
		for k, l := range log {
			line("dkg", fmt.Sprintf("%s/msg/%d", proto, k), l)
		}
	}
	// ---- DKG at large sizes (participant indices beyond 127, the maximal size): an honest dealer, three instantiated
	// participants, every public key share folded into one digest
	for _, c := range [][4]int{{200, 2, 0, 199}, {254, 3, 253, 130}, {130, 1, 129, 0}} {
		n, t, dealer, other := c[0], c[1], c[2], c[3]
		members := []int{dealer, other, n / 2}
		var log []string
		nodes := map[int]crypto.DKGState{}
		for _, i := range members {
			nodes[i], _ = crypto.NewFeldmanVSSQual(n, t, i, proc{i, &log}, dealer)
		}
		for _, i := range members {
			nodes[i].Start(append([]byte{byte(i)}, data[:40]...))
		}
		for k := 0; k < len(log); k++ {
			var from, to int
			var hx string
			if cc, _ := fmt.Sscanf(log[k], "priv %d->%d %s", &from, &to, &hx); cc == 3 {
				if nd, ok := nodes[to]; ok {
					b, _ := hex.DecodeString(hx)
					nd.HandlePrivateMsg(from, b)
				}
			} else if cc, _ := fmt.Sscanf(log[k], "bcast %d %s", &from, &hx); cc == 2 {
				b, _ := hex.DecodeString(hx)
				for _, j := range members {
					nodes[j].HandleBroadcastMsg(from, b)
				}
			}
		}
		for _, i := range members {
			nodes[i].NextTimeout()
			nodes[i].NextTimeout()
			sk, gpk, pks, err := nodes[i].End()
			tag := fmt.Sprintf("big-%d-%d/end/%d", n, t, i)
			if err != nil {
				line("dkg", tag, "error "+fmt.Sprint(crypto.IsDKGFailureError(err)))
				continue
			}
			var all []byte
			for _, pk := range pks {
				all = append(all, pk.Encode()...)
			}
			d := sha256.Sum256(all)
			line("dkg", tag+"/sk", sk.Encode())
			line("dkg", tag+"/group", gpk.Encode())
			line("dkg", tag+"/pks", d[:])
			line("dkg", tag+"/pk-last", pks[n-1].Encode())
		}
	}
}
