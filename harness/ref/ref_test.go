package ref

import (
	"math/rand"
	"testing"
)

func TestSelf(t *testing.T) {
	if err := SelfTest(); err != nil {
		t.Fatal(err)
	}
	rng := rand.New(rand.NewSource(1))
	t3 := Order3E1(rng)
	if t3.Inf || !t3.Add(t3).Add(t3).Inf || t3.InSubgroup() {
		t.Fatal("order 3")
	}
	tt := TorsionE1(rng)
	if tt.InSubgroup() || !tt.OnCurve() {
		t.Fatal("torsion")
	}
	t13 := Order13E2(rng)
	if t13.InSubgroup() || !t13.OnCurve() {
		t.Fatal("order 13")
	}
	q := TorsionE2(rng)
	if q.InSubgroup() || !q.OnCurve() {
		t.Fatal("torsion2")
	}
}
