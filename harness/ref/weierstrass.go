package ref

import (
	"math/big"
)

// Short Weierstrass curves y^2 = x^3 + a x + b over F_p for the ECDSA references (P-256, secp256k1); affine, math/big.
type Curve struct {
	Name       string
	P, A, B, N *big.Int
	Gx, Gy     *big.Int
}

var P256 = &Curve{
	Name: "P-256",
	P:    hexInt("ffffffff00000001000000000000000000000000ffffffffffffffffffffffff"),
	A:    hexInt("ffffffff00000001000000000000000000000000fffffffffffffffffffffffc"),
	B:    hexInt("5ac635d8aa3a93e7b3ebbd55769886bc651d06b0cc53b0f63bce3c3e27d2604b"),
	N:    hexInt("ffffffff00000000ffffffffffffffffbce6faada7179e84f3b9cac2fc632551"),
	Gx:   hexInt("6b17d1f2e12c4247f8bce6e563a440f277037d812deb33a0f4a13945d898c296"),
	Gy:   hexInt("4fe342e2fe1a7f9b8ee7eb4a7c0f9e162bce33576b315ececbb6406837bf51f5"),
}

var Secp256k1 = &Curve{
	Name: "secp256k1",
	P:    hexInt("fffffffffffffffffffffffffffffffffffffffffffffffffffffffefffffc2f"),
	A:    big.NewInt(0),
	B:    big.NewInt(7),
	N:    hexInt("fffffffffffffffffffffffffffffffebaaedce6af48a03bbfd25e8cd0364141"),
	Gx:   hexInt("79be667ef9dcbbac55a06295ce870b07029bfcdb2dce28d959f2815b16f81798"),
	Gy:   hexInt("483ada7726a3c4655da4fbfc0e1108a8fd17b448a68554199c47d08ffb10d4b8"),
}

type Pt struct {
	X, Y *big.Int
	Inf  bool
}

func (c *Curve) m(x *big.Int) *big.Int { return x.Mod(x, c.P) }
func (c *Curve) rhs(x *big.Int) *big.Int {
	r := new(big.Int).Mul(x, x)
	r.Mul(r, x)
	r.Add(r, new(big.Int).Mul(c.A, x))
	r.Add(r, c.B)
	return c.m(r)
}
func (c *Curve) OnCurve(p Pt) bool {
	if p.Inf {
		return true
	}
	if p.X.Sign() < 0 || p.Y.Sign() < 0 || p.X.Cmp(c.P) >= 0 || p.Y.Cmp(c.P) >= 0 {
		return false
	}
	return c.m(new(big.Int).Mul(p.Y, p.Y)).Cmp(c.rhs(p.X)) == 0
}

// YFor returns a square root of x^3+ax+b if there is one (p = 3 mod 4 for both curves)
func (c *Curve) YFor(x *big.Int) (*big.Int, bool) {
	r := c.rhs(x)
	e := new(big.Int).Rsh(new(big.Int).Add(c.P, big.NewInt(1)), 2)
	y := new(big.Int).Exp(r, e, c.P)
	if c.m(new(big.Int).Mul(y, y)).Cmp(r) != 0 {
		return nil, false
	}
	return y, true
}
func (c *Curve) G() Pt { return Pt{new(big.Int).Set(c.Gx), new(big.Int).Set(c.Gy), false} }
func (c *Curve) Neg(p Pt) Pt {
	if p.Inf {
		return p
	}
	return Pt{new(big.Int).Set(p.X), c.m(new(big.Int).Neg(p.Y)), false}
}
func (c *Curve) Add(a, b Pt) Pt {
	if a.Inf {
		return b
	}
	if b.Inf {
		return a
	}
	var l *big.Int
	if a.X.Cmp(b.X) == 0 {
		if c.m(new(big.Int).Add(a.Y, b.Y)).Sign() == 0 {
			return Pt{Inf: true}
		}
		num := new(big.Int).Mul(big.NewInt(3), new(big.Int).Mul(a.X, a.X))
		num.Add(num, c.A)
		den := new(big.Int).ModInverse(c.m(new(big.Int).Mul(big.NewInt(2), a.Y)), c.P)
		l = c.m(num.Mul(num, den))
	} else {
		num := new(big.Int).Sub(b.Y, a.Y)
		den := new(big.Int).ModInverse(c.m(new(big.Int).Sub(b.X, a.X)), c.P)
		l = c.m(num.Mul(num, den))
	}
	x := new(big.Int).Mul(l, l)
	x.Sub(x, a.X)
	x.Sub(x, b.X)
	c.m(x)
	y := new(big.Int).Sub(a.X, x)
	y.Mul(y, l)
	y.Sub(y, a.Y)
	c.m(y)
	return Pt{x, y, false}
}
func (c *Curve) Mul(p Pt, k *big.Int) Pt {
	res := Pt{Inf: true}
	for i := k.BitLen() - 1; i >= 0; i-- {
		res = c.Add(res, res)
		if k.Bit(i) == 1 {
			res = c.Add(res, p)
		}
	}
	return res
}

// ECDSAVerify: the verification equation of FIPS 186 on an integer e (already the leftmost-bits reduction of the digest)
func (c *Curve) ECDSAVerify(pub Pt, e, r, s *big.Int) bool {
	if r.Sign() <= 0 || s.Sign() <= 0 || r.Cmp(c.N) >= 0 || s.Cmp(c.N) >= 0 {
		return false
	}
	w := new(big.Int).ModInverse(s, c.N)
	u1 := new(big.Int).Mul(e, w)
	u1.Mod(u1, c.N)
	u2 := new(big.Int).Mul(r, w)
	u2.Mod(u2, c.N)
	pt := c.Add(c.Mul(c.G(), u1), c.Mul(pub, u2))
	if pt.Inf {
		return false
	}
	return new(big.Int).Mod(pt.X, c.N).Cmp(r) == 0
}

func (c *Curve) SelfTest() bool {
	return c.OnCurve(c.G()) && c.Mul(c.G(), c.N).Inf && c.P.ProbablyPrime(20) && c.N.ProbablyPrime(20)
}
