package ref

import "encoding/binary"

// ChaCha20 keystream per RFC 8439 (32-byte key, 12-byte nonce, 32-bit block counter), written from the RFC text.

func rotl(x uint32, n uint) uint32 { return x<<n | x>>(32-n) }

func quarter(s *[16]uint32, a, b, c, d int) {
	s[a] += s[b]
	s[d] ^= s[a]
	s[d] = rotl(s[d], 16)
	s[c] += s[d]
	s[b] ^= s[c]
	s[b] = rotl(s[b], 12)
	s[a] += s[b]
	s[d] ^= s[a]
	s[d] = rotl(s[d], 8)
	s[c] += s[d]
	s[b] ^= s[c]
	s[b] = rotl(s[b], 7)
}

// ChaChaBlock returns the 64-byte keystream block number `counter`
func ChaChaBlock(key []byte, nonce []byte, counter uint32) [64]byte {
	var st [16]uint32
	st[0], st[1], st[2], st[3] = 0x61707865, 0x3320646e, 0x79622d32, 0x6b206574
	for i := 0; i < 8; i++ {
		st[4+i] = binary.LittleEndian.Uint32(key[4*i:])
	}
	st[12] = counter
	for i := 0; i < 3; i++ {
		st[13+i] = binary.LittleEndian.Uint32(nonce[4*i:])
	}
	w := st
	for i := 0; i < 10; i++ {
		quarter(&w, 0, 4, 8, 12)
		quarter(&w, 1, 5, 9, 13)
		quarter(&w, 2, 6, 10, 14)
		quarter(&w, 3, 7, 11, 15)
		quarter(&w, 0, 5, 10, 15)
		quarter(&w, 1, 6, 11, 12)
		quarter(&w, 2, 7, 8, 13)
		quarter(&w, 3, 4, 9, 14)
	}
	var out [64]byte
	for i := 0; i < 16; i++ {
		binary.LittleEndian.PutUint32(out[4*i:], w[i]+st[i])
	}
	return out
}

// ChaChaStream returns keystream bytes [from, from+n)
func ChaChaStream(key, nonce []byte, from uint64, n int) []byte {
	out := make([]byte, 0, n)
	for len(out) < n {
		pos := from + uint64(len(out))
		blk := ChaChaBlock(key, nonce, uint32(pos/64))
		off := int(pos % 64)
		take := 64 - off
		if take > n-len(out) {
			take = n - len(out)
		}
		out = append(out, blk[off:off+take]...)
	}
	return out
}
