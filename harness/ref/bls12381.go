// Package ref: independent reference arithmetic for the conformance harness (math/big only; shares no code with
// onflow/crypto or BLST).  BLS12-381 fields, curves E1/E2, ZCash compressed (de)serialisation, subgroup tests,
// cofactor-torsion points.  Simple affine formulas: clarity over speed.
package ref

import (
	"errors"
	"io"
	"math/big"
)

func hexInt(s string) *big.Int {
	v, ok := new(big.Int).SetString(s, 16)
	if !ok {
		panic("bad constant")
	}
	return v
}

var (
	P  = hexInt("1a0111ea397fe69a4b1ba7b6434bacd764774b84f38512bf6730d2a0f6b0f6241eabfffeb153ffffb9feffffffffaaab")
	R  = hexInt("73eda753299d7d483339d80809a1d80553bda402fffe5bfeffffffff00000001")
	H1 = hexInt("396c8c005555e1568c00aaab0000aaab")
	H2 = hexInt("5d543a95414e7f1091d50792876a202cd91de4547085abaa68a205b2e5a7ddfa628f1cb4d9e82ef21537e293a6691ae1616ec6e786f0c70cf1c38e31c7238e5")

	pHalf    = new(big.Int).Rsh(new(big.Int).Sub(P, big.NewInt(1)), 1) // (p-1)/2
	pSqrtExp = new(big.Int).Rsh(new(big.Int).Add(P, big.NewInt(1)), 2) // (p+1)/4
	one      = big.NewInt(1)
	four     = big.NewInt(4)
)

// ---------------- Fp

func mod(a *big.Int) *big.Int      { return a.Mod(a, P) }
func FpAdd(a, b *big.Int) *big.Int { return mod(new(big.Int).Add(a, b)) }
func FpSub(a, b *big.Int) *big.Int { return mod(new(big.Int).Sub(a, b)) }
func FpMul(a, b *big.Int) *big.Int { return mod(new(big.Int).Mul(a, b)) }
func FpNeg(a *big.Int) *big.Int    { return mod(new(big.Int).Neg(a)) }
func FpInv(a *big.Int) *big.Int    { return new(big.Int).ModInverse(a, P) }

// FpSqrt returns a square root of a if there is one (p = 3 mod 4)
func FpSqrt(a *big.Int) (*big.Int, bool) {
	r := new(big.Int).Exp(a, pSqrtExp, P)
	if FpMul(r, r).Cmp(new(big.Int).Mod(a, P)) != 0 {
		return nil, false
	}
	return r, true
}

// ---------------- Fp2 = Fp[i]/(i^2+1)

type Fp2 struct{ C0, C1 *big.Int }

func NewFp2(c0, c1 *big.Int) Fp2 { return Fp2{new(big.Int).Set(c0), new(big.Int).Set(c1)} }
func (a Fp2) Add(b Fp2) Fp2      { return Fp2{FpAdd(a.C0, b.C0), FpAdd(a.C1, b.C1)} }
func (a Fp2) Sub(b Fp2) Fp2      { return Fp2{FpSub(a.C0, b.C0), FpSub(a.C1, b.C1)} }
func (a Fp2) Neg() Fp2           { return Fp2{FpNeg(a.C0), FpNeg(a.C1)} }
func (a Fp2) IsZero() bool       { return a.C0.Sign() == 0 && a.C1.Sign() == 0 }
func (a Fp2) Equal(b Fp2) bool   { return a.C0.Cmp(b.C0) == 0 && a.C1.Cmp(b.C1) == 0 }
func (a Fp2) Mul(b Fp2) Fp2 {
	return Fp2{FpSub(FpMul(a.C0, b.C0), FpMul(a.C1, b.C1)), FpAdd(FpMul(a.C0, b.C1), FpMul(a.C1, b.C0))}
}
func (a Fp2) Sqr() Fp2 { return a.Mul(a) }
func (a Fp2) MulInt(k int64) Fp2 {
	kk := big.NewInt(k)
	return Fp2{FpMul(a.C0, kk), FpMul(a.C1, kk)}
}
func (a Fp2) Inv() Fp2 {
	n := FpInv(FpAdd(FpMul(a.C0, a.C0), FpMul(a.C1, a.C1)))
	return Fp2{FpMul(a.C0, n), FpMul(FpNeg(a.C1), n)}
}
func (a Fp2) Exp(e *big.Int) Fp2 {
	res := Fp2{big.NewInt(1), big.NewInt(0)}
	for i := e.BitLen() - 1; i >= 0; i-- {
		res = res.Sqr()
		if e.Bit(i) == 1 {
			res = res.Mul(a)
		}
	}
	return res
}

// Sqrt in Fp2 by the norm method: returns a root if a is a square
func (a Fp2) Sqrt() (Fp2, bool) {
	if a.IsZero() {
		return Fp2{big.NewInt(0), big.NewInt(0)}, true
	}
	if a.C1.Sign() == 0 {
		if r, ok := FpSqrt(a.C0); ok {
			return Fp2{r, big.NewInt(0)}, true
		}
		// sqrt(-1) = i  =>  sqrt(c0) = i*sqrt(-c0)
		r, ok := FpSqrt(FpNeg(a.C0))
		if !ok {
			return Fp2{}, false
		}
		return Fp2{big.NewInt(0), r}, true
	}
	// norm = c0^2 + c1^2 must be a square in Fp
	n, ok := FpSqrt(FpAdd(FpMul(a.C0, a.C0), FpMul(a.C1, a.C1)))
	if !ok {
		return Fp2{}, false
	}
	inv2 := FpInv(big.NewInt(2))
	// x0^2 = (c0 + n)/2  or (c0 - n)/2
	for _, nn := range []*big.Int{n, FpNeg(n)} {
		t := FpMul(FpAdd(a.C0, nn), inv2)
		x0, ok := FpSqrt(t)
		if !ok || x0.Sign() == 0 {
			continue
		}
		x1 := FpMul(a.C1, FpInv(FpMul(x0, big.NewInt(2))))
		r := Fp2{x0, x1}
		if r.Sqr().Equal(Fp2{new(big.Int).Mod(a.C0, P), new(big.Int).Mod(a.C1, P)}) {
			return r, true
		}
	}
	return Fp2{}, false
}

// lexicographically largest (ZCash sign): c1 > (p-1)/2, or c1 = 0 and c0 > (p-1)/2
func (a Fp2) LexLargest() bool {
	if a.C1.Sign() != 0 {
		return a.C1.Cmp(pHalf) > 0
	}
	return a.C0.Cmp(pHalf) > 0
}

// ---------------- E1: y^2 = x^3 + 4 over Fp

type G1 struct {
	X, Y *big.Int
	Inf  bool
}

var G1Inf = G1{Inf: true}

var G1Gen = G1{
	X: hexInt("17f1d3a73197d7942695638c4fa9ac0fc3688c4f9774b905a14e3a3f171bac586c55e83ff97a1aeffb3af00adb22c6bb"),
	Y: hexInt("08b3f481e3aaa0f1a09e30ed741d8ae4fcf5e095d5d00af600db18cb2c04b3edd03cc744a2888ae40caa232946c5e7e1"),
}

func (a G1) OnCurve() bool {
	if a.Inf {
		return true
	}
	return FpMul(a.Y, a.Y).Cmp(FpAdd(FpMul(FpMul(a.X, a.X), a.X), four)) == 0
}
func (a G1) Equal(b G1) bool {
	if a.Inf || b.Inf {
		return a.Inf == b.Inf
	}
	return a.X.Cmp(b.X) == 0 && a.Y.Cmp(b.Y) == 0
}
func (a G1) Neg() G1 {
	if a.Inf {
		return a
	}
	return G1{new(big.Int).Set(a.X), FpNeg(a.Y), false}
}
func (a G1) Add(b G1) G1 {
	if a.Inf {
		return b
	}
	if b.Inf {
		return a
	}
	var l *big.Int
	if a.X.Cmp(b.X) == 0 {
		if FpAdd(a.Y, b.Y).Sign() == 0 {
			return G1Inf
		}
		l = FpMul(FpMul(big.NewInt(3), FpMul(a.X, a.X)), FpInv(FpMul(big.NewInt(2), a.Y)))
	} else {
		l = FpMul(FpSub(b.Y, a.Y), FpInv(FpSub(b.X, a.X)))
	}
	x := FpSub(FpSub(FpMul(l, l), a.X), b.X)
	y := FpSub(FpMul(l, FpSub(a.X, x)), a.Y)
	return G1{x, y, false}
}
func (a G1) Mul(k *big.Int) G1 {
	if k.Sign() < 0 {
		return a.Neg().Mul(new(big.Int).Neg(k))
	}
	res := G1Inf
	for i := k.BitLen() - 1; i >= 0; i-- {
		res = res.Add(res)
		if k.Bit(i) == 1 {
			res = res.Add(a)
		}
	}
	return res
}
func (a G1) InSubgroup() bool { return a.OnCurve() && a.Mul(R).Inf }

// Compress: ZCash format, 48 bytes
func (a G1) Compress() []byte {
	out := make([]byte, 48)
	if a.Inf {
		out[0] = 0xc0
		return out
	}
	a.X.FillBytes(out)
	out[0] |= 0x80
	if a.Y.Cmp(pHalf) > 0 {
		out[0] |= 0x20
	}
	return out
}

var ErrEncoding = errors.New("ref: not a canonical encoding")

// G1Decompress accepts exactly the canonical ZCash compressed encodings of points of E1 (no subgroup test)
func G1Decompress(b []byte) (G1, error) {
	if len(b) != 48 || b[0]&0x80 == 0 {
		return G1{}, ErrEncoding
	}
	if b[0]&0x40 != 0 {
		if b[0] != 0xc0 {
			return G1{}, ErrEncoding
		}
		for _, x := range b[1:] {
			if x != 0 {
				return G1{}, ErrEncoding
			}
		}
		return G1Inf, nil
	}
	t := append([]byte(nil), b...)
	t[0] &= 0x1f
	x := new(big.Int).SetBytes(t)
	if x.Cmp(P) >= 0 {
		return G1{}, ErrEncoding
	}
	y, ok := FpSqrt(FpAdd(FpMul(FpMul(x, x), x), four))
	if !ok {
		return G1{}, ErrEncoding
	}
	if (y.Cmp(pHalf) > 0) != (b[0]&0x20 != 0) {
		y = FpNeg(y)
	}
	return G1{x, y, false}, nil
}

// RandE1 draws a random point of the curve E1 (almost surely outside G1)
func RandE1(rng io.Reader) G1 {
	buf := make([]byte, 64)
	for {
		rng.Read(buf)
		x := new(big.Int).Mod(new(big.Int).SetBytes(buf), P)
		y, ok := FpSqrt(FpAdd(FpMul(FpMul(x, x), x), four))
		if !ok {
			continue
		}
		if buf[0]&1 == 1 {
			y = FpNeg(y)
		}
		return G1{x, y, false}
	}
}

// TorsionE1 returns a non-trivial point of the cofactor torsion E1[h1] (order dividing h1, hence outside G1)
func TorsionE1(rng io.Reader) G1 {
	for {
		t := RandE1(rng).Mul(R)
		if !t.Inf {
			return t
		}
	}
}

// Order3E1 returns a point of order exactly 3 on E1 (3 | h1)
func Order3E1(rng io.Reader) G1 {
	e := new(big.Int).Mul(R, new(big.Int).Div(H1, big.NewInt(3)))
	for {
		t := RandE1(rng).Mul(e)
		if !t.Inf {
			return t
		}
	}
}

// ---------------- E2: y^2 = x^3 + 4(1+i) over Fp2

type G2 struct {
	X, Y Fp2
	Inf  bool
}

var G2Inf = G2{Inf: true}
var b2 = Fp2{big.NewInt(4), big.NewInt(4)}

var G2Gen = G2{
	X: Fp2{hexInt("024aa2b2f08f0a91260805272dc51051c6e47ad4fa403b02b4510b647ae3d1770bac0326a805bbefd48056c8c121bdb8"),
		hexInt("13e02b6052719f607dacd3a088274f65596bd0d09920b61ab5da61bbdc7f5049334cf11213945d57e5ac7d055d042b7e")},
	Y: Fp2{hexInt("0ce5d527727d6e118cc9cdc6da2e351aadfd9baa8cbdd3a76d429a695160d12c923ac9cc3baca289e193548608b82801"),
		hexInt("0606c4a02ea734cc32acd2b02bc28b99cb3e287e85a763af267492ab572e99ab3f370d275cec1da1aaa9075ff05f79be")},
}

func (a G2) OnCurve() bool {
	if a.Inf {
		return true
	}
	return a.Y.Sqr().Equal(a.X.Sqr().Mul(a.X).Add(b2))
}
func (a G2) Equal(b G2) bool {
	if a.Inf || b.Inf {
		return a.Inf == b.Inf
	}
	return a.X.Equal(b.X) && a.Y.Equal(b.Y)
}
func (a G2) Neg() G2 {
	if a.Inf {
		return a
	}
	return G2{a.X, a.Y.Neg(), false}
}
func (a G2) Add(b G2) G2 {
	if a.Inf {
		return b
	}
	if b.Inf {
		return a
	}
	var l Fp2
	if a.X.Equal(b.X) {
		if a.Y.Add(b.Y).IsZero() {
			return G2Inf
		}
		l = a.X.Sqr().MulInt(3).Mul(a.Y.MulInt(2).Inv())
	} else {
		l = b.Y.Sub(a.Y).Mul(b.X.Sub(a.X).Inv())
	}
	x := l.Sqr().Sub(a.X).Sub(b.X)
	y := l.Mul(a.X.Sub(x)).Sub(a.Y)
	return G2{x, y, false}
}
func (a G2) Mul(k *big.Int) G2 {
	if k.Sign() < 0 {
		return a.Neg().Mul(new(big.Int).Neg(k))
	}
	res := G2Inf
	for i := k.BitLen() - 1; i >= 0; i-- {
		res = res.Add(res)
		if k.Bit(i) == 1 {
			res = res.Add(a)
		}
	}
	return res
}
func (a G2) InSubgroup() bool { return a.OnCurve() && a.Mul(R).Inf }

// Compress: 96 bytes. zcash = true: c1 || c0 (the format the documentation cites);
// zcash = false: c0 || c1 (what the pinned tree writes, finding D5)
func (a G2) Compress(zcash bool) []byte {
	out := make([]byte, 96)
	if a.Inf {
		out[0] = 0xc0
		return out
	}
	if zcash {
		a.X.C1.FillBytes(out[:48])
		a.X.C0.FillBytes(out[48:])
	} else {
		a.X.C0.FillBytes(out[:48])
		a.X.C1.FillBytes(out[48:])
	}
	out[0] |= 0x80
	if a.Y.LexLargest() {
		out[0] |= 0x20
	}
	return out
}

func G2Decompress(b []byte, zcash bool) (G2, error) {
	if len(b) != 96 || b[0]&0x80 == 0 {
		return G2{}, ErrEncoding
	}
	if b[0]&0x40 != 0 {
		if b[0] != 0xc0 {
			return G2{}, ErrEncoding
		}
		for _, x := range b[1:] {
			if x != 0 {
				return G2{}, ErrEncoding
			}
		}
		return G2Inf, nil
	}
	t := append([]byte(nil), b...)
	t[0] &= 0x1f
	hi, lo := new(big.Int).SetBytes(t[:48]), new(big.Int).SetBytes(t[48:])
	if hi.Cmp(P) >= 0 || lo.Cmp(P) >= 0 {
		return G2{}, ErrEncoding
	}
	var x Fp2
	if zcash {
		x = Fp2{lo, hi}
	} else {
		x = Fp2{hi, lo}
	}
	y, ok := x.Sqr().Mul(x).Add(b2).Sqrt()
	if !ok {
		return G2{}, ErrEncoding
	}
	if y.LexLargest() != (b[0]&0x20 != 0) {
		y = y.Neg()
	}
	return G2{x, y, false}, nil
}

func RandE2(rng io.Reader) G2 {
	buf := make([]byte, 128)
	for {
		rng.Read(buf)
		x := Fp2{new(big.Int).Mod(new(big.Int).SetBytes(buf[:64]), P), new(big.Int).Mod(new(big.Int).SetBytes(buf[64:]), P)}
		y, ok := x.Sqr().Mul(x).Add(b2).Sqrt()
		if !ok {
			continue
		}
		if buf[0]&1 == 1 {
			y = y.Neg()
		}
		return G2{x, y, false}
	}
}

// TorsionE2: non-trivial point of E2[h2] (outside G2)
func TorsionE2(rng io.Reader) G2 {
	for {
		t := RandE2(rng).Mul(R)
		if !t.Inf {
			return t
		}
	}
}

// Order13E2 returns a point of order exactly 13 on E2 (13 | h2): a "small-order component"
func Order13E2(rng io.Reader) G2 {
	// 13^2 | h2; the 13-primary part may be Z13 x Z13 or Z169: strip everything but it, then reduce to order 13
	e := new(big.Int).Mul(R, new(big.Int).Div(H2, big.NewInt(169)))
	thirteen := big.NewInt(13)
	for {
		t := RandE2(rng).Mul(e)
		if t.Inf {
			continue
		}
		for !t.Mul(thirteen).Inf {
			t = t.Mul(thirteen)
		}
		return t
	}
}

// SelfTest checks the constants and the group laws on a few identities; called once at harness start-up.
func SelfTest() error {
	if !P.ProbablyPrime(20) || !R.ProbablyPrime(20) {
		return errors.New("ref: p or r not prime")
	}
	if !G1Gen.OnCurve() || !G1Gen.Mul(R).Inf || !G2Gen.OnCurve() || !G2Gen.Mul(R).Inf {
		return errors.New("ref: generators")
	}
	k := big.NewInt(0xabcdef)
	a := G1Gen.Mul(k)
	if !a.Add(G1Gen).Equal(G1Gen.Mul(new(big.Int).Add(k, one))) {
		return errors.New("ref: G1 add/mul")
	}
	b := G2Gen.Mul(k)
	if !b.Add(G2Gen).Equal(G2Gen.Mul(new(big.Int).Add(k, one))) {
		return errors.New("ref: G2 add/mul")
	}
	if d, err := G1Decompress(a.Compress()); err != nil || !d.Equal(a) {
		return errors.New("ref: G1 compress round trip")
	}
	for _, z := range []bool{true, false} {
		if d, err := G2Decompress(b.Compress(z), z); err != nil || !d.Equal(b) {
			return errors.New("ref: G2 compress round trip")
		}
	}
	if G1Gen.Compress()[0] != 0x97 || G2Gen.Compress(true)[0] != 0x93 {
		return errors.New("ref: known generator encodings")
	}
	return nil
}

// ---------------- polynomial consistency of public key shares (reference, small integer multipliers)

// G2OnPolynomial reports whether the point `target` is the value at x* of the unique polynomial "in the exponent" of degree
// < len(xs) through the points (xs[j], pts[j]).  Lagrange coefficients are cleared of denominators, so only small integer
// multiples of the points are computed:  sum_j c_j * pts[j] == D * target  with  c_j = D * prod_{k != j} (x* - x_k)/(x_j - x_k).
func G2OnPolynomial(xs []int64, pts []G2, xstar int64, target G2) bool {
	n := len(xs)
	nums := make([]*big.Int, n)
	dens := make([]*big.Int, n)
	D := big.NewInt(1)
	for j := 0; j < n; j++ {
		nums[j], dens[j] = big.NewInt(1), big.NewInt(1)
		for k := 0; k < n; k++ {
			if k == j {
				continue
			}
			nums[j].Mul(nums[j], big.NewInt(xstar-xs[k]))
			dens[j].Mul(dens[j], big.NewInt(xs[j]-xs[k]))
		}
		g := new(big.Int).GCD(nil, nil, new(big.Int).Abs(D), new(big.Int).Abs(dens[j]))
		D.Mul(D, new(big.Int).Div(new(big.Int).Abs(dens[j]), g))
	}
	sum := G2{Inf: true}
	for j := 0; j < n; j++ {
		c := new(big.Int).Mul(nums[j], new(big.Int).Div(D, dens[j]))
		p := pts[j]
		if c.Sign() < 0 {
			c.Neg(c)
			p = p.Neg()
		}
		sum = sum.Add(p.Mul(c))
	}
	return sum.Equal(target.Mul(D))
}
