package ref

// Independent reference for hashing to G1 (RFC 9380, suite BLS12381G1_*_SSWU_RO_): simplified SWU on the 11-isogenous
// curve E1', the isogeny to E1, cofactor clearing by h_eff.  Field and curve arithmetic is math/big; the only borrowed
// material is the table of isogeny coefficients (h2c_consts.go), which SelfTestH2C validates without BLST: images of
// points of E1' must lie on E1, the map must be additive, and the RFC 9380 J.9.1 vector must be reproduced from the
// message through this file's own expand_message_xmd.

import (
	"crypto/sha256"
	"fmt"
	"math/big"
)

var (
	h2cA    = hexInt(isoA)
	h2cB    = hexInt(isoB)
	h2cZ    = big.NewInt(11)
	h2cHEff = hexInt("d201000000010001")
	isoXN   = hexInts(iso_x_num)
	isoXD   = append(hexInts(iso_x_den), big.NewInt(1))
	isoYN   = hexInts(iso_y_num)
	isoYD   = append(hexInts(iso_y_den), big.NewInt(1))
)

func hexInts(s []string) []*big.Int {
	out := make([]*big.Int, len(s))
	for i := range s {
		out[i] = hexInt(s[i])
	}
	return out
}

// a point of E1': y^2 = x^3 + A'x + B'
type isoPt struct {
	X, Y *big.Int
	Inf  bool
}

func isoRHS(x *big.Int) *big.Int {
	r := FpMul(FpMul(x, x), x)
	r = FpAdd(r, FpMul(h2cA, x))
	return FpAdd(r, h2cB)
}

func (p isoPt) onCurve() bool {
	return p.Inf || FpMul(p.Y, p.Y).Cmp(isoRHS(p.X)) == 0
}

func isoAdd(a, b isoPt) isoPt {
	if a.Inf {
		return b
	}
	if b.Inf {
		return a
	}
	var l *big.Int
	if a.X.Cmp(b.X) == 0 {
		if FpAdd(a.Y, b.Y).Sign() == 0 {
			return isoPt{Inf: true}
		}
		num := FpAdd(FpMul(big.NewInt(3), FpMul(a.X, a.X)), h2cA)
		l = FpMul(num, FpInv(FpMul(big.NewInt(2), a.Y)))
	} else {
		l = FpMul(FpSub(b.Y, a.Y), FpInv(FpSub(b.X, a.X)))
	}
	x := FpSub(FpSub(FpMul(l, l), a.X), b.X)
	y := FpSub(FpMul(l, FpSub(a.X, x)), a.Y)
	return isoPt{X: x, Y: y}
}

func sgn0(x *big.Int) uint { return x.Bit(0) }

// SSWU: map_to_curve_simple_swu of RFC 9380, 6.6.2 (straight-line definition, not the optimised one)
func SSWU(u *big.Int) isoPt {
	u2 := FpMul(u, u)
	zu2 := FpMul(h2cZ, u2)
	den := FpAdd(FpMul(zu2, zu2), zu2) // Z^2 u^4 + Z u^2
	var x1 *big.Int
	if den.Sign() == 0 {
		x1 = FpMul(h2cB, FpInv(FpMul(h2cZ, h2cA))) // B / (Z A)
	} else {
		tv1 := FpInv(den)
		x1 = FpMul(FpMul(FpNeg(h2cB), FpInv(h2cA)), FpAdd(big.NewInt(1), tv1))
	}
	gx1 := isoRHS(x1)
	x2 := FpMul(zu2, x1)
	gx2 := isoRHS(x2)
	var x, y *big.Int
	if r, ok := FpSqrt(gx1); ok {
		x, y = x1, r
	} else {
		r2, ok2 := FpSqrt(gx2)
		if !ok2 {
			panic("SSWU: neither g(x1) nor g(x2) is a square")
		}
		x, y = x2, r2
	}
	if sgn0(u) != sgn0(y) {
		y = FpNeg(y)
	}
	return isoPt{X: x, Y: y}
}

func horner(c []*big.Int, x *big.Int) *big.Int {
	acc := new(big.Int)
	for i := len(c) - 1; i >= 0; i-- {
		acc = FpAdd(FpMul(acc, x), c[i])
	}
	return acc
}

// IsoMap: the 11-isogeny E1' -> E1 (RFC 9380, E.2)
func IsoMap(p isoPt) G1 {
	if p.Inf {
		return G1{Inf: true}
	}
	xd, yd := horner(isoXD, p.X), horner(isoYD, p.X)
	if xd.Sign() == 0 || yd.Sign() == 0 {
		return G1{Inf: true} // the exceptional points of the rational map are the kernel
	}
	x := FpMul(horner(isoXN, p.X), FpInv(xd))
	y := FpMul(p.Y, FpMul(horner(isoYN, p.X), FpInv(yd)))
	return G1{X: x, Y: y}
}

// MapToG1: two field elements -> G1, as hash_to_curve does after hash_to_field
func MapToG1(u0, u1 *big.Int) G1 {
	q := IsoMap(isoAdd(SSWU(u0), SSWU(u1)))
	return q.Mul(h2cHEff)
}

// HashBytesToG1: a 128-byte expander output -> G1: two 64-byte big-endian integers reduced modulo p (hash_to_field
// with L = 64, count = 2), then MapToG1
func HashBytesToG1(h []byte) G1 {
	if len(h) != 128 {
		panic("HashBytesToG1: need 128 bytes")
	}
	u0 := new(big.Int).Mod(new(big.Int).SetBytes(h[:64]), P)
	u1 := new(big.Int).Mod(new(big.Int).SetBytes(h[64:]), P)
	return MapToG1(u0, u1)
}

// expand_message_xmd with SHA-256 (RFC 9380, 5.3.1), used by the self-test only
func expandXMD(msg, dst []byte, n int) []byte {
	ell := (n + 31) / 32
	dstPrime := append(append([]byte{}, dst...), byte(len(dst)))
	b0in := make([]byte, 64)
	b0in = append(b0in, msg...)
	b0in = append(b0in, byte(n>>8), byte(n), 0)
	b0in = append(b0in, dstPrime...)
	b0 := sha256.Sum256(b0in)
	prev := sha256.Sum256(append(append(append([]byte{}, b0[:]...), 1), dstPrime...))
	out := append([]byte{}, prev[:]...)
	for i := 2; i <= ell; i++ {
		x := make([]byte, 32)
		for j := range x {
			x[j] = b0[j] ^ prev[j]
		}
		prev = sha256.Sum256(append(append(x, byte(i)), dstPrime...))
		out = append(out, prev[:]...)
	}
	return out[:n]
}

func SelfTestH2C() error {
	// 1. SSWU lands on E1', the isogeny lands on E1 and is additive
	var pts []isoPt
	for i := int64(0); i < 12; i++ {
		u := new(big.Int).Exp(big.NewInt(7+i), big.NewInt(5+i), P)
		if i == 0 {
			u = big.NewInt(0) // exceptional case of the map
		}
		q := SSWU(u)
		if !q.onCurve() {
			return fmt.Errorf("SSWU(%v) is not on E1'", u)
		}
		if !IsoMap(q).OnCurve() {
			return fmt.Errorf("isogeny image of SSWU(%v) is not on E1", u)
		}
		pts = append(pts, q)
	}
	for i := 0; i+1 < len(pts); i++ {
		s := isoAdd(pts[i], pts[i+1])
		if !s.onCurve() {
			return fmt.Errorf("E1' addition is wrong")
		}
		if !IsoMap(s).Equal(IsoMap(pts[i]).Add(IsoMap(pts[i+1]))) {
			return fmt.Errorf("isogeny is not additive: wrong coefficient table")
		}
	}
	// 2. RFC 9380 J.9.1 (BLS12381G1_XMD:SHA-256_SSWU_RO_), msg = "" and "abc": P.x
	dst := []byte("QUUX-V01-CS02-with-BLS12381G1_XMD:SHA-256_SSWU_RO_")
	for _, v := range [][2]string{
		{"", "052926add2207b76ca4fa57a8734416c8dc95e24501772c814278700eed6d1e4e8cf62d9c09db0fac349612b759e79a1"},
		{"abc", "03567bc5ef9c690c2ab2ecdf6a96ef1c139cc0b2f284dca0a9a7943388a49a3aee664ba5379a7655d3c68900be2f6903"},
	} {
		p := HashBytesToG1(expandXMD([]byte(v[0]), dst, 128))
		if p.Inf || p.X.Cmp(hexInt(v[1])) != 0 || !p.InSubgroup() {
			return fmt.Errorf("RFC 9380 J.9.1 vector for %q not reproduced: got x = %x", v[0], p.X)
		}
	}
	return nil
}

// SSWUBranch tells which case of the simplified SWU map the field element u takes: "exceptional" (u = 0), "first" (g(x1) is a
// square) or "second"
func SSWUBranch(u *big.Int) string {
	u = new(big.Int).Mod(u, P)
	if u.Sign() == 0 {
		return "exceptional"
	}
	u2 := FpMul(u, u)
	zu2 := FpMul(h2cZ, u2)
	den := FpAdd(FpMul(zu2, zu2), zu2)
	if den.Sign() == 0 {
		return "exceptional"
	}
	x1 := FpMul(FpMul(FpNeg(h2cB), FpInv(h2cA)), FpAdd(big.NewInt(1), FpInv(den)))
	if _, ok := FpSqrt(isoRHS(x1)); ok {
		return "first"
	}
	return "second"
}
