// Package misx executes the call table of specs/misc/APIMisuse.tla on the real library (C09): every exported function
// with every combination of argument classes, under recover(); the caller runs it in child processes so that a C abort or
// a fatal runtime error is attributed to the batch that caused it.
package misx

import (
	"encoding/json"
	"fmt"
	"math"
	"math/rand"

	crypto "github.com/onflow/crypto"
	"github.com/onflow/crypto/hash"
	"github.com/onflow/crypto/random"
)

type Violation struct {
	Property  string `json:"property"`
	Predicate string `json:"predicate"`
	Detail    string `json:"detail"`
	Key       string `json:"key"`
}

type Result struct {
	ID         string      `json:"id"`
	Evals      int         `json:"evals"`
	Violations []Violation `json:"violations"`
	Outcome    string      `json:"outcome"`
}

type Case struct {
	Fn     string          `json:"fn"`
	A      json.RawMessage `json:"a"`
	B      json.RawMessage `json:"b"`
	C      json.RawMessage `json:"c"`
	Expect string          `json:"expect"`
}

func str(r json.RawMessage) string {
	var s string
	if json.Unmarshal(r, &s) == nil {
		return s
	}
	return string(r)
}

func typedErr(err error) bool {
	return crypto.IsInvalidInputsError(err) || crypto.IsInvalidSignatureError(err) || crypto.IsNilHasherError(err) ||
		crypto.IsInvalidHasherSizeError(err) || crypto.IsNotBLSKeyError(err) || crypto.IsBLSAggregateEmptyListError(err) ||
		crypto.IsNotEnoughSharesError(err) || crypto.IsDuplicatedSignerError(err) || crypto.IsDKGInvalidStateTransitionError(err) ||
		crypto.IsDKGFailureError(err)
}

type env struct {
	rng    *rand.Rand
	blsSK  crypto.PrivateKey
	ecSK   crypto.PrivateKey
	sig    []byte // valid BLS signature of msg
	ecSig  []byte
	msg    []byte
	hasher hash.Hasher
}

func newEnv(seed int64) *env {
	e := &env{rng: rand.New(rand.NewSource(seed))}
	s := make([]byte, 32)
	e.rng.Read(s)
	e.blsSK, _ = crypto.GeneratePrivateKey(crypto.BLSBLS12381, s)
	e.ecSK, _ = crypto.GeneratePrivateKey(crypto.ECDSAP256, s)
	e.msg = []byte("verif message")
	e.hasher = crypto.NewExpandMsgXOFKMAC128("verif")
	e.sig, _ = e.blsSK.Sign(e.msg, e.hasher)
	e.ecSig, _ = e.ecSK.Sign(e.msg, hash.NewSHA3_256())
	return e
}

func (e *env) bytesOf(cls string, valid []byte) []byte {
	switch cls {
	case "nil":
		return nil
	case "empty":
		return []byte{}
	case "short":
		if len(valid) == 0 {
			return []byte{}
		}
		return append([]byte(nil), valid[:len(valid)-1]...)
	case "exact":
		return append([]byte(nil), valid...)
	case "long":
		return append(append([]byte(nil), valid...), byte(e.rng.Intn(256)))
	case "huge":
		b := make([]byte, 10000)
		e.rng.Read(b)
		copy(b, valid)
		return b
	}
	panic("bytes class " + cls)
}

func intOf(cls string, lo, hi int) int {
	switch cls {
	case "min":
		return math.MinInt
	case "neg":
		return -1
	case "lo-1":
		return lo - 1
	case "lo":
		return lo
	case "hi":
		return hi
	case "hi+1":
		return hi + 1
	case "wrap":
		return 256 + lo
	case "huge":
		return 1 << 40
	}
	panic("int class " + cls)
}

func algoOf(cls string) crypto.SigningAlgorithm {
	switch cls {
	case "unknown":
		return crypto.UnknownSigningAlgorithm
	case "bls":
		return crypto.BLSBLS12381
	case "p256":
		return crypto.ECDSAP256
	case "k1":
		return crypto.ECDSASecp256k1
	case "undefined":
		return crypto.SigningAlgorithm(17)
	}
	return crypto.SigningAlgorithm(-1)
}

func (e *env) hasherOf(cls string, forBLS bool) hash.Hasher {
	switch cls {
	case "nil":
		return nil
	case "small":
		h, _ := hash.NewKMAC_128(make([]byte, 16), nil, 16)
		return h
	case "ok":
		if forBLS {
			return crypto.NewExpandMsgXOFKMAC128("verif")
		}
		return hash.NewSHA3_256()
	}
	h, _ := hash.NewKMAC_128(make([]byte, 16), nil, 200) // "big": fine for ECDSA (>= 32), wrong size for BLS
	return h
}

func (e *env) validKey(algo crypto.SigningAlgorithm) crypto.PrivateKey {
	s := make([]byte, 32)
	e.rng.Read(s)
	a := algo
	if a != crypto.BLSBLS12381 && a != crypto.ECDSAP256 && a != crypto.ECDSASecp256k1 {
		a = crypto.ECDSAP256
	}
	k, _ := crypto.GeneratePrivateKey(a, s)
	return k
}

type dkgProc struct{}

func (dkgProc) PrivateSend(int, []byte)     {}
func (dkgProc) Broadcast([]byte)            {}
func (dkgProc) Disqualify(int, string)      {}
func (dkgProc) FlagMisbehavior(int, string) {}

// outcome of one call: "ok" (no error / true), "reject" (typed error or false verdict), "untyped:<err>"
func classify(ok bool, err error) string {
	switch {
	case err == nil && ok:
		return "ok"
	case err == nil:
		return "reject"
	case typedErr(err):
		return "reject"
	}
	return "untyped:" + err.Error()
}

func Run(raw json.RawMessage, seed int64) (res Result) {
	res.Violations = []Violation{}
	var c Case
	if err := json.Unmarshal(raw, &c); err != nil {
		panic(err)
	}
	a, b, cc := str(c.A), str(c.B), str(c.C)
	label := fmt.Sprintf("%s(%s, %s, %s)", c.Fn, a, b, cc)
	e := newEnv(seed)
	outcome := "ok"
	if c.Expect == "exception" && (a == "huge" || b == "huge" || cc == "huge") {
		// documented exception "size arguments whose cost is linear memory beyond what the machine has": not executed
		res.Outcome = "skipped"
		return
	}
	func() {
		defer func() {
			if r := recover(); r != nil {
				outcome = fmt.Sprintf("panic:%v", r)
			}
		}()
		outcome = dispatch(e, c, a, b, cc)
	}()
	res.Evals = 1
	res.Outcome = outcome
	add := func(pred, d string) {
		res.Violations = append(res.Violations, Violation{"C09", pred, d, fmt.Sprintf("%s:%s,%s,%s", c.Fn, a, b, cc)})
	}
	if c.Expect == "exception" {
		return
	}
	switch {
	case len(outcome) >= 6 && outcome[:6] == "panic:":
		add("NoPanic", fmt.Sprintf("%s panicked: %s", label, outcome[6:]))
	case len(outcome) >= 8 && outcome[:8] == "untyped:":
		if c.Expect == "reject" || c.Expect == "any-or-reject" {
			add("TypedError", fmt.Sprintf("%s reports the invalid input through an untyped error: %s", label, outcome[8:]))
		} else if c.Expect == "ok" {
			add("ValidCallFails", fmt.Sprintf("%s failed: %s", label, outcome[8:]))
		}
	case c.Expect == "reject" && outcome == "ok":
		add("InvalidInputAccepted", fmt.Sprintf("%s accepted invalid input", label))
	case c.Expect == "ok" && outcome != "ok":
		add("ValidCallFails", fmt.Sprintf("%s was refused (%s)", label, outcome))
	}
	return
}

func dispatch(e *env, c Case, a, b, cc string) string {
	switch c.Fn {
	case "DecodePrivateKey":
		al := algoOf(a)
		_, err := crypto.DecodePrivateKey(al, e.bytesOf(b, e.validKey(al).Encode()))
		return classify(true, err)
	case "DecodePublicKey":
		al := algoOf(a)
		_, err := crypto.DecodePublicKey(al, e.bytesOf(b, e.validKey(al).PublicKey().Encode()))
		return classify(true, err)
	case "DecodePublicKeyCompressed":
		al := algoOf(a)
		_, err := crypto.DecodePublicKeyCompressed(al, e.bytesOf(b, e.validKey(al).PublicKey().EncodeCompressed()))
		return classify(true, err)
	case "GeneratePrivateKey":
		n := map[string]int{"nil": -1, "empty": 0, "31": 31, "32": 32, "256": 256, "257": 257, "huge": 10000}[b]
		var s []byte
		if n >= 0 {
			s = make([]byte, n)
			e.rng.Read(s)
		}
		_, err := crypto.GeneratePrivateKey(algoOf(a), s)
		return classify(true, err)
	case "SignatureFormatCheck":
		v := e.sig
		if a == "p256" || a == "k1" {
			v = e.ecSig
		}
		ok, err := crypto.SignatureFormatCheck(algoOf(a), e.bytesOf(b, v))
		return classify(ok, err)
	case "AlgoString":
		_ = algoOf(a).String()
		return "ok"
	case "HashAlgoString":
		_ = hash.HashingAlgorithm(int(algoOf(a))).String()
		_ = hash.HashingAlgorithm(99).String()
		return "ok"
	case "Sign":
		sk := e.blsSK
		if a == "ecdsa" {
			sk = e.ecSK
		}
		d := map[string][]byte{"nil": nil, "empty": {}, "exact": e.msg, "huge": make([]byte, 100000)}[b]
		_, err := sk.Sign(d, e.hasherOf(cc, a == "bls"))
		return classify(true, err)
	case "Verify":
		if a == "bls" {
			ok, err := e.blsSK.PublicKey().Verify(e.bytesOf(b, e.sig), e.msg, e.hasherOf(cc, true))
			return classify(ok, err)
		}
		ok, err := e.ecSK.PublicKey().Verify(e.bytesOf(b, e.ecSig), e.msg, e.hasherOf(cc, false))
		return classify(ok, err)
	case "BLSVerifyPOP":
		pk := e.blsSK.PublicKey()
		if a == "ecdsa" {
			pk = e.ecSK.PublicKey()
		}
		pop, _ := crypto.BLSGeneratePOP(e.blsSK)
		ok, err := crypto.BLSVerifyPOP(pk, e.bytesOf(b, pop))
		return classify(ok, err)
	case "BLSGeneratePOP":
		sk := e.blsSK
		if a == "ecdsa" {
			sk = e.ecSK
		}
		_, err := crypto.BLSGeneratePOP(sk)
		return classify(true, err)
	case "SPOCKVerify":
		pk := e.blsSK.PublicKey()
		if a == "ecdsa" {
			pk = e.ecSK.PublicKey()
		}
		ok, err := crypto.SPOCKVerify(pk, e.bytesOf(b, e.sig), e.blsSK.PublicKey(), e.bytesOf(cc, e.sig))
		return classify(ok, err)
	case "SPOCKProve":
		sk := e.blsSK
		if a == "ecdsa" {
			sk = e.ecSK
		}
		d := map[string][]byte{"nil": nil, "exact": e.msg}[b]
		_, err := crypto.SPOCKProve(sk, d, e.hasherOf(cc, true))
		return classify(true, err)
	case "AggregateBLSSignatures":
		var l []crypto.Signature
		n := map[string]int{"nil": -1, "empty": 0, "one": 1, "two": 2, "many": 9}[a]
		if n >= 0 {
			l = make([]crypto.Signature, n)
			for i := range l {
				l[i] = e.bytesOf("exact", e.sig)
			}
			if n > 0 {
				l[e.rng.Intn(n)] = e.bytesOf(b, e.sig)
			}
		}
		_, err := crypto.AggregateBLSSignatures(l)
		if n <= 0 || b == "exact" {
			return classify(true, err)
		}
		return classify(true, err)
	case "AggregateBLSPublicKeys", "AggregateBLSPrivateKeys", "RemoveBLSPublicKeys":
		n := map[string]int{"nil": -1, "empty": 0, "one": 1, "two": 2, "many": 9}[a]
		var pks []crypto.PublicKey
		var sks []crypto.PrivateKey
		if n >= 0 {
			pks, sks = make([]crypto.PublicKey, n), make([]crypto.PrivateKey, n)
			for i := 0; i < n; i++ {
				sks[i] = e.validKey(crypto.BLSBLS12381)
				pks[i] = sks[i].PublicKey()
			}
			if n > 0 && b == "ecdsa" {
				j := e.rng.Intn(n)
				sks[j] = e.ecSK
				pks[j] = e.ecSK.PublicKey()
			}
		}
		var err error
		switch c.Fn {
		case "AggregateBLSPublicKeys":
			_, err = crypto.AggregateBLSPublicKeys(pks)
		case "AggregateBLSPrivateKeys":
			_, err = crypto.AggregateBLSPrivateKeys(sks)
		default:
			agg := e.blsSK.PublicKey()
			if b == "ecdsa" && n <= 0 {
				agg = e.ecSK.PublicKey()
			}
			_, err = crypto.RemoveBLSPublicKeys(agg, pks)
		}
		if n <= 0 && c.Fn != "RemoveBLSPublicKeys" && err != nil && typedErr(err) {
			return "reject"
		}
		if b == "ecdsa" && n <= 0 && c.Fn != "RemoveBLSPublicKeys" {
			return "reject" // empty lists: the element class is moot, the empty-list error was checked above
		}
		return classify(true, err)
	case "VerifyBLSSignatureOneMessage":
		n := map[string]int{"nil": -1, "empty": 0, "one": 1, "two": 2, "many": 9}[a]
		var pks []crypto.PublicKey
		if n >= 0 {
			pks = make([]crypto.PublicKey, n)
			for i := range pks {
				pks[i] = e.validKey(crypto.BLSBLS12381).PublicKey()
			}
		}
		ok, err := crypto.VerifyBLSSignatureOneMessage(pks, e.bytesOf(b, e.sig), e.msg, e.hasherOf(cc, true))
		return classify(ok, err)
	case "VerifyBLSSignatureManyMessages", "BatchVerifyBLSSignaturesOneMessage":
		n := map[string]int{"nil": -1, "empty": 0, "one": 1, "two": 2, "many": 9}[a]
		var pks []crypto.PublicKey
		var msgs [][]byte
		var hs []hash.Hasher
		var sigs []crypto.Signature
		if n >= 0 {
			for i := 0; i < n; i++ {
				pks = append(pks, e.validKey(crypto.BLSBLS12381).PublicKey())
				msgs = append(msgs, e.msg)
				hs = append(hs, e.hasher)
				sigs = append(sigs, e.bytesOf(b, e.sig))
			}
		}
		switch cc {
		case "fewer-messages":
			if len(msgs) > 0 {
				msgs = msgs[1:]
			}
		case "fewer-hashers":
			if len(hs) > 0 {
				hs = hs[1:]
			}
		case "fewer-signatures":
			if len(sigs) > 0 {
				sigs = sigs[1:]
			}
		case "nil-hasher":
			if len(hs) > 0 {
				hs[len(hs)-1] = nil
			}
		case "nil-signature":
			if len(sigs) > 0 {
				sigs[0] = nil
			}
		case "more-messages":
			msgs = append(msgs, e.msg)
		case "more-hashers":
			hs = append(hs, e.hasher)
		case "more-signatures":
			sigs = append(sigs, e.bytesOf("exact", e.sig))
		case "fewer-keys":
			if len(pks) > 0 {
				pks = pks[1:]
			}
		case "ecdsa-key":
			if len(pks) > 0 {
				pks[e.rng.Intn(len(pks))] = e.ecSK.PublicKey()
			}
		case "small-hasher":
			if len(hs) > 0 {
				hs[0] = e.hasherOf("small", true)
			}
		}
		if c.Fn == "VerifyBLSSignatureManyMessages" {
			ok, err := crypto.VerifyBLSSignatureManyMessages(pks, e.bytesOf(b, e.sig), msgs, hs)
			return classify(ok, err)
		}
		var h hash.Hasher = e.hasher
		if cc == "nil-hasher" {
			h = nil
		} else if cc == "small-hasher" {
			h = e.hasherOf("small", true)
		}
		oks, err := crypto.BatchVerifyBLSSignaturesOneMessage(pks, sigs, e.msg, h)
		all := true
		for _, o := range oks {
			all = all && o
		}
		return classify(all && len(oks) > 0, err)
	case "BLSThresholdKeyGen":
		sd := map[string][]byte{"nil": nil, "31": make([]byte, 31), "32": make([]byte, 32)}[cc]
		nn := intOf(a, 2, 254)
		tt := intOf(b, 1, 1)
		if b == "hi" && nn >= 2 && nn <= 254 {
			tt = nn - 1
		} else if b == "hi+1" && nn >= 2 && nn <= 254 {
			tt = nn
		}
		_, _, _, err := crypto.BLSThresholdKeyGen(nn, tt, sd)
		if ValidRange(nn, 2, 254) && ValidRange(tt, 1, nn-1) && cc == "32" {
			return classify(true, err)
		}
		return classify(false, err)
	case "EnoughShares":
		ok, err := crypto.EnoughShares(intOf(a, 1, 253), intOf(b, 0, 254))
		_ = ok
		return classify(true, err)
	case "BLSReconstructThresholdSignature":
		const n, t = 9, 2
		sks, _, _, _ := crypto.BLSThresholdKeyGen(n, t, make([]byte, 32))
		cnt := map[string]int{"none": 0, "t": t, "t+1": t + 1, "t+2": t + 2, "t+3": t + 3, "2t+2": 2*t + 2, "n": n}[a]
		var shares []crypto.Signature
		var signers []int
		for i := 0; i < cnt; i++ {
			s, _ := sks[i].Sign(e.msg, e.hasher)
			shares = append(shares, s)
			signers = append(signers, i)
		}
		if cnt > 0 {
			shares[e.rng.Intn(cnt)] = e.bytesOf(b, shares[0])
		}
		switch cc {
		case "dup":
			if cnt > 1 {
				signers[1] = signers[0]
			}
		case "neg":
			if cnt > 0 {
				signers[0] = -1
			}
		case "n":
			if cnt > 0 {
				signers[cnt-1] = n
			}
		case "fewer":
			if cnt > 0 {
				signers = signers[1:]
			}
		case "nil":
			signers = nil
		}
		_, err := crypto.BLSReconstructThresholdSignature(n, t, shares, signers)
		return classify(true, err)
	case "BLSReconstructThresholdSignatureSize":
		n := map[string]int{"2": 2, "3": 3, "8": 8, "9": 9, "127": 127, "128": 128, "129": 129, "253": 253, "254": 254}[a]
		t := 2
		if n <= 3 {
			t = 1
		}
		sks, _, _, err := crypto.BLSThresholdKeyGen(n, t, make([]byte, 32))
		if err != nil {
			return "untyped:" + err.Error()
		}
		var signers []int
		switch b {
		case "first":
			for i := 0; i <= t; i++ {
				signers = append(signers, i)
			}
		case "last":
			for i := 0; i <= t; i++ {
				signers = append(signers, n-1-i)
			}
		default:
			signers = append(signers, 0, n-1)
			if t == 2 {
				signers = append(signers, n/2)
			}
		}
		var shares []crypto.Signature
		for _, i := range signers {
			sg, _ := sks[i].Sign(e.msg, e.hasher)
			shares = append(shares, sg)
		}
		shares[len(shares)-1] = e.bytesOf(cc, shares[len(shares)-1])
		_, err = crypto.BLSReconstructThresholdSignature(n, t, shares, signers)
		// a duplicated last signer, and one signer too many
		crypto.BLSReconstructThresholdSignature(n, t, shares, append(append([]int{}, signers[:len(signers)-1]...), signers[0]))
		return classify(true, err)
	case "NewBLSThresholdSignatureInspector":
		n := map[string]int{"nil": -1, "empty": 0, "one": 1, "two": 2, "many": 9}[b]
		var pks []crypto.PublicKey
		for i := 0; i < n; i++ {
			pks = append(pks, e.validKey(crypto.BLSBLS12381).PublicKey())
		}
		hi := n - 1
		if hi < 1 {
			hi = 1
		}
		_, err := crypto.NewBLSThresholdSignatureInspector(e.blsSK.PublicKey(), pks, intOf(a, 1, hi), e.msg, "verif")
		return classify(true, err)
	case "InspectorOp":
		const n, t = 5, 2
		sks, pks, gpk, _ := crypto.BLSThresholdKeyGen(n, t, make([]byte, 32))
		insp, err := crypto.NewBLSThresholdSignatureInspector(gpk, pks, t, e.msg, "verif")
		if err != nil {
			return "untyped:" + err.Error()
		}
		idx := intOf(b, 0, n-1)
		vi := idx
		if vi < 0 || vi >= n {
			vi = 0
		}
		valid, _ := sks[vi].Sign(e.msg, crypto.NewExpandMsgXOFKMAC128("verif"))
		share := e.bytesOf(cc, valid)
		switch a {
		case "TrustedAdd":
			_, err = insp.TrustedAdd(idx, share)
		case "VerifyAndAdd":
			_, _, err = insp.VerifyAndAdd(idx, share)
		case "VerifyShare":
			_, err = insp.VerifyShare(idx, share)
		case "HasShare":
			_, err = insp.HasShare(idx)
		case "VerifyThresholdSignature":
			_, err = insp.VerifyThresholdSignature(share)
		case "ThresholdSignatureAfterAdds":
			for i := 0; i <= t; i++ {
				insp.TrustedAdd(i, share)
			}
			_, err = insp.ThresholdSignature()
		}
		return classify(true, err)
	case "NewBLSThresholdSignatureParticipant":
		n := map[string]int{"nil": -1, "empty": 0, "one": 1, "two": 2, "many": 9}[cc]
		var pks []crypto.PublicKey
		var sks []crypto.PrivateKey
		if n >= 2 {
			t := n - 1
			if n > 2 {
				t = n / 2
			}
			sks, pks, _, _ = crypto.BLSThresholdKeyGen(n, t, make([]byte, 32))
		} else {
			for i := 0; i < n; i++ {
				sks = append(sks, e.validKey(crypto.BLSBLS12381))
				pks = append(pks, sks[i].PublicKey())
			}
		}
		hi := n - 1
		if hi < 1 {
			hi = 1
		}
		mi := n - 1
		if mi < 0 {
			mi = 0
		}
		me := intOf(b, 0, mi)
		var own crypto.PrivateKey = e.blsSK
		if me >= 0 && me < len(sks) {
			own = sks[me]
		}
		_, err := crypto.NewBLSThresholdSignatureParticipant(e.blsSK.PublicKey(), pks, intOf(a, 1, hi), me, own, e.msg, "verif")
		return classify(true, err)
	case "ThresholdConstructorKeys":
		const n, t = 4, 2
		sks, pks, gpk, _ := crypto.BLSThresholdKeyGen(n, t, make([]byte, 32))
		if a == "ecdsa" {
			gpk = e.ecSK.PublicKey()
		}
		if b == "ecdsa" {
			pks[n-1] = e.ecSK.PublicKey()
		}
		var err error
		switch cc {
		case "none":
			_, err = crypto.NewBLSThresholdSignatureInspector(gpk, pks, t, e.msg, "verif")
		case "match":
			_, err = crypto.NewBLSThresholdSignatureParticipant(gpk, pks, t, 1, sks[1], e.msg, "verif")
		case "otherbls":
			_, err = crypto.NewBLSThresholdSignatureParticipant(gpk, pks, t, 1, sks[2], e.msg, "verif")
		default:
			_, err = crypto.NewBLSThresholdSignatureParticipant(gpk, pks, t, 1, e.ecSK, nil, "")
		}
		return classify(true, err)
	case "ParticipantOp":
		const n, t = 5, 2
		sks, pks, gpk, _ := crypto.BLSThresholdKeyGen(n, t, make([]byte, 32))
		part, err := crypto.NewBLSThresholdSignatureParticipant(gpk, pks, t, n-1, sks[n-1], e.msg, "verif")
		if err != nil {
			return "untyped:" + err.Error()
		}
		idx := intOf(b, 0, n-1)
		vi := idx
		if vi < 0 || vi >= n {
			vi = 0
		}
		valid, _ := sks[vi].Sign(e.msg, crypto.NewExpandMsgXOFKMAC128("verif"))
		share := e.bytesOf(cc, valid)
		switch a {
		case "TrustedAdd":
			_, err = part.TrustedAdd(idx, share)
		case "VerifyAndAdd":
			_, _, err = part.VerifyAndAdd(idx, share)
		case "VerifyShare":
			_, err = part.VerifyShare(idx, share)
		case "HasShare":
			_, err = part.HasShare(idx)
		case "VerifyThresholdSignature":
			_, err = part.VerifyThresholdSignature(share)
		case "SignShare":
			var own crypto.Signature
			own, err = part.SignShare()
			if err == nil {
				_, _, err = part.VerifyAndAdd(n-1, own)
			}
		case "ThresholdSignatureAfterAdds":
			for i := 0; i <= t; i++ {
				part.TrustedAdd(i, share)
			}
			part.EnoughShares()
			_, err = part.ThresholdSignature()
		}
		return classify(true, err)
	case "VerifyBLSSignatureOneMessageKeys":
		n := map[string]int{"nil": -1, "empty": 0, "one": 1, "two": 2, "many": 9}[a]
		var pks []crypto.PublicKey
		if n >= 0 {
			pks = make([]crypto.PublicKey, n)
			for i := range pks {
				pks[i] = e.validKey(crypto.BLSBLS12381).PublicKey()
			}
			if n > 0 && b == "ecdsa" {
				pks[e.rng.Intn(n)] = e.ecSK.PublicKey()
			}
		}
		ok, err := crypto.VerifyBLSSignatureOneMessage(pks, e.sig, e.msg, e.hasher)
		if n <= 0 && err != nil && typedErr(err) {
			return "reject"
		}
		return classify(ok, err)
	case "SPOCKVerifyAgainstData":
		pk := e.blsSK.PublicKey()
		if a == "ecdsa" {
			pk = e.ecSK.PublicKey()
		}
		ok, err := crypto.SPOCKVerifyAgainstData(pk, e.bytesOf(b, e.sig), e.msg, e.hasherOf(cc, true))
		return classify(ok, err)
	case "IsBLSSignatureIdentity":
		_ = crypto.IsBLSSignatureIdentity(e.bytesOf(a, e.sig))
		id := make([]byte, 48)
		id[0] = 0xC0
		_ = crypto.IsBLSSignatureIdentity(e.bytesOf(a, id))
		return "ok"
	case "SignatureAndHashHelpers":
		sg := crypto.Signature(e.bytesOf(a, e.sig))
		_ = sg.String()
		_ = sg.Bytes()
		h := hash.Hash(e.bytesOf(a, e.sig))
		_ = h.Hex()
		_ = h.String()
		_ = h.Equal(hash.Hash(e.sig))
		_ = h.Equal(nil)
		_ = crypto.BLSInvalidSignature()
		return "ok"
	case "KeyEquals":
		k1, k2 := e.validKey(algoOf(a)), e.validKey(algoOf(b))
		_ = k1.Equals(k2)
		_ = k1.PublicKey().Equals(k2.PublicKey())
		_ = k2.Equals(k1)
		_ = k1.String() + k1.PublicKey().String()
		_ = k1.Size() + k1.PublicKey().Size()
		_ = k1.PublicKey().EncodeCompressed()
		return "ok"
	case "NewExpandMsgXOFKMAC128":
		tg := map[string]string{"empty": "", "short": "t", "huge": string(make([]byte, 5000))}[a]
		h := crypto.NewExpandMsgXOFKMAC128(tg)
		sg, err := e.blsSK.Sign(e.msg, h)
		if err != nil {
			return classify(true, err)
		}
		ok, err := e.blsSK.PublicKey().Verify(sg, e.msg, crypto.NewExpandMsgXOFKMAC128(tg))
		return classify(ok, err)
	case "EncodePermutation":
		l := map[string][]int{"nil": nil, "empty": {}, "perm": {2, 0, 3, 1}, "notperm": {7, 7, -1, 1 << 40}}[a]
		_ = random.EncodePermutation(l)
		return "ok"
	case "PRGRead":
		g, err := random.NewChacha20PRG(make([]byte, 32), nil)
		if err != nil {
			return "untyped:" + err.Error()
		}
		n := map[string]int{"nil": -1, "empty": 0, "one": 1, "64": 64, "65": 65, "big": 100000}[a]
		var buf []byte
		if n >= 0 {
			buf = make([]byte, n)
		}
		g.Read(buf)
		st := g.Store()
		g2, err := random.RestoreChacha20PRG(st)
		if err != nil {
			return "untyped:" + err.Error()
		}
		g2.Read(buf)
		return "ok"
	case "DKGStart":
		const n, t = 3, 1
		me := 1
		if b == "dealer" {
			me = 0
		}
		var st crypto.DKGState
		switch a {
		case "fvss":
			st, _ = crypto.NewFeldmanVSS(n, t, me, dkgProc{}, 0)
		case "qual":
			st, _ = crypto.NewFeldmanVSSQual(n, t, me, dkgProc{}, 0)
		default:
			st, _ = crypto.NewJointFeldman(n, t, me, dkgProc{})
		}
		ln := map[string]int{"nil": -1, "empty": 0, "31": 31, "32": 32, "256": 256, "huge": 10000}[cc]
		var sd []byte
		if ln >= 0 {
			sd = make([]byte, ln)
			e.rng.Read(sd)
		}
		err := st.Start(sd)
		// whatever Start answered, the instance must survive the rest of a run: complaints addressed to it, timeouts, End
		for o := 0; o < n; o++ {
			st.HandleBroadcastMsg(o, []byte{2, byte(me)})
			st.HandleBroadcastMsg(o, []byte{2, 0})
			st.HandlePrivateMsg(o, append([]byte{0}, make([]byte, 32)...))
		}
		st.NextTimeout()
		st.NextTimeout()
		st.End()
		return classify(true, err)
	case "DKGFlood":
		// a peer (the dealer of the single-dealer protocol, every peer in Joint-Feldman) sends a well-formed vector and then complaint
		// answers / complaints naming EVERY index 0..n-1; then both timeouts and End.  Sizes 2, 3, 4.
		for _, n := range []int{2, 3, 4} {
			t := 1
			me := n - 1
			dealer := 0
			if b == "dealer" {
				me, dealer = 0, 0
			}
			var st crypto.DKGState
			if a == "qual" {
				st, _ = crypto.NewFeldmanVSSQual(n, t, me, dkgProc{}, dealer)
			} else {
				st, _ = crypto.NewJointFeldman(n, t, me, dkgProc{})
			}
			st.Start(make([]byte, 32))
			// a real vector and share from a shadow dealer for every peer
			var peers []int
			for i := 0; i < n; i++ {
				if i != me && (a == "jf" || i == dealer) {
					peers = append(peers, i)
				}
			}
			if len(peers) == 0 { // the instance is the dealer itself: complaints and answers come from the other participants
				for i := 0; i < n; i++ {
					if i != me {
						peers = append(peers, i)
					}
				}
			}
			scal := append(make([]byte, 31), 7)
			answers := func(from int) {
				for j := 0; j < n; j++ {
					st.HandleBroadcastMsg(from, append([]byte{3, byte(j)}, scal...))
				}
			}
			complaints := func(from int) {
				for j := 0; j < n; j++ {
					st.HandleBroadcastMsg(from, []byte{2, byte(j)})
				}
			}
			vector := func(from int) {
				var emitted []recMsg
				var sh crypto.DKGState
				if a == "qual" {
					sh, _ = crypto.NewFeldmanVSSQual(n, t, from, recProc{from, &emitted}, from)
				} else {
					sh, _ = crypto.NewFeldmanVSSQual(n, t, from, recProc{from, &emitted}, from)
				}
				sd := make([]byte, 32)
				sd[0] = byte(from + 1)
				sh.Start(sd)
				for _, m := range emitted {
					if m.to == -1 {
						st.HandleBroadcastMsg(from, m.data)
					} else if m.to == me {
						st.HandlePrivateMsg(from, m.data)
					}
				}
			}
			for _, from := range peers {
				switch cc {
				case "answers-all":
					vector(from)
					answers(from)
				case "complaints-all":
					vector(from)
					complaints(from)
				case "answers-then-complaints":
					vector(from)
					answers(from)
					complaints(from)
				case "complaints-then-answers":
					vector(from)
					complaints(from)
					answers(from)
				default:
					answers(from)
					vector(from)
				}
			}
			st.NextTimeout()
			st.NextTimeout()
			st.End()
		}
		return "ok"
	case "NewDKG", "NewDKGIndices":
		var n, t, me, dl int
		if c.Fn == "NewDKG" {
			n, t, me, dl = intOf(b, 2, 254), intOf(cc, 1, 1), 0, 0
			if cc == "hi" && n >= 2 && n <= 254 {
				t = n - 1
			} else if cc == "hi+1" && n >= 2 && n <= 254 {
				t = n
			}
		} else {
			n, t, me, dl = 5, 2, intOf(b, 0, 4), intOf(cc, 0, 4)
		}
		var err error
		switch a {
		case "fvss":
			_, err = crypto.NewFeldmanVSS(n, t, me, dkgProc{}, dl)
		case "qual":
			_, err = crypto.NewFeldmanVSSQual(n, t, me, dkgProc{}, dl)
		default:
			_, err = crypto.NewJointFeldman(n, t, me, dkgProc{})
		}
		return classify(true, err)
	case "DKGMessage":
		return dkgMessage(e, a, b, c.C)
	case "NewChacha20PRG":
		_, err := random.NewChacha20PRG(e.bytesOf(a, make([]byte, 32)), e.bytesOf(b, make([]byte, 12)))
		if err != nil {
			return "reject" // the random package returns plain errors: any error is the documented rejection
		}
		return "ok"
	case "RestoreChacha20PRGCounter":
		cnt := map[string]uint64{"0": 0, "63": 63, "64": 64, "65": 65, "2^32-1": 1<<32 - 1, "2^32": 1 << 32, "2^32+63": 1<<32 + 63, "2^38-65": 1<<38 - 65,
			"2^38-1": 1<<38 - 1, "2^38": 1 << 38, "2^38+1": 1<<38 + 1, "2^44": 1 << 44, "2^50": 1 << 50, "2^63": 1 << 63, "2^64-1": ^uint64(0)}[a]
		st := make([]byte, 52)
		e.rng.Read(st[:44])
		for i := 0; i < 8; i++ {
			st[44+i] = byte(cnt >> (8 * uint(i)))
		}
		g, err := random.RestoreChacha20PRG(st)
		if err != nil {
			return "reject"
		}
		if cnt < 1<<38-4096 { // inside the 256 GiB a ChaCha20 stream has: reading continues
			buf := make([]byte, 200)
			g.Read(buf)
			_ = g.UintN(1000)
		}
		_ = g.Store()
		return "ok"
	case "RestoreChacha20PRG":
		_, err := random.RestoreChacha20PRG(e.bytesOf(a, make([]byte, 52)))
		if err != nil {
			return "reject"
		}
		return "ok"
	case "UintN", "Permutation", "SubPermutation", "Samples", "Shuffle":
		g, _ := random.NewChacha20PRG(make([]byte, 32), nil)
		sz := func(s string) int {
			return map[string]int{"min": math.MinInt, "neg": -1, "zero": 0, "one": 1, "two": 2, "small": 20, "big": 1000, "huge": 1 << 40, "max": 0}[s]
		}
		var err error
		switch c.Fn {
		case "UintN":
			n := uint64(sz(a))
			if a == "max" {
				n = math.MaxUint64
			}
			if g.UintN(n) >= n {
				return "untyped:UintN out of range"
			}
		case "Permutation":
			_, err = g.Permutation(sz(a))
		case "SubPermutation":
			_, err = g.SubPermutation(sz(a), sz(b))
		case "Samples":
			f := func(i, j int) {}
			if cc == "nilfunc" {
				f = nil
			}
			err = g.Samples(sz(a), sz(b), f)
		case "Shuffle":
			f := func(i, j int) {}
			if b == "nilfunc" {
				f = nil
			}
			err = g.Shuffle(sz(a), f)
		}
		if err != nil {
			return "reject"
		}
		return "ok"
	case "NewKMAC_128":
		o := map[string]int{"min": math.MinInt, "neg": -1, "zero": 0, "one": 1, "small": 64, "huge": 1 << 40}[cc]
		_, err := hash.NewKMAC_128(e.bytesOf(a, make([]byte, 16)), e.bytesOf(b, []byte("c")), o)
		if err != nil {
			return "reject"
		}
		return "ok"
	case "HasherOps":
		var h hash.Hasher
		switch a {
		case "SHA2_256":
			h = hash.NewSHA2_256()
		case "SHA2_384":
			h = hash.NewSHA2_384()
		case "SHA3_256":
			h = hash.NewSHA3_256()
		case "SHA3_384":
			h = hash.NewSHA3_384()
		case "Keccak_256":
			h = hash.NewKeccak_256()
		default:
			h, _ = hash.NewKMAC_128(make([]byte, 16), nil, 32)
		}
		d := map[string][]byte{"nil": nil, "empty": {}, "exact": e.msg, "huge": make([]byte, 100000)}[b]
		h.ComputeHash(d)
		h.SumHash() // a finalised object asked again (outside the documented use of the sponges: any result, no panic)
		h.SumHash()
		h.Write(d)
		h.SumHash()
		h.Reset()
		h.Write(d)
		h.SumHash()
		h.SumHash()
		h.ComputeHash(d)
		h.ComputeHash(d)
		var o3 [32]byte
		hash.ComputeSHA3_256(&o3, d)
		hash.ComputeSHA2_256(&o3, d)
		return "ok"
	}
	panic("harness: unknown function " + c.Fn)
}

func ValidRange(v, lo, hi int) bool { return v >= lo && v <= hi }

// one arbitrary message handed to a DKG instance in a given phase
func dkgMessage(e *env, proto, phase string, raw json.RawMessage) string {
	var args []any
	json.Unmarshal(raw, &args)
	ch := args[0].(string)
	tag := byte(args[1].(float64))
	size := args[2].(string)
	orig := int(args[3].(float64))
	me := 1
	if len(args) > 4 && args[4].(string) == "dealer" {
		me = 0
	}
	const n, t = 3, 1
	var st crypto.DKGState
	switch proto {
	case "fvss":
		st, _ = crypto.NewFeldmanVSS(n, t, me, dkgProc{}, 0)
	case "qual":
		st, _ = crypto.NewFeldmanVSSQual(n, t, me, dkgProc{}, 0)
	default:
		st, _ = crypto.NewJointFeldman(n, t, me, dkgProc{})
	}
	sd := make([]byte, 32)
	if phase == "rerun" {
		// a complete successful run first: a real dealer (participant 0, or everybody in Joint-Feldman) deals to this instance
		successfulRun(proto, me, st)
		st.Start(sd)
	} else if phase != "new" {
		st.Start(sd)
	}
	if phase == "timeout1" || phase == "timeout2" || phase == "ended" || phase == "restarted" {
		st.NextTimeout()
	}
	if phase == "timeout2" || phase == "ended" || phase == "restarted" {
		st.NextTimeout()
	}
	if phase == "ended" || phase == "restarted" {
		st.End()
	}
	if phase == "restarted" {
		st.Start(sd)
	}
	vec := 96 * (t + 1)
	ln := map[string]int{"none": -1, "1": 0, "2": 1, "3": 2, "31": 30, "32": 31, "33": 32, "34": 33, "35": 34, "vec-1": vec - 1, "vec": vec, "vec+1": vec + 1, "huge": 10000}[size]
	var msg []byte
	if ln >= 0 {
		msg = make([]byte, 1+ln)
		e.rng.Read(msg)
		msg[0] = tag
		if e.rng.Intn(2) == 0 && len(msg) > 1 {
			msg[1] = byte(e.rng.Intn(4)) // plausible participant index in complaints / answers
		}
	}
	var err error
	for rep := 0; rep < 2; rep++ { // twice: duplicates
		if ch == "b" {
			err = st.HandleBroadcastMsg(orig, msg)
		} else {
			err = st.HandlePrivateMsg(orig, msg)
		}
	}
	st.ForceDisqualify(orig)
	st.NextTimeout()
	st.End()
	return classify(true, err)
}

// recording processor for the peers of a run
type recProc struct {
	me   int
	emit *[]recMsg
}
type recMsg struct {
	from, to int // to = -1: broadcast
	data     []byte
}

func (p recProc) PrivateSend(d int, b []byte) {
	*p.emit = append(*p.emit, recMsg{p.me, d, append([]byte(nil), b...)})
}
func (p recProc) Broadcast(b []byte) {
	*p.emit = append(*p.emit, recMsg{p.me, -1, append([]byte(nil), b...)})
}
func (recProc) Disqualify(int, string)      {}
func (recProc) FlagMisbehavior(int, string) {}

// successfulRun takes the instance st (participant me of a 3-participant group) through one complete honest run with real peers
func successfulRun(proto string, me int, st crypto.DKGState) {
	const n, t = 3, 1
	var emitted []recMsg
	peers := map[int]crypto.DKGState{}
	for i := 0; i < n; i++ {
		if i == me {
			continue
		}
		switch proto {
		case "fvss":
			peers[i], _ = crypto.NewFeldmanVSS(n, t, i, recProc{i, &emitted}, 0)
		case "qual":
			peers[i], _ = crypto.NewFeldmanVSSQual(n, t, i, recProc{i, &emitted}, 0)
		default:
			peers[i], _ = crypto.NewJointFeldman(n, t, i, recProc{i, &emitted})
		}
	}
	seed := make([]byte, 32)
	st.Start(seed)
	for i, p := range peers {
		seed[0] = byte(i + 1)
		p.Start(seed)
	}
	// the instance under test uses a silent processor: in the single-dealer protocols it is only dealt to when it is not the
	// dealer; as a dealer its own dealing is lost, which its peers punish, not itself
	for _, m := range emitted {
		if m.to == me {
			st.HandlePrivateMsg(m.from, m.data)
		} else if m.to == -1 {
			st.HandleBroadcastMsg(m.from, m.data)
		}
	}
	st.NextTimeout()
	st.NextTimeout()
	st.End()
}
