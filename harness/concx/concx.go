// Package concx records concurrent executions of the operations that the library documents as read-only or
// thread-safe (C19), for validation against specs/conc/PureOps.tla, and is also run under the race detector.
package concx

import (
	"bytes"
	"crypto/sha256"
	"encoding/hex"
	"fmt"
	"math/rand"
	"strings"
	"sync"
	"sync/atomic"

	crypto "github.com/onflow/crypto"
	"github.com/onflow/crypto/hash"
)

type Event struct {
	E             string `json:"e"` // reset | seq | conc
	Key           string `json:"key"`
	Result        string `json:"result"`
	ArgsUnchanged bool   `json:"argsUnchanged"`
	G             int    `json:"g"`
}

type op struct {
	key  string
	args [][]byte                   // buffers handed to the call (checked to be unmodified)
	run  func(h hash.Hasher) string // deterministic result (hex digest / verdict)
	own  bool                       // true: the operation needs a per-goroutine hasher (ECDSA)
}

func dig(b []byte) string { s := sha256.Sum256(b); return hex.EncodeToString(s[:8]) }

// Run builds a pool of operations over shared keys and one shared KMAC hasher, computes every result alone, then
// lets `goroutines` goroutines execute `perG` random operations each, concurrently.
func Run(seed int64, goroutines, perG int, buggyShared bool) []Event {
	rng := rand.New(rand.NewSource(seed))
	// every buffer handed to the library is a prefix of a larger one: the bytes behind it (within its capacity) belong to the
	// caller as well, e.g. the signature that follows a message in one packet
	rb := func(n int) []byte { b := make([]byte, n+24); rng.Read(b); return b[:n] }
	shared := crypto.NewExpandMsgXOFKMAC128("verif-c19")
	kmacKey := rb(32)
	kmac, _ := hash.NewKMAC_128(kmacKey, []byte("cust"), 64)
	// key objects of every internal form: generated (affine public key), a public key share of the threshold key generation and
	// the remainder of a key removal (results of point arithmetic).  mkKeys builds the same key VALUES in fresh objects each time.
	keySeeds := [][]byte{rb(32), rb(32), rb(32), rb(32), rb(32)}
	mkKeys := func() ([]crypto.PrivateKey, []crypto.PublicKey) {
		var sks []crypto.PrivateKey
		var pks []crypto.PublicKey
		for i := 0; i < 2; i++ {
			sk, _ := crypto.GeneratePrivateKey(crypto.BLSBLS12381, keySeeds[i])
			sks = append(sks, sk)
			pks = append(pks, sk.PublicKey())
		}
		tsk, tpk, _, err := crypto.BLSThresholdKeyGen(3, 1, keySeeds[2])
		if err != nil {
			panic(err)
		}
		sks = append(sks, tsk[0])
		pks = append(pks, tpk[0])
		sk3, _ := crypto.GeneratePrivateKey(crypto.BLSBLS12381, keySeeds[3])
		other, _ := crypto.GeneratePrivateKey(crypto.BLSBLS12381, keySeeds[4])
		agg, err := crypto.AggregateBLSPublicKeys([]crypto.PublicKey{sk3.PublicKey(), other.PublicKey()})
		if err != nil {
			panic(err)
		}
		rem, err := crypto.RemoveBLSPublicKeys(agg, []crypto.PublicKey{other.PublicKey()})
		if err != nil {
			panic(err)
		}
		sk3b, _ := crypto.DecodePrivateKey(crypto.BLSBLS12381, sk3.Encode()) // a private key whose public key was never computed
		sks = append(sks, sk3b)
		pks = append(pks, rem)
		return sks, pks
	}
	blsSK, blsPK := mkKeys()
	ecSK := []crypto.PrivateKey{}
	for _, a := range []crypto.SigningAlgorithm{crypto.ECDSAP256, crypto.ECDSASecp256k1} {
		sk, _ := crypto.GeneratePrivateKey(a, rb(32))
		sk.PublicKey() // the lazy public key is not in the property's list: force it once beforehand
		ecSK = append(ecSK, sk)
	}
	msgs := [][]byte{rb(10), rb(200), rb(0), rb(1000)}
	var ops []op
	// KMAC ComputeHash on one shared hasher
	for i, m := range msgs {
		m := m
		ops = append(ops, op{key: fmt.Sprintf("kmac.ComputeHash/%d", i), args: [][]byte{m}, run: func(hash.Hasher) string { return dig(kmac.ComputeHash(m)) }})
	}
	sigs := make([][]crypto.Signature, len(blsSK))
	for i, sk := range blsSK {
		for j, m := range msgs {
			i, j, m := i, j, m
			s, _ := sk.Sign(m, shared)
			sigs[i] = append(sigs[i], s)
			ops = append(ops, op{key: fmt.Sprintf("bls.Sign/%d/%d", i, j), args: [][]byte{m}, run: func(h hash.Hasher) string {
				s, err := blsSK[i].Sign(m, h)
				return dig(s) + fmt.Sprint(err == nil)
			}})
			sig := append([]byte(nil), s...)
			ops = append(ops, op{key: fmt.Sprintf("bls.Verify/%d/%d", i, j), args: [][]byte{m, sig}, run: func(h hash.Hasher) string {
				ok, err := blsPK[i].Verify(sig, m, h)
				return fmt.Sprint(ok, err == nil)
			}})
			ops = append(ops, op{key: fmt.Sprintf("bls.VerifyWrongKey/%d/%d", i, j), args: [][]byte{m, sig}, run: func(h hash.Hasher) string {
				ok, err := blsPK[(i+1)%len(blsPK)].Verify(sig, m, h)
				return fmt.Sprint(ok, err == nil)
			}})
		}
	}
	for i, sk := range blsSK {
		i := i
		pop, _ := crypto.BLSGeneratePOP(sk)
		p := append([]byte(nil), pop...)
		ops = append(ops, op{key: fmt.Sprintf("bls.VerifyPOP/%d", i), args: [][]byte{p}, run: func(hash.Hasher) string {
			ok, err := crypto.BLSVerifyPOP(blsPK[i], p)
			ok2, _ := crypto.BLSVerifyPOP(blsPK[(i+1)%4], p)
			return fmt.Sprint(ok, ok2, err == nil)
		}})
		ops = append(ops, op{key: fmt.Sprintf("bls.SPOCKVerify/%d", i), args: [][]byte{sigs[i][1], sigs[(i+1)%4][1]}, run: func(hash.Hasher) string {
			ok, err := crypto.SPOCKVerify(blsPK[i], sigs[i][1], blsPK[(i+1)%4], sigs[(i+1)%4][1])
			bad, _ := crypto.SPOCKVerify(blsPK[i], sigs[i][1], blsPK[(i+1)%4], sigs[(i+2)%4][1])
			return fmt.Sprint(ok, bad, err == nil)
		}})
	}
	// aggregate and batch verification over the shared keys and hasher
	col := make([]crypto.Signature, len(blsSK))
	for i := range blsSK {
		col[i] = sigs[i][1]
	}
	agg, _ := crypto.AggregateBLSSignatures(col)
	ops = append(ops, op{key: "bls.VerifyOneMessage", args: [][]byte{agg, msgs[1]}, run: func(h hash.Hasher) string {
		ok, err := crypto.VerifyBLSSignatureOneMessage(blsPK, agg, msgs[1], h)
		return fmt.Sprint(ok, err == nil)
	}})
	many := make([]crypto.Signature, len(blsSK))
	mm := make([][]byte, len(blsSK))
	for i := range blsSK {
		many[i] = sigs[i][i%len(msgs)]
		mm[i] = msgs[i%len(msgs)]
	}
	magg, _ := crypto.AggregateBLSSignatures(many)
	ops = append(ops, op{key: "bls.VerifyManyMessages", args: [][]byte{magg}, run: func(h hash.Hasher) string {
		hs := make([]hash.Hasher, len(blsPK))
		for i := range hs {
			hs[i] = h
		}
		ok, err := crypto.VerifyBLSSignatureManyMessages(blsPK, magg, mm, hs)
		return fmt.Sprint(ok, err == nil)
	}})
	// the same functions on OTHER inputs (fewer keys, other messages, few distinct messages among many keys and the converse): calls
	// that run at the same moment with different arguments must not share anything
	for v := 1; v <= 3; v++ {
		v := v
		idx := [][]int{nil, {0, 1}, {3, 2, 1, 0, 2}, {1, 3, 0}}[v]
		vm := make([][]byte, len(idx))
		vs := make([]crypto.Signature, len(idx))
		for k, i := range idx {
			j := []int{0, 1, k % len(msgs), 3}[v] // variants 1 and 3: one message, several keys; variant 2: as many messages as keys
			vm[k], vs[k] = msgs[j], sigs[i][j]
		}
		vagg, _ := crypto.AggregateBLSSignatures(vs)
		ops = append(ops, op{key: fmt.Sprintf("bls.VerifyManyMessages/v/%d", v), args: [][]byte{vagg}, run: func(h hash.Hasher) string {
			hs := make([]hash.Hasher, len(idx))
			pks := make([]crypto.PublicKey, len(idx))
			for k, i := range idx {
				hs[k], pks[k] = h, blsPK[i]
			}
			ok, err := crypto.VerifyBLSSignatureManyMessages(pks, vagg, vm, hs)
			return fmt.Sprint(ok, err == nil)
		}})
		var oneSigs []crypto.Signature
		for _, i := range idx {
			oneSigs = append(oneSigs, sigs[i][v])
		}
		oagg, _ := crypto.AggregateBLSSignatures(oneSigs)
		ops = append(ops, op{key: fmt.Sprintf("bls.VerifyOneMessage/v/%d", v), args: [][]byte{oagg, msgs[v]}, run: func(h hash.Hasher) string {
			pks := make([]crypto.PublicKey, len(idx))
			for k, i := range idx {
				pks[k] = blsPK[i]
			}
			ok, err := crypto.VerifyBLSSignatureOneMessage(pks, oagg, msgs[v], h)
			return fmt.Sprint(ok, err == nil)
		}})
		ops = append(ops, op{key: fmt.Sprintf("bls.BatchVerify/v/%d", v), args: [][]byte{oneSigs[0], msgs[v]}, run: func(h hash.Hasher) string {
			pks := make([]crypto.PublicKey, len(idx))
			for k, i := range idx {
				pks[k] = blsPK[i]
			}
			bs := append([]crypto.Signature{}, oneSigs...)
			bs[len(bs)-1] = oneSigs[0]
			oks, err := crypto.BatchVerifyBLSSignaturesOneMessage(pks, bs, msgs[v], h)
			return fmt.Sprint(oks, err == nil)
		}})
	}
	batch := append([]crypto.Signature{}, col...)
	batch[2] = sigs[0][1]
	ops = append(ops, op{key: "bls.BatchVerify", args: [][]byte{batch[0], batch[2], msgs[1]}, run: func(h hash.Hasher) string {
		oks, err := crypto.BatchVerifyBLSSignaturesOneMessage(blsPK, batch, msgs[1], h)
		return fmt.Sprint(oks, err == nil)
	}})
	// ECDSA with per-goroutine hashers: Sign is randomised, its result is "the signature verifies"
	for i, sk := range ecSK {
		for j, m := range msgs {
			i, j, m := i, j, m
			fixed, _ := sk.Sign(m, hash.NewSHA3_256())
			f := append([]byte(nil), fixed...)
			ops = append(ops, op{key: fmt.Sprintf("ecdsa.Sign/%d/%d", i, j), own: true, args: [][]byte{m}, run: func(h hash.Hasher) string {
				s, err := ecSK[i].Sign(m, h)
				ok, _ := ecSK[i].PublicKey().Verify(s, m, h)
				return fmt.Sprint(ok, err == nil, len(s))
			}})
			ops = append(ops, op{key: fmt.Sprintf("ecdsa.Verify/%d/%d", i, j), own: true, args: [][]byte{m, f}, run: func(h hash.Hasher) string {
				ok, err := ecSK[i].PublicKey().Verify(f, m, h)
				bad := append([]byte(nil), f...)
				bad[5] ^= 1
				nok, _ := ecSK[i].PublicKey().Verify(bad, m, h)
				return fmt.Sprint(ok, nok, err == nil)
			}})
		}
	}
	events := []Event{{E: "reset"}}
	for _, o := range ops {
		h := hash.Hasher(shared)
		if o.own {
			h = hash.NewSHA3_256()
		}
		events = append(events, Event{E: "seq", Key: o.key, Result: o.run(h), ArgsUnchanged: true})
	}
	// the concurrent phase runs on FRESH key objects equal to the ones used above (re-decoded from their encodings):
	// whatever a key object computes lazily on first use then happens under concurrency
	// ... and on FRESH hashers with the same parameters: the first ComputeHash of a hasher object happens under concurrency too
	fsk, fpk := mkKeys()
	copy(blsSK, fsk)
	copy(blsPK, fpk)
	if seed%3 == 0 { // sometimes decoded (affine) objects instead
		for i := range blsSK {
			blsSK[i], _ = crypto.DecodePrivateKey(crypto.BLSBLS12381, fsk[i].Encode())
			blsPK[i], _ = crypto.DecodePublicKey(crypto.BLSBLS12381, fpk[i].Encode())
		}
	}
	shared = crypto.NewExpandMsgXOFKMAC128("verif-c19")
	kmac, _ = hash.NewKMAC_128(kmacKey, []byte("cust"), 64)
	// the shared hashers carry a pending stream (bytes written, not yet summed): the listed operations only ComputeHash, which
	// leaves the stream of a KMAC hasher untouched ("hashers passed as arguments are left unmodified")
	pendA, pendB := rb(100), rb(37)
	if seed%2 == 0 {
		refA := crypto.NewExpandMsgXOFKMAC128("verif-c19")
		refA.Write(pendA)
		refB, _ := hash.NewKMAC_128(kmacKey, []byte("cust"), 64)
		refB.Write(pendB)
		events = append(events, Event{E: "seq", Key: "hasher.PendingStream/shared", Result: dig(refA.SumHash()), ArgsUnchanged: true},
			Event{E: "seq", Key: "hasher.PendingStream/kmac", Result: dig(refB.SumHash()), ArgsUnchanged: true})
		shared.Write(pendA)
		kmac.Write(pendB)
	}
	for i := range ecSK {
		a := ecSK[i].Algorithm()
		ecSK[i], _ = crypto.DecodePrivateKey(a, ecSK[i].Encode())
		ecSK[i].PublicKey() // not in the property's list: forced once, sequentially
	}
	// per-goroutine logs, merged at the end: a shared lock around the log would order the goroutines' accesses
	// (happens-before) and hide unsynchronised accesses from the race detector
	logs := make([][]Event, goroutines)
	call := func(gid int, o op, own hash.Hasher) {
		before := make([][]byte, len(o.args))
		for i, a := range o.args {
			before[i] = append([]byte(nil), a[:cap(a)]...)
		}
		h := hash.Hasher(shared)
		if o.own {
			h = own
		}
		res := o.run(h)
		same := true
		for i, a := range o.args {
			same = same && bytes.Equal(before[i], a[:cap(a)])
		}
		logs[gid] = append(logs[gid], Event{E: "conc", Key: o.key, Result: res, ArgsUnchanged: same, G: gid})
	}
	owns := make([]hash.Hasher, goroutines)
	for i := range owns {
		owns[i] = hash.NewSHA3_256()
	}
	// phase 1, volleys: every goroutine makes the FIRST use of a fresh object at the same moment, one operation at a time
	volley := func(o op) {
		var wg sync.WaitGroup
		start := make(chan struct{})
		for gi := 0; gi < goroutines; gi++ {
			wg.Add(1)
			go func(gid int) {
				defer wg.Done()
				<-start
				call(gid, o, owns[gid])
			}(gi)
		}
		close(start)
		wg.Wait()
	}
	// one volley per kind of operation and key index (e.g. bls.VerifyPOP/2, bls.Sign/1, ecdsa.Verify/0)
	seen := map[string]bool{}
	var volleys []op
	for _, o := range ops {
		k := o.key
		if idx := len(k) - 1; idx > 0 && k[idx-1] == '/' && len(k) > 3 {
			if j := lastSlashBefore(k, idx-1); j > 0 {
				k = k[:idx-1]
			}
		}
		if !seen[k] {
			seen[k] = true
			volleys = append(volleys, o)
		}
	}
	// several rounds, each on FRESH key objects, each led by another kind of operation whose result alone is `true` for the right
	// key: whatever a key object does on its first use (under concurrency here) then shows in a verdict that should be positive.
	// Operations whose result is `false` by construction (wrong key) come last: a disturbed read would not change their result.
	leaders := []string{"bls.Verify/", "bls.VerifyPOP/", "bls.SPOCKVerify/", "bls.VerifyOneMessage", "bls.VerifyManyMessages", "bls.BatchVerify"}
	for round := 0; round < len(leaders); round++ {
		if round > 0 {
			rsk, rpk := mkKeys()
			copy(blsSK, rsk)
			copy(blsPK, rpk)
		}
		lead := leaders[(round+int(seed%6+6))%len(leaders)]
		var first, mid, last []op
		for _, o := range volleys {
			switch {
			case strings.HasPrefix(o.key, lead):
				first = append(first, o)
			case strings.HasPrefix(o.key, "bls.VerifyWrongKey/"):
				last = append(last, o)
			default:
				mid = append(mid, o)
			}
		}
		if round > 0 { // later rounds: the leader and the other BLS verifications only
			var m2 []op
			for _, o := range mid {
				if strings.HasPrefix(o.key, "bls.") && !strings.HasPrefix(o.key, "bls.Sign/") {
					m2 = append(m2, o)
				}
			}
			mid, last = m2, nil
		}
		for _, o := range append(append(first, mid...), last...) {
			volley(o)
		}
	}
	// phase 1a', first-use stampedes: many trials, each on FRESH key objects, in which all goroutines leave a spin barrier within
	// a fraction of a microsecond and make the first use of one key object with one operation (whatever the object computes or
	// caches on first use happens under real contention; a channel wake-up spreads the goroutines over microseconds)
	{
		var firstUse []op
		for _, o := range volleys {
			if strings.HasPrefix(o.key, "bls.VerifyPOP/") || strings.HasPrefix(o.key, "bls.Verify/") || strings.HasPrefix(o.key, "bls.SPOCKVerify/") {
				firstUse = append(firstUse, o)
			}
		}
		trials := 8 * perG / 3
		for trial := 0; trial < trials && len(firstUse) > 0; trial++ {
			rsk, rpk := mkKeys()
			copy(blsSK, rsk)
			copy(blsPK, rpk)
			if trial%2 == 1 { // decoded objects: nothing about them was ever computed
				for i := range blsPK {
					blsPK[i], _ = crypto.DecodePublicKey(crypto.BLSBLS12381, rpk[i].Encode())
				}
			}
			o := firstUse[(trial*5+int(seed%7+7))%len(firstUse)]
			var arrived int32
			var wg sync.WaitGroup
			for gi := 0; gi < goroutines; gi++ {
				wg.Add(1)
				go func(gid int) {
					defer wg.Done()
					atomic.AddInt32(&arrived, 1)
					for atomic.LoadInt32(&arrived) < int32(goroutines) {
					}
					call(gid, o, owns[gid])
				}(gi)
			}
			wg.Wait()
		}
	}
	// phase 1b, mixed volleys: the operations of one family (one function) on DIFFERENT arguments, all at the same moment
	families := map[string][]op{}
	var famOrder []string
	for _, o := range ops {
		f := o.key
		if i := strings.Index(f, "/"); i > 0 {
			f = f[:i]
		}
		if _, ok := families[f]; !ok {
			famOrder = append(famOrder, f)
		}
		families[f] = append(families[f], o)
	}
	for _, f := range famOrder {
		fam := families[f]
		if len(fam) < 2 || !strings.HasPrefix(f, "bls.") {
			continue
		}
		for round := 0; round < 3; round++ {
			var wg sync.WaitGroup
			start := make(chan struct{})
			for gi := 0; gi < goroutines; gi++ {
				wg.Add(1)
				go func(gid int) {
					defer wg.Done()
					<-start
					call(gid, fam[(gid*7+round*3+int(seed%5+5))%len(fam)], owns[gid])
				}(gi)
			}
			close(start)
			wg.Wait()
		}
	}
	// phase 2, random mixes
	var wg sync.WaitGroup
	start := make(chan struct{})
	for gi := 0; gi < goroutines; gi++ {
		wg.Add(1)
		r := rand.New(rand.NewSource(seed*977 + int64(gi)))
		go func(gid int, r *rand.Rand) {
			defer wg.Done()
			<-start
			for k := 0; k < perG; k++ {
				call(gid, ops[r.Intn(len(ops))], owns[gid])
			}
		}(gi, r)
	}
	close(start)
	wg.Wait()
	for _, l := range logs {
		events = append(events, l...)
	}
	if seed%2 == 0 {
		events = append(events, Event{E: "conc", Key: "hasher.PendingStream/shared", Result: dig(shared.SumHash()), ArgsUnchanged: true, G: 0},
			Event{E: "conc", Key: "hasher.PendingStream/kmac", Result: dig(kmac.SumHash()), ArgsUnchanged: true, G: 0})
	}
	return events
}

func lastSlashBefore(s string, end int) int {
	for i := end - 1; i >= 0; i-- {
		if s[i] == '/' {
			return i
		}
	}
	return -1
}
