package blsx

import (
	"bytes"
	"encoding/json"
	"fmt"
	"math/big"

	crypto "github.com/onflow/crypto"
	"github.com/onflow/crypto/hash"
	"verifharness/ref"
)

// ---------------- C01: cases of specs/bls/BLSVerify.tla

type VerifyCase struct {
	ID     string `json:"id"`
	Key    []any  `json:"key"`    // [form name, sign]
	Hasher string `json:"hasher"` // kmac | custom128 | size127 | size129 | nil
	Sig    string `json:"sig"`    // class
	Expect string `json:"expect"` // true | false | err:nilHasher | err:hasherSize
	Seed   int64  `json:"seed"`
}

type Result struct {
	ID         string      `json:"id"`
	Evals      int         `json:"evals"`
	Violations []Violation `json:"violations"`
}

func keyForm(k []any) map[string]int {
	name := k[0].(string)
	sign := int(k[1].(float64))
	switch name {
	case "x1":
		return map[string]int{"x1": sign}
	case "x2":
		return map[string]int{"x2": 1}
	case "x1+x2":
		return map[string]int{"x1": 1, "x2": 1}
	}
	return map[string]int{}
}

func verdictOf(ok bool, err error) string {
	switch {
	case err == nil && ok:
		return "true"
	case err == nil:
		return "false"
	case crypto.IsNilHasherError(err):
		return "err:nilHasher"
	case crypto.IsInvalidHasherSizeError(err):
		return "err:hasherSize"
	}
	return "err:other(" + err.Error() + ")"
}

func RunVerify(c VerifyCase) (res Result) {
	res.ID = c.ID
	res.Violations = []Violation{}
	defer func() {
		if r := recover(); r != nil {
			res.Violations = append(res.Violations, Violation{"C09", "NoPanic", fmt.Sprintf("Verify case %+v: panic: %v", c, r)})
		}
	}()
	w := NewWorld(c.Seed)
	if c.Seed%5 == 1 {
		w.scalars["x1"] = big.NewInt(1)
	} else if c.Seed%5 == 2 {
		w.scalars["x1"] = new(big.Int).Sub(ref.R, big.NewInt(1))
	}
	form := keyForm(c.Key)
	pk := w.PK(form, int(c.Seed/7))
	hcls := c.Hasher
	refH := hcls
	if hcls != "kmac" && hcls != "custom128" {
		refH = "kmac" // the candidate is built for a good hasher; the verifier is handed the bad one
	}
	ks := w.KeyScalar(form)
	H := w.HashPoint(refH, "m1")
	valid := H.Mul(ks)
	var sig []byte
	switch c.Sig {
	case "valid":
		sig = valid.Compress()
	case "otherkey":
		sig = H.Mul(w.Scalar("x3")).Compress()
	case "othermsg":
		sig = w.HashPoint(refH, "m2").Mul(ks).Compress()
	case "negated":
		sig = valid.Neg().Compress()
	case "plusT":
		sig = valid.Add(w.T()).Compress()
	case "plus2T":
		t := w.T()
		sig = valid.Add(t).Add(t).Compress()
	case "plusD":
		sig = valid.Add(w.D()).Compress()
	case "double":
		sig = valid.Add(valid).Compress()
	case "identity":
		sig = ref.G1Inf.Compress()
	default:
		sig = w.BadEncoding(c.Sig, valid.Compress())
	}
	m := w.Msg("m1")
	got := verdictOf(pk.Verify(sig, m.Data, w.Hasher(hcls, "m1")))
	res.Evals++
	if got != c.Expect {
		res.Violations = append(res.Violations, Violation{"C01", "AcceptanceSet",
			fmt.Sprintf("Verify(key %v, hasher %s, signature class %s) = %s, the specification gives %s [sig %x seed %d]", c.Key, c.Hasher, c.Sig, got, c.Expect, sig, c.Seed)})
	}
	// the verdict does not depend on how the key object came about (generated, decoded, aggregated from public or from private
	// keys with or without cached public keys, left over after a removal): every origin of the same key value
	for variant := 0; variant < 7; variant++ {
		pkv := w.PK(form, variant)
		got := verdictOf(pkv.Verify(sig, m.Data, w.Hasher(hcls, "m1")))
		res.Evals++
		if got != c.Expect {
			res.Violations = append(res.Violations, Violation{"C01", "AcceptanceSet",
				fmt.Sprintf("Verify(key %v of origin %d, hasher %s, signature class %s) = %s, the specification gives %s [sig %x seed %d]", c.Key, variant, c.Hasher, c.Sig, got, c.Expect, sig, c.Seed)})
			break
		}
	}
	// Sign returns exactly the canonical encoding of sk * H(m)
	if ks.Sign() != 0 && (hcls == "kmac" || hcls == "custom128") {
		s2, err := w.SK(ks).Sign(m.Data, w.Hasher(hcls, "m1"))
		res.Evals++
		if err != nil || !bytes.Equal(s2, valid.Compress()) {
			res.Violations = append(res.Violations, Violation{"C01", "SignIsCanonical",
				fmt.Sprintf("Sign under key %v / hasher %s returned %x (err %v), the reference sk*H(m) is %x", c.Key, hcls, []byte(s2), err, valid.Compress())})
		}
	}
	if w.H2CMismatch != "" {
		res.Violations = append(res.Violations, Violation{"C01", "DocumentedHashToCurve", w.H2CMismatch + fmt.Sprintf(" [seed %d]", c.Seed)})
	}
	return
}

// fixedHasher returns a prescribed 128-byte expander output, whatever the message
type fixedHasher struct {
	customHasher
	out []byte
}

func (f *fixedHasher) ComputeHash(d []byte) hash.Hash { return append([]byte(nil), f.out...) }
func (f *fixedHasher) SumHash() hash.Hash             { return f.ComputeHash(nil) }

// HashToCurveSweep: crafted expander outputs at the edges of hash_to_field / the SSWU map (chunks 0, 1, p-1, p, p+1,
// 2p, the largest 512-bit value, chunks that make u0 = u1, u0 = -u1, leading-zero chunks) and random ones: what the library
// signs under the secret key 1 must be the documented hash-to-curve image computed by the reference.
func HashToCurveSweep(seed int64, res *Result) {
	w := NewWorld(seed)
	be := func(v *big.Int) []byte { b := make([]byte, 64); v.FillBytes(b); return b }
	p := ref.P
	max := new(big.Int).Sub(new(big.Int).Lsh(big.NewInt(1), 512), big.NewInt(1))
	rnd := func() *big.Int { b := make([]byte, 64); w.Rng.Read(b); return new(big.Int).SetBytes(b) }
	edge := []*big.Int{big.NewInt(0), big.NewInt(1), new(big.Int).Sub(p, big.NewInt(1)), p, new(big.Int).Add(p, big.NewInt(1)),
		new(big.Int).Lsh(p, 1), new(big.Int).Mul(p, big.NewInt(1000003)), max, new(big.Int).Rsh(max, 131), big.NewInt(11), rnd(), rnd()}
	var outs [][]byte
	for _, a := range edge {
		for _, b := range []*big.Int{edge[int(seed)%len(edge)], rnd(), a, new(big.Int).Sub(p, new(big.Int).Mod(a, p))} { // incl. u1 = u0 and u1 = -u0 (sum at infinity on E1')
			outs = append(outs, append(be(a), be(b)...))
			outs = append(outs, append(be(b), be(a)...))
		}
	}
	for i := 0; i < 40; i++ {
		outs = append(outs, append(be(rnd()), be(rnd())...))
	}
	for _, o := range outs {
		res.Evals++
		want := ref.HashBytesToG1(o).Compress()
		got, err := w.one.Sign([]byte("m"), &fixedHasher{out: o})
		if err != nil || !bytes.Equal(got, want) {
			if len(res.Violations) < 5 {
				res.Violations = append(res.Violations, Violation{"C01", "DocumentedHashToCurve",
					fmt.Sprintf("expander output %x: Sign(sk = 1) = %x (err %v), the documented hash-to-curve image is %x [seed %d]", o, []byte(got), err, want, seed)})
			}
		}
	}
}

// Sweeps around one valid signature (C01 quantifier: every single-bit flip, every length 0..200, other tag, other message)
func VerifySweep(seed int64) (res Result) {
	res.ID = fmt.Sprintf("sweep-%d", seed)
	res.Violations = []Violation{}
	defer func() {
		if r := recover(); r != nil {
			res.Violations = append(res.Violations, Violation{"C09", "NoPanic", fmt.Sprintf("Verify sweep: panic: %v", r)})
		}
	}()
	w := NewWorld(seed)
	add := func(d string) {
		if len(res.Violations) < 5 {
			res.Violations = append(res.Violations, Violation{"C01", "AcceptanceSet", d + fmt.Sprintf(" [seed %d]", seed)})
		}
	}
	HashToCurveSweep(seed, &res)
	ks := w.Scalar("x1")
	sk := w.SK(ks)
	pk := sk.PublicKey()
	m := w.Msg("m1")
	h := w.Hasher("kmac", "m1")
	valid := w.HashPoint("kmac", "m1").Mul(ks).Compress()
	if ok, err := pk.Verify(valid, m.Data, h); !ok || err != nil {
		add(fmt.Sprintf("the reference signature %x is rejected (%v, %v)", valid, ok, err))
		return
	}
	for bit := 0; bit < 384; bit++ {
		f := append([]byte(nil), valid...)
		f[bit/8] ^= 1 << uint(bit%8)
		res.Evals++
		if ok, err := pk.Verify(f, m.Data, h); ok || err != nil {
			add(fmt.Sprintf("bit %d flipped: Verify = (%v, %v)", bit, ok, err))
		}
	}
	for l := 0; l <= 200; l++ {
		if l == 48 {
			continue
		}
		f := make([]byte, l)
		copy(f, valid)
		res.Evals++
		if ok, err := pk.Verify(f, m.Data, h); ok || err != nil {
			add(fmt.Sprintf("length %d: Verify = (%v, %v)", l, ok, err))
		}
	}
	// another domain tag, another message, another key
	res.Evals += 3
	if ok, _ := pk.Verify(valid, m.Data, crypto.NewExpandMsgXOFKMAC128(m.Tag+"x")); ok {
		add("accepted under another domain tag")
	}
	// another tag of the same length that differs only in its last byte, for short and long tags
	for _, n := range []int{1, 50, 121, 140, 168, 200, 300, 500} {
		t1 := make([]byte, n)
		for i := range t1 {
			t1[i] = byte('a' + (i*7+int(seed))%26)
		}
		t2 := append([]byte(nil), t1...)
		t2[n-1] ^= 1
		s1, err := sk.Sign(m.Data, crypto.NewExpandMsgXOFKMAC128(string(t1)))
		res.Evals++
		if err != nil {
			add("Sign under a long tag failed: " + err.Error())
			continue
		}
		if ok, _ := pk.Verify(s1, m.Data, crypto.NewExpandMsgXOFKMAC128(string(t2))); ok {
			add(fmt.Sprintf("a signature under a %d-byte tag verifies under another tag of the same length differing in the last byte", n))
		}
		if ok, _ := pk.Verify(s1, m.Data, crypto.NewExpandMsgXOFKMAC128(string(t1))); !ok {
			add(fmt.Sprintf("a signature under a %d-byte tag does not verify under its own tag", n))
		}
	}
	if ok, _ := pk.Verify(valid, append(append([]byte{}, m.Data...), 0), h); ok {
		add("accepted for another message")
	}
	if ok, _ := w.SK(w.Scalar("x2")).PublicKey().Verify(valid, m.Data, h); ok {
		add("accepted under another key")
	}
	return
}

func init() { Runners["verify-highx"] = runVerifyHighX }

// runVerifyHighX: a VALID signature whose abscissa shares its 13 leading bits with the field prime (x in [0x1a01 << 368, p): one
// G1 point in about 95 000).  Such strings sit next to the "x >= p" refusals of the decoder; found by walking k -> k.H with the
// reference addition.  The signature must verify, be what Sign returns, survive aggregation unchanged, and its neighbours must not verify.
func runVerifyHighX(raw json.RawMessage, seed int64) (res Result) {
	res.Violations = []Violation{}
	defer func() {
		if r := recover(); r != nil {
			res.Violations = append(res.Violations, Violation{"C09", "NoPanic", fmt.Sprintf("high-x signatures: panic: %v", r)})
		}
	}()
	w := NewWorld(seed)
	add := func(prop, pred, d string) {
		res.Violations = append(res.Violations, Violation{prop, pred, fmt.Sprintf("%s [seed %d]", d, seed)})
	}
	H := w.HashPoint("kmac", "m1")
	m := w.Msg("m1")
	h := w.Hasher("kmac", "m1")
	k := new(big.Int).Set(w.Scalar("x1"))
	Q := H.Mul(k)
	top := new(big.Int).Rsh(ref.P, 368)
	found := false
	for tries := 0; tries < 1500000; tries++ {
		if !Q.Inf && new(big.Int).Rsh(Q.X, 368).Cmp(top) == 0 {
			found = true
			break
		}
		Q = Q.Add(H)
		k.Add(k, big.NewInt(1))
	}
	k.Mod(k, ref.R)
	if !found || k.Sign() == 0 {
		return // (probability e^-15) nothing to judge
	}
	sig := Q.Compress()
	sk := w.SK(k)
	pk := sk.PublicKey()
	res.Evals += 4
	if got, err := sk.Sign(m.Data, h); err != nil || !bytes.Equal(got, sig) {
		add("C01", "SignIsCanonical", fmt.Sprintf("Sign returned %x (err %v), sk*H(m) is %x (abscissa with the leading bits of p)", []byte(got), err, sig))
	}
	if ok, err := pk.Verify(sig, m.Data, w.Hasher("kmac", "m1")); !ok || err != nil {
		add("C01", "AcceptanceSet", fmt.Sprintf("Verify of the valid signature %x (abscissa with the 13 leading bits of p) = (%v, %v)", sig, ok, err))
	}
	if out, err := crypto.AggregateBLSSignatures([]crypto.Signature{sig}); err != nil || !bytes.Equal(out, sig) {
		add("C05", "ReencodeIsInput", fmt.Sprintf("AggregateBLSSignatures of the single canonical signature %x: %x, %v", sig, []byte(out), err))
	}
	for bit := 0; bit < 16; bit++ { // flips in the two leading bytes of x: another x, or x >= p
		b := append([]byte(nil), sig...)
		b[bit/8] ^= 0x80 >> uint(bit%8)
		if ok, err := pk.Verify(b, m.Data, w.Hasher("kmac", "m1")); ok || err != nil {
			add("C01", "AcceptanceSet", fmt.Sprintf("Verify of %x (bit %d of a valid signature flipped) = (%v, %v)", b, bit, ok, err))
		}
		res.Evals++
	}
	return
}
