package blsx

import (
	"bytes"
	"encoding/json"
	"fmt"
	"math/big"

	"verifharness/ref"
)

// cases of specs/bls/HashToCurve.tla: classes of the two expander chunks and their relation, concretised into a 128-byte
// expander output; what the library signs with it (secret key 1 and a random key) is compared with the reference image and with
// the model's predictions (identity image exactly for opposite field elements, independence of the representative, symmetry).

func init() { Runners["h2c"] = runH2C }

type h2cChunk struct {
	Res string `json:"res"`
	Rep string `json:"rep"`
}

type h2cCase struct {
	C0  h2cChunk `json:"c0"`
	C1  h2cChunk `json:"c1"`
	Rel string   `json:"rel"`
	Add string   `json:"add"`
	H   string   `json:"h"`
}

func runH2C(raw json.RawMessage, seed int64) (res Result) {
	res.Violations = []Violation{}
	var c h2cCase
	if err := json.Unmarshal(raw, &c); err != nil {
		panic(err)
	}
	defer func() {
		if r := recover(); r != nil {
			res.Violations = append(res.Violations, Violation{"C09", "NoPanic", fmt.Sprintf("hash-to-curve case %s: panic: %v", string(raw), r)})
		}
	}()
	w := NewWorld(seed)
	add := func(pred, d string) {
		if len(res.Violations) < 5 {
			res.Violations = append(res.Violations, Violation{"C01", pred, fmt.Sprintf("%s [case %s seed %d]", d, string(raw), seed)})
		}
	}
	p := ref.P
	residue := func(cls string) *big.Int {
		switch cls {
		case "zero":
			return big.NewInt(0)
		case "one":
			return big.NewInt(1)
		case "minusone":
			return new(big.Int).Sub(p, big.NewInt(1))
		}
		want := map[string]string{"sq": "first", "nsq": "second"}[cls]
		for {
			b := make([]byte, 64)
			w.Rng.Read(b)
			u := new(big.Int).Mod(new(big.Int).SetBytes(b), p)
			if u.Cmp(big.NewInt(1)) > 0 && u.Cmp(new(big.Int).Sub(p, big.NewInt(1))) < 0 && ref.SSWUBranch(u) == want {
				return u
			}
		}
	}
	v0 := residue(c.C0.Res)
	var v1 *big.Int
	switch c.Rel {
	case "same":
		v1 = new(big.Int).Set(v0)
	case "neg":
		v1 = new(big.Int).Mod(new(big.Int).Neg(v0), p)
	default:
		v1 = residue(c.C1.Res)
	}
	max := new(big.Int).Sub(new(big.Int).Lsh(big.NewInt(1), 512), big.NewInt(1))
	rep := func(v *big.Int, cls string) []byte {
		x := new(big.Int).Set(v)
		switch cls {
		case "plusp":
			x.Add(x, p)
		case "high":
			k := new(big.Int).Div(new(big.Int).Sub(max, v), p)
			x.Add(x, k.Mul(k, p))
		}
		b := make([]byte, 64)
		x.FillBytes(b)
		return b
	}
	out := append(rep(v0, c.C0.Rep), rep(v1, c.C1.Rep)...)
	canon := append(rep(v0, "reduced"), rep(v1, "reduced")...)
	swapped := append(rep(v1, c.C1.Rep), rep(v0, c.C0.Rep)...)
	signWith := func(sk *big.Int, o []byte) []byte {
		s, err := w.SK(sk).Sign([]byte("m"), &fixedHasher{out: o})
		if err != nil {
			add("DocumentedHashToCurve", "Sign failed: "+err.Error())
			return nil
		}
		return s
	}
	one := big.NewInt(1)
	got := signWith(one, out)
	H := ref.HashBytesToG1(out)
	res.Evals += 4
	if !bytes.Equal(got, H.Compress()) {
		add("DocumentedHashToCurve", fmt.Sprintf("expander output %x: Sign(sk = 1) = %x, the documented hash-to-curve image is %x", out, got, H.Compress()))
	}
	if (c.H == "identity") != H.Inf {
		panic(fmt.Sprintf("harness: the reference image contradicts the model (identity expected: %v, reference infinity: %v)", c.H == "identity", H.Inf))
	}
	id := ref.G1Inf.Compress()
	if (c.H == "identity") != bytes.Equal(got, id) {
		add("IdentityIffOpposite", fmt.Sprintf("expander output %x (relation %s): the hash point is the identity: %v, the specification says %v", out, c.Rel, bytes.Equal(got, id), c.H == "identity"))
	}
	if g2 := signWith(one, canon); !bytes.Equal(g2, got) {
		add("RepresentativeForgotten", fmt.Sprintf("chunks %s/%s and their reduced representatives hash to different points: %x vs %x", c.C0.Rep, c.C1.Rep, got, g2))
	}
	if g3 := signWith(one, swapped); !bytes.Equal(g3, got) {
		add("ChunkSymmetry", fmt.Sprintf("swapping the two chunks of %x changes the hash point: %x vs %x", out, got, g3))
	}
	x := w.Scalar("x1")
	if gx := signWith(x, out); !bytes.Equal(gx, H.Mul(x).Compress()) {
		add("SignIsCanonical", fmt.Sprintf("Sign under a random key on expander output %x returned %x, sk*H is %x", out, gx, H.Mul(x).Compress()))
	}
	// verification under that key: sk*H is the one accepted string, "which is exactly what Sign returns".  When H is the identity
	// (opposite field elements: only a crafted hasher gets there) that string is the identity encoding: it is then not one of the
	// "other inputs" of C01's second sentence, so Sign's output must verify there as everywhere else (an earlier version of this
	// check demanded its rejection: a false alarm, DESIGN 9.3), and any other string must not.
	pk := w.SK(x).PublicKey()
	ok, err := pk.Verify(H.Mul(x).Compress(), []byte("m"), &fixedHasher{out: out})
	if err != nil || !ok {
		add("AcceptanceSet", fmt.Sprintf("Verify of sk*H (what Sign returns) for expander output %x = (%v, %v); the hash point is the identity: %v", out, ok, err, H.Inf))
	}
	if H.Inf {
		other := w.HashPoint("kmac", "m1").Compress()
		if ok, err := pk.Verify(other, []byte("m"), &fixedHasher{out: out}); ok || err != nil {
			add("AcceptanceSet", fmt.Sprintf("the hash point is the identity, yet Verify of a non-identity point = (%v, %v)", ok, err))
		}
		res.Evals++
	}
	return
}
