package blsx

import (
	"bytes"
	"encoding/json"
	"fmt"
	"math/big"

	crypto "github.com/onflow/crypto"
	"verifharness/ref"
)

// ---------------- C05: cases of specs/bls/Serialization.tla

func init() {
	Runners["serial"] = runSerial
	Runners["serial-zcash"] = runSerialZcash
	Runners["serial-extra"] = runSerialExtra
}

type serialCase struct {
	C struct {
		Dec  string `json:"dec"`
		Len  int    `json:"len"`
		Val  string `json:"val"`
		Cbit int    `json:"cbit"`
		Ibit int    `json:"ibit"`
		Sbit int    `json:"sbit"`
		Body string `json:"body"`
	} `json:"c"`
	Expect string `json:"expect"`
}

func fit(b []byte, n int) []byte {
	if n <= len(b) {
		return b[:n]
	}
	out := append([]byte(nil), b...)
	for len(out) < n {
		out = append(out, byte(0x11*len(out)+1))
	}
	return out
}

func scalarOfClass(val string, order *big.Int, w *World) []byte {
	var v *big.Int
	switch val {
	case "0":
		v = big.NewInt(0)
	case "1":
		v = big.NewInt(1)
	case "mid":
		v = new(big.Int).Mod(new(big.Int).SetBytes(w.randBytes(40)), new(big.Int).Sub(order, big.NewInt(3)))
		v.Add(v, big.NewInt(2))
	case "ord-1":
		v = new(big.Int).Sub(order, big.NewInt(1))
	case "ord":
		v = new(big.Int).Set(order)
	case "ord+1":
		v = new(big.Int).Add(order, big.NewInt(1))
	default:
		v = new(big.Int).Sub(new(big.Int).Lsh(big.NewInt(1), 256), big.NewInt(1))
	}
	b := make([]byte, 32)
	v.FillBytes(b)
	return b
}

// g2Body builds a 96-byte encoding (flags applied afterwards) of the class; zcash selects the coefficient order
func (w *World) g2Point(body string) (ref.G2, bool) {
	switch body {
	case "valid":
		return ref.G2Gen.Mul(w.Scalar("pkx")), true
	case "oncurve-outside-subgroup":
		return ref.TorsionE2(w.Rng), true
	case "subgroup+smallorder":
		return ref.G2Gen.Mul(w.Scalar("pkx")).Add(ref.Order13E2(w.Rng)), true
	}
	return ref.G2{}, false
}

func (w *World) g1Point(body string) (ref.G1, bool) {
	switch body {
	case "valid":
		return ref.G1Gen.Mul(w.Scalar("sgx")), true
	case "oncurve-outside-subgroup":
		return ref.TorsionE1(w.Rng), true
	case "subgroup+smallorder":
		return ref.G1Gen.Mul(w.Scalar("sgx")).Add(ref.Order3E1(w.Rng)), true
	}
	return ref.G1{}, false
}

func classify(err error) string {
	switch {
	case err == nil:
		return "accept"
	case crypto.IsInvalidInputsError(err), crypto.IsInvalidSignatureError(err):
		return "reject"
	}
	return "error(" + err.Error() + ")"
}

func runSerial(raw json.RawMessage, seed int64) (res Result) {
	res.Violations = []Violation{}
	var c serialCase
	if err := json.Unmarshal(raw, &c); err != nil {
		panic(err)
	}
	defer func() {
		if r := recover(); r != nil {
			res.Violations = append(res.Violations, Violation{"C09", "NoPanic", fmt.Sprintf("decoder case %s: panic: %v", string(raw), r)})
		}
	}()
	w := NewWorld(seed)
	add := func(pred, d string) {
		res.Violations = append(res.Violations, Violation{"C05", pred, fmt.Sprintf("%s [case %s seed %d]", d, string(raw), seed)})
	}
	check := func(label string, b []byte, err error, reenc func() []byte) {
		res.Evals++
		got := classify(err)
		if got != c.Expect {
			add("AcceptsExactlyCanonical", fmt.Sprintf("%s(%x) -> %s, the documented acceptance set says %s", label, b, got, c.Expect))
			return
		}
		if got == "accept" {
			if out := reenc(); !bytes.Equal(out, b) {
				add("ReencodeIsInput", fmt.Sprintf("%s(%x) accepted but re-encodes to %x", label, b, out))
			}
		}
	}
	applyFlags := func(b []byte) {
		b[0] &= 0x1f
		b[0] |= byte(c.C.Cbit)<<7 | byte(c.C.Ibit)<<6 | byte(c.C.Sbit)<<5
	}
	infBody := func(n int) []byte {
		b := make([]byte, n)
		switch c.C.Body {
		case "garbage-first":
			b[1] = byte(1 + w.Rng.Intn(255))
		case "garbage-mid":
			b[2+w.Rng.Intn(n-4)] = byte(1 + w.Rng.Intn(255))
		case "garbage-last":
			b[n-1] = byte(1 + w.Rng.Intn(255))
		}
		return b
	}
	switch c.C.Dec {
	case "bls-sk":
		b := fit(scalarOfClass(c.C.Val, ref.R, w), c.C.Len)
		sk, err := crypto.DecodePrivateKey(crypto.BLSBLS12381, b)
		check("DecodePrivateKey(BLS)", b, err, func() []byte { return sk.Encode() })
	case "ecdsa-sk":
		for _, cv := range []struct {
			a crypto.SigningAlgorithm
			c *ref.Curve
		}{{crypto.ECDSAP256, ref.P256}, {crypto.ECDSASecp256k1, ref.Secp256k1}} {
			b := fit(scalarOfClass(c.C.Val, cv.c.N, w), c.C.Len)
			sk, err := crypto.DecodePrivateKey(cv.a, b)
			check("DecodePrivateKey("+cv.c.Name+")", b, err, func() []byte { return sk.Encode() })
		}
	case "bls-pk":
		var b []byte
		zc := w.G2Order == "zcash"
		if c.C.Ibit == 1 {
			b = infBody(96)
		} else if p, ok := w.g2Point(c.C.Body); ok {
			b = p.Compress(zc)
			if (b[0]>>5)&1 != byte(c.C.Sbit) { // the other sign bit: the canonical encoding of -P
				b = p.Neg().Compress(zc)
			}
		} else {
			b = ref.G2Gen.Mul(w.Scalar("pkx")).Compress(zc)
			switch c.C.Body {
			case "xgep":
				off := 48 * w.Rng.Intn(2)
				x := new(big.Int).Add(ref.P, big.NewInt(int64(w.Rng.Intn(1000))))
				x.FillBytes(b[off : off+48])
			case "nonresidue":
				for {
					x0 := new(big.Int).Mod(new(big.Int).SetBytes(w.randBytes(48)), ref.P)
					x1 := new(big.Int).Mod(new(big.Int).SetBytes(w.randBytes(48)), ref.P)
					x := ref.NewFp2(x0, x1)
					if _, ok := x.Sqr().Mul(x).Add(ref.NewFp2(big.NewInt(4), big.NewInt(4))).Sqrt(); !ok {
						x0.FillBytes(b[:48])
						x1.FillBytes(b[48:])
						break
					}
				}
			}
		}
		b = fit(b, c.C.Len)
		if len(b) > 0 {
			applyFlags(b)
		}
		pk, err := crypto.DecodePublicKey(crypto.BLSBLS12381, b)
		check("DecodePublicKey(BLS)", b, err, func() []byte { return pk.Encode() })
		pk2, err2 := crypto.DecodePublicKeyCompressed(crypto.BLSBLS12381, b)
		check("DecodePublicKeyCompressed(BLS)", b, err2, func() []byte { return pk2.EncodeCompressed() })
	case "bls-sig":
		var b []byte
		if c.C.Ibit == 1 {
			b = infBody(48)
		} else if p, ok := w.g1Point(c.C.Body); ok {
			b = p.Compress()
			if (b[0]>>5)&1 != byte(c.C.Sbit) {
				b = p.Neg().Compress()
			}
		} else {
			b = w.BadEncoding(c.C.Body, ref.G1Gen.Mul(w.Scalar("sgx")).Compress())
		}
		b = fit(b, c.C.Len)
		if len(b) > 0 {
			applyFlags(b)
		}
		// signature parsing in aggregation: a single signature either is rejected or comes back unchanged
		out, err := crypto.AggregateBLSSignatures([]crypto.Signature{b})
		check("AggregateBLSSignatures([b])", b, err, func() []byte { return out })
		// in verification nothing but the valid signature is ever accepted; none of these is one
		sk := w.SK(w.Scalar("x1"))
		if ok, err := sk.PublicKey().Verify(b, []byte("m"), crypto.NewExpandMsgXOFKMAC128("t")); ok || err != nil {
			add("VerifyRejects", fmt.Sprintf("Verify(%x) = (%v, %v)", b, ok, err))
		}
	case "ecdsa-pk-raw", "ecdsa-pk-comp":
		for _, cv := range []struct {
			a crypto.SigningAlgorithm
			c *ref.Curve
		}{{crypto.ECDSAP256, ref.P256}, {crypto.ECDSASecp256k1, ref.Secp256k1}} {
			cur := cv.c
			d := new(big.Int).Mod(new(big.Int).SetBytes(w.randBytes(40)), cur.N)
			pt := cur.Mul(cur.G(), d.Add(d, big.NewInt(1)))
			if c.C.Body == "valid-leading-zero" {
				for k := int64(1); pt.X.BitLen() > 248; k++ { // a point whose x has a leading zero byte
					pt = cur.Mul(cur.G(), big.NewInt(k*7919+int64(w.Rng.Intn(1000))))
				}
			}
			x, y := new(big.Int).Set(pt.X), new(big.Int).Set(pt.Y)
			switch c.C.Body {
			case "y-negated":
				y = cur.Neg(pt).Y
			case "xgep":
				for { // x + p must still fit in 32 bytes: pick small x
					xs := big.NewInt(int64(w.Rng.Intn(1 << 20)))
					if ys, ok := cur.YFor(xs); ok && new(big.Int).Add(xs, cur.P).BitLen() <= 256 {
						x, y = new(big.Int).Add(xs, cur.P), ys
						break
					}
				}
			case "ygep": // Y >= p (a y with y + p < 2^256 would have to be tiny: not constructible; any Y >= p must be refused)
				y = new(big.Int).Add(cur.P, big.NewInt(int64(w.Rng.Intn(1000))))
			case "not-on-curve":
				for {
					xs := new(big.Int).Mod(new(big.Int).SetBytes(w.randBytes(40)), cur.P)
					if _, ok := cur.YFor(xs); !ok {
						x = xs
						break
					}
				}
			case "all-zero":
				x, y = big.NewInt(0), big.NewInt(0)
			}
			if c.C.Body == "valid-xy" || c.C.Body == "compressed-form" || c.C.Body == "prefixed-04" {
				// a valid encoding of the point in ANOTHER X9.62 form, handed to the wrong decoder
				var b []byte
				var pref byte
				fmt.Sscanf(c.C.Val, "%02x", &pref)
				switch c.C.Body {
				case "valid-xy": // 04 / 06 / 07 || X || Y with matching parity for the hybrid forms
					if pref != 4 && y.Bit(0) != uint(pref&1) {
						y = new(big.Int).Sub(cur.P, y)
					}
					b = make([]byte, 65)
					b[0] = pref
					x.FillBytes(b[1:33])
					y.FillBytes(b[33:])
				case "compressed-form":
					b = make([]byte, 33)
					b[0] = 2 + byte(y.Bit(0))
					x.FillBytes(b[1:])
					b = fit(b, c.C.Len)
				default:
					b = make([]byte, 65)
					b[0] = 4
					x.FillBytes(b[1:33])
					y.FillBytes(b[33:])
					b = fit(b, c.C.Len)
				}
				if c.C.Dec == "ecdsa-pk-raw" {
					pk, err := crypto.DecodePublicKey(cv.a, b)
					check("DecodePublicKey("+cur.Name+")", b, err, func() []byte { return pk.Encode() })
				} else {
					pk, err := crypto.DecodePublicKeyCompressed(cv.a, b)
					check("DecodePublicKeyCompressed("+cur.Name+")", b, err, func() []byte { return pk.EncodeCompressed() })
				}
				continue
			}
			if c.C.Dec == "ecdsa-pk-raw" {
				b := make([]byte, 64)
				x.FillBytes(b[:32])
				y.FillBytes(b[32:])
				b = fit(b, c.C.Len)
				pk, err := crypto.DecodePublicKey(cv.a, b)
				check("DecodePublicKey("+cur.Name+")", b, err, func() []byte { return pk.Encode() })
			} else {
				b := make([]byte, 33)
				x.FillBytes(b[1:])
				var pref byte
				fmt.Sscanf(c.C.Val, "%02x", &pref)
				if c.C.Body == "valid" && (pref == 2 || pref == 3) {
					// the canonical prefix is determined by the parity of y: choose the point with that parity
					if y.Bit(0) != uint(pref&1) {
						y = new(big.Int).Sub(cur.P, y)
					}
				}
				b[0] = pref
				b = fit(b, c.C.Len)
				pk, err := crypto.DecodePublicKeyCompressed(cv.a, b)
				check("DecodePublicKeyCompressed("+cur.Name+")", b, err, func() []byte { return pk.EncodeCompressed() })
				if err == nil && c.C.Body == "valid" {
					raw := make([]byte, 64)
					x.FillBytes(raw[:32])
					y.FillBytes(raw[32:])
					if !bytes.Equal(pk.Encode(), raw) {
						add("CompressedDecodesToPoint", fmt.Sprintf("%s: compressed %x decodes to %x, the point is %x", cur.Name, b, pk.Encode(), raw))
					}
				}
			}
		}
	}
	return
}

// the documentation cites the ZCash format: F_p^2 elements are written c1 || c0 (finding D5 when the library differs)
func runSerialZcash(raw json.RawMessage, seed int64) (res Result) {
	res.Violations = []Violation{}
	defer func() {
		if r := recover(); r != nil {
			res.Violations = append(res.Violations, Violation{"C09", "NoPanic", fmt.Sprintf("zcash format probe: panic: %v", r)})
		}
	}()
	w := NewWorld(seed)
	for k := 0; k < 4; k++ {
		s := w.Scalar(fmt.Sprintf("z%d", k))
		if k == 0 {
			s = big.NewInt(1)
		}
		z := ref.G2Gen.Mul(s).Compress(true)
		res.Evals += 2
		pk, err := crypto.DecodePublicKey(crypto.BLSBLS12381, z)
		if err != nil {
			res.Violations = append(res.Violations, Violation{"C05", "ZCashFormatG2|bls-g2:fp2-order",
				fmt.Sprintf("the ZCash compressed encoding %x... of a G2 element is rejected: %v", z[:8], err)})
		} else if !bytes.Equal(pk.Encode(), z) || !pk.Equals(w.SK(s).PublicKey()) {
			res.Violations = append(res.Violations, Violation{"C05", "ZCashFormatG2|bls-g2:fp2-order",
				fmt.Sprintf("the ZCash compressed encoding %x... decodes to another key", z[:8])})
		}
		if enc := w.SK(s).PublicKey().Encode(); !bytes.Equal(enc, z) {
			res.Violations = append(res.Violations, Violation{"C05", "ZCashFormatG2|bls-g2:fp2-order",
				fmt.Sprintf("Encode() of the public key of scalar #%d is %x..., the ZCash encoding is %x... (F_p^2 coefficients written c0||c1 instead of c1||c0)", k, enc[:8], z[:8])})
		}
	}
	return
}

// every object the package produces round-trips; every single-bit flip of valid encodings is rejected or canonical
func runSerialExtra(raw json.RawMessage, seed int64) (res Result) {
	res.Violations = []Violation{}
	defer func() {
		if r := recover(); r != nil {
			res.Violations = append(res.Violations, Violation{"C09", "NoPanic", fmt.Sprintf("serialization extras: panic: %v", r)})
		}
	}()
	w := NewWorld(seed)
	add := func(pred, d string) {
		if len(res.Violations) < 8 {
			res.Violations = append(res.Violations, Violation{"C05", pred, d + fmt.Sprintf(" [seed %d]", seed)})
		}
	}
	// decoders are handed a buffer of the caller's that is overwritten right after the call (a reception buffer reused for the
	// next message): the decoded object keeps its value
	scribble := func(b []byte) {
		for i := range b {
			b[i] = 0xEE
		}
	}
	rtSK := func(label string, a crypto.SigningAlgorithm, sk crypto.PrivateKey) {
		res.Evals++
		enc := sk.Encode()
		buf := append([]byte(nil), enc...)
		d, err := crypto.DecodePrivateKey(a, buf)
		scribble(buf)
		if err != nil || !d.Equals(sk) || !sk.Equals(d) || !bytes.Equal(d.Encode(), enc) || !bytes.Equal(sk.Encode(), enc) {
			add("ProducedObjectsRoundTrip", fmt.Sprintf("%s private key %x: %v", label, enc, err))
		}
		// what Encode() returns is the caller's: writing into it does not change the key
		scribble(d.Encode())
		if !bytes.Equal(d.Encode(), enc) {
			add("ProducedObjectsRoundTrip", fmt.Sprintf("%s private key: Encode() returns memory that the key object keeps using", label))
		}
	}
	rtPK := func(label string, a crypto.SigningAlgorithm, pk crypto.PublicKey) {
		res.Evals++
		enc, encc := pk.Encode(), pk.EncodeCompressed()
		buf := append([]byte(nil), enc...)
		d, err := crypto.DecodePublicKey(a, buf)
		scribble(buf)
		if err != nil || !d.Equals(pk) || !pk.Equals(d) || !bytes.Equal(d.Encode(), enc) || !bytes.Equal(pk.Encode(), enc) {
			add("ProducedObjectsRoundTrip", fmt.Sprintf("%s public key %x: %v (the input buffer was overwritten after decoding)", label, enc, err))
		}
		if d != nil {
			scribble(d.Encode())
			scribble(d.EncodeCompressed())
			if !bytes.Equal(d.Encode(), enc) || !bytes.Equal(d.EncodeCompressed(), encc) {
				add("ProducedObjectsRoundTrip", fmt.Sprintf("%s public key: Encode() returns memory that the key object keeps using", label))
			}
		}
		bufc := append([]byte(nil), encc...)
		dc, err := crypto.DecodePublicKeyCompressed(a, bufc)
		scribble(bufc)
		if err != nil || !dc.Equals(pk) || !bytes.Equal(dc.EncodeCompressed(), encc) || !bytes.Equal(dc.Encode(), enc) {
			add("ProducedObjectsRoundTrip", fmt.Sprintf("%s compressed public key %x: %v (the input buffer was overwritten after decoding)", label, encc, err))
		}
	}
	var prevSK crypto.PrivateKey
	for _, a := range []crypto.SigningAlgorithm{crypto.BLSBLS12381, crypto.ECDSAP256, crypto.ECDSASecp256k1} {
		for k := 0; k < 6; k++ {
			sk, err := crypto.GeneratePrivateKey(a, w.randBytes(32+w.Rng.Intn(200)))
			if err != nil {
				add("Generate", err.Error())
				continue
			}
			rtSK("generated "+a.String(), a, sk)
			rtPK("generated "+a.String(), a, sk.PublicKey())
			// "an Equal object" means something: objects of different keys, or of different algorithms, are not Equal
			if prevSK != nil && (sk.Equals(prevSK) || prevSK.Equals(sk) || sk.PublicKey().Equals(prevSK.PublicKey()) || prevSK.PublicKey().Equals(sk.PublicKey())) {
				add("ProducedObjectsRoundTrip", fmt.Sprintf("two different keys (%s and %s) are Equal", a, prevSK.Algorithm()))
			}
			prevSK = sk
		}
	}
	// aggregated keys (non-zero), threshold keygen outputs, DKG-free identity key
	s1, s2 := w.SK(w.Scalar("x1")), w.SK(w.Scalar("x2"))
	ask, _ := crypto.AggregateBLSPrivateKeys([]crypto.PrivateKey{s1, s2})
	rtSK("aggregated", crypto.BLSBLS12381, ask)
	apk, _ := crypto.AggregateBLSPublicKeys([]crypto.PublicKey{s1.PublicKey(), s2.PublicKey()})
	rtPK("aggregated", crypto.BLSBLS12381, apk)
	rpk, _ := crypto.RemoveBLSPublicKeys(apk, []crypto.PublicKey{s2.PublicKey()})
	rtPK("removed", crypto.BLSBLS12381, rpk)
	rtPK("identity", crypto.BLSBLS12381, crypto.IdentityBLSPublicKey())
	sks, pks, gpk, err := crypto.BLSThresholdKeyGen(5, 2, w.randBytes(32))
	if err == nil {
		for i := range sks {
			rtSK("threshold share", crypto.BLSBLS12381, sks[i])
			rtPK("threshold share", crypto.BLSBLS12381, pks[i])
		}
		rtPK("threshold group", crypto.BLSBLS12381, gpk)
	}
	// every single-bit flip of a valid BLS public key / signature / ECDSA keys: rejected, or accepted and canonical
	pkb := s1.PublicKey().Encode()
	zc := w.G2Order == "zcash"
	for bit := 0; bit < 768; bit++ {
		f := append([]byte(nil), pkb...)
		f[bit/8] ^= 1 << uint(bit%8)
		res.Evals++
		p, rerr := ref.G2Decompress(f, zc)
		want := rerr == nil && p.InSubgroup()
		pk, err := crypto.DecodePublicKey(crypto.BLSBLS12381, f)
		if (err == nil) != want {
			add("AcceptsExactlyCanonical", fmt.Sprintf("BLS public key with bit %d flipped: accepted=%v, canonical encoding of a G2 element=%v", bit, err == nil, want))
		} else if err == nil && !bytes.Equal(pk.Encode(), f) {
			add("ReencodeIsInput", fmt.Sprintf("BLS public key with bit %d flipped re-encodes differently", bit))
		} else if err != nil && !crypto.IsInvalidInputsError(err) {
			add("RejectionClass", fmt.Sprintf("BLS public key with bit %d flipped: %v", bit, err))
		}
	}
	sg := ref.G1Gen.Mul(w.Scalar("sgx")).Compress()
	for bit := 0; bit < 384; bit++ {
		f := append([]byte(nil), sg...)
		f[bit/8] ^= 1 << uint(bit%8)
		res.Evals++
		_, rerr := ref.G1Decompress(f)
		out, err := crypto.AggregateBLSSignatures([]crypto.Signature{f})
		if (err == nil) != (rerr == nil) {
			add("AcceptsExactlyCanonical", fmt.Sprintf("signature with bit %d flipped: aggregation accepted=%v, canonical curve-point encoding=%v", bit, err == nil, rerr == nil))
		} else if err == nil && !bytes.Equal(out, f) {
			add("ReencodeIsInput", fmt.Sprintf("signature with bit %d flipped re-encodes differently", bit))
		}
	}
	for _, cv := range []struct {
		a crypto.SigningAlgorithm
		c *ref.Curve
	}{{crypto.ECDSAP256, ref.P256}, {crypto.ECDSASecp256k1, ref.Secp256k1}} {
		sk, _ := crypto.GeneratePrivateKey(cv.a, w.randBytes(40))
		rawpk := sk.PublicKey().Encode()
		for bit := 0; bit < 512; bit++ {
			f := append([]byte(nil), rawpk...)
			f[bit/8] ^= 1 << uint(bit%8)
			res.Evals++
			want := cv.c.OnCurve(ref.Pt{X: new(big.Int).SetBytes(f[:32]), Y: new(big.Int).SetBytes(f[32:])})
			pk, err := crypto.DecodePublicKey(cv.a, f)
			if (err == nil) != want {
				add("AcceptsExactlyCanonical", fmt.Sprintf("%s raw public key with bit %d flipped: accepted=%v, on curve=%v", cv.c.Name, bit, err == nil, want))
			} else if err == nil && !bytes.Equal(pk.Encode(), f) {
				add("ReencodeIsInput", fmt.Sprintf("%s raw key bit %d", cv.c.Name, bit))
			}
		}
		comp := sk.PublicKey().EncodeCompressed()
		for pref := 0; pref < 256; pref++ {
			f := append([]byte(nil), comp...)
			f[0] = byte(pref)
			res.Evals++
			pk, err := crypto.DecodePublicKeyCompressed(cv.a, f)
			want := pref == 2 || pref == 3
			if (err == nil) != want {
				add("AcceptsExactlyCanonical", fmt.Sprintf("%s compressed key with prefix %#02x: accepted=%v", cv.c.Name, pref, err == nil))
			} else if err == nil && !bytes.Equal(pk.EncodeCompressed(), f) {
				add("ReencodeIsInput", fmt.Sprintf("%s compressed key with prefix %#02x re-encodes to %x", cv.c.Name, pref, pk.EncodeCompressed()[:1]))
			}
		}
	}
	// infinity encodings (flag byte 0xC0) followed by anything but zeros are not canonical, whatever the pattern of the tail:
	// all tail bytes equal, alternating, a run of equal bytes, only the first / last few set
	for _, size := range []int{48, 96} {
		tails := [][]byte{}
		for _, v := range []byte{0x01, 0x55, 0x80, 0xff, 0xC0} {
			t := bytes.Repeat([]byte{v}, size-1)
			tails = append(tails, t)
			alt := make([]byte, size-1)
			for i := range alt {
				if i%2 == 0 {
					alt[i] = v
				}
			}
			tails = append(tails, alt)
			for _, run := range []int{2, 7, 8, 9, 16, size - 2} {
				head := make([]byte, size-1)
				copy(head, bytes.Repeat([]byte{v}, run))
				tails = append(tails, head)
				tl := make([]byte, size-1)
				copy(tl[size-1-run:], bytes.Repeat([]byte{v}, run))
				tails = append(tails, tl)
			}
		}
		// tails that vanish under a fold of the bytes (sum modulo 256, xor, sum of 16-bit or 64-bit words): pairs and triples
		// of non-zero bytes at several distances
		for _, grp := range [][]byte{{0xff, 0x01}, {0x01, 0xff}, {0x7f, 0x81}, {0x40, 0x40, 0x80}, {0xaa, 0xaa}, {0x80, 0x80}, {0x10, 0xf0}} {
			for _, dist := range []int{1, 2, 8, 16, size/2 - 1} {
				for _, first := range []int{0, 7, size - 2 - dist*(len(grp)-1)} {
					if first < 0 || first+dist*(len(grp)-1) >= size-1 {
						continue
					}
					t := make([]byte, size-1)
					for k, v := range grp {
						t[first+k*dist] = v
					}
					tails = append(tails, t)
				}
			}
		}
		for _, t := range tails {
			b := append([]byte{0xC0}, t...)
			res.Evals++
			if size == 48 {
				if out, err := crypto.AggregateBLSSignatures([]crypto.Signature{b}); err == nil {
					add("AcceptsExactlyCanonical", fmt.Sprintf("AggregateBLSSignatures accepts the non-canonical infinity encoding %x (returns %x)", b, []byte(out)))
				}
			} else {
				if pk, err := crypto.DecodePublicKey(crypto.BLSBLS12381, b); err == nil {
					add("AcceptsExactlyCanonical", fmt.Sprintf("DecodePublicKey(BLS) accepts the non-canonical infinity encoding %x (re-encodes to %x)", b, pk.Encode()))
				}
			}
		}
	}
	// decoding is a function of the bytes alone, whatever was decoded before: a key, then the opposite key (the same bytes but one
	// header bit), then the first again, the same for a key and its double, and for the identity in between
	for rep := 0; rep < 3; rep++ {
		x := w.Scalar(fmt.Sprintf("dec-seq-%d", rep))
		a := w.SK(x).PublicKey().Encode()
		neg := w.SK(new(big.Int).Sub(ref.R, x)).PublicKey().Encode()
		dbl := w.SK(new(big.Int).Mod(new(big.Int).Lsh(x, 1), ref.R)).PublicKey().Encode()
		applyInf := make([]byte, 96)
		applyInf[0] = 0xC0
		var first crypto.PublicKey
		for k, b := range [][]byte{a, neg, a, dbl, applyInf, neg, a} {
			pk, err := crypto.DecodePublicKey(crypto.BLSBLS12381, append([]byte(nil), b...))
			res.Evals++
			if err != nil {
				add("AcceptsExactlyCanonical", fmt.Sprintf("canonical key encoding %x refused as decode number %d of a sequence: %v", b, k+1, err))
				continue
			}
			if !bytes.Equal(pk.Encode(), b) {
				add("ReencodeIsInput", fmt.Sprintf("decode number %d of a sequence (key, opposite key, key, double, identity, ...): %x re-encodes to %x", k+1, b, pk.Encode()))
			}
			if k == 0 {
				first = pk
			} else if pk.Equals(first) != bytes.Equal(b, a) {
				add("ReencodeIsInput", fmt.Sprintf("decode number %d of a sequence: Equals(first key) = %v for bytes %x vs %x", k+1, pk.Equals(first), b, a))
			}
		}
	}
	// x >= p at EVERY magnitude of x - p: for each bit position b, x - p next to 2^b (just above, just below, a random value of
	// that bit length), always the abscissa of a curve point, so that "x is not reduced" is the only reason to refuse the string.
	// AggregateBLSSignatures parses without a subgroup test: a comparison with p that goes wrong anywhere shows as an acceptance.
	{
		room := new(big.Int).Sub(new(big.Int).Lsh(big.NewInt(1), 381), ref.P)
		for b := 0; b <= room.BitLen(); b++ {
			for form := 0; form < 3; form++ {
				kk := new(big.Int).Lsh(big.NewInt(1), uint(b))
				switch form {
				case 1:
					kk.Sub(kk, big.NewInt(int64(1+w.Rng.Intn(64))))
				case 2:
					kk.Add(kk, new(big.Int).Rand(w.Rng, kk))
				}
				if kk.Sign() < 0 || kk.Cmp(room) >= 0 {
					continue
				}
				for tries := 0; tries < 200; tries++ {
					if _, ok := ref.FpSqrt(ref.FpAdd(ref.FpMul(ref.FpMul(kk, kk), kk), big.NewInt(4))); ok {
						break
					}
					kk.Add(kk, big.NewInt(1))
				}
				if kk.Cmp(room) >= 0 {
					continue
				}
				pb := make([]byte, 48)
				new(big.Int).Add(ref.P, kk).FillBytes(pb)
				pb[0] |= 0x80 | byte(w.Rng.Intn(2))<<5
				res.Evals++
				if out, err := crypto.AggregateBLSSignatures([]crypto.Signature{pb}); err == nil {
					add("AcceptsExactlyCanonical", fmt.Sprintf("AggregateBLSSignatures accepts %x, whose x is p + (a value of %d bits) (returns %x)", pb, kk.BitLen(), []byte(out)))
				}
			}
		}
	}
	// signature strings inside LISTS: every entry is parsed on its own, so entries whose lengths compensate each other, or one
	// bad entry at any position among valid ones, are rejected (aggregation, batch verification, threshold reconstruction)
	{
		h := crypto.NewExpandMsgXOFKMAC128("t")
		msg := []byte("m")
		tsks, tpks, tgpk, terr := crypto.BLSThresholdKeyGen(4, 2, w.randBytes(32))
		if terr != nil {
			add("ThresholdKeyGen", terr.Error())
			return
		}
		_ = tgpk
		var vs []crypto.Signature
		for i := range tsks {
			sg, _ := tsks[i].Sign(msg, h)
			vs = append(vs, sg)
		}
		cat := func(a ...[]byte) []byte {
			var o []byte
			for _, x := range a {
				o = append(o, x...)
			}
			return o
		}
		xgep := w.BadEncoding("xgep", vs[0])
		lists := map[string][]crypto.Signature{
			"47+49":        {vs[0][:47], cat(vs[0][47:], vs[1])},
			"0+96":         {{}, cat(vs[0], vs[1])},
			"nil+48+96":    {nil, vs[2], cat(vs[0], vs[1])},
			"49+47":        {cat(vs[0], vs[1][:1]), vs[1][1:]},
			"1+48+95":      {vs[0][:1], vs[2], cat(vs[0][1:], vs[1])},
			"48+48+47+49":  {vs[2], vs[3], vs[0][:47], cat(vs[0][47:], vs[1])},
			"bad-first":    {xgep, vs[1], vs[2]},
			"bad-middle":   {vs[0], xgep, vs[2]},
			"bad-last":     {vs[0], vs[1], xgep},
			"short-last":   {vs[0], vs[1], vs[2][:47]},
			"long-last":    {vs[0], vs[1], cat(vs[2], []byte{0})},
			"long-first":   {cat(vs[0], []byte{0}), vs[1], vs[2]},
			"empty-middle": {vs[0], {}, vs[2]},
		}
		for name, l := range lists {
			res.Evals += 3
			if out, err := crypto.AggregateBLSSignatures(l); err == nil {
				add("AcceptsExactlyCanonical", fmt.Sprintf("AggregateBLSSignatures accepts the list %q (entry lengths %v) and returns %x: entries that are not 48-byte canonical encodings must be rejected", name, lens(l), []byte(out)))
			} else if !crypto.IsInvalidSignatureError(err) && !crypto.IsInvalidInputsError(err) {
				add("RejectionClass", fmt.Sprintf("AggregateBLSSignatures on the list %q: %v", name, err))
			}
			// batch verification: the malformed entries are false, the valid ones true (same positions as individual Verify)
			if len(l) <= len(tpks) {
				oks, err := crypto.BatchVerifyBLSSignaturesOneMessage(tpks[:len(l)], l, msg, h)
				for i := range l {
					ind, _ := tpks[i].Verify(l[i], msg, h)
					if err == nil && i < len(oks) && oks[i] != ind {
						add("AcceptsExactlyCanonical", fmt.Sprintf("BatchVerify on the list %q: index %d is %v, individual Verify says %v", name, i, oks[i], ind))
					}
				}
			}
			// threshold reconstruction from exactly t+1 = 3 entries
			if len(l) == 3 {
				if ts, err := crypto.BLSReconstructThresholdSignature(4, 2, l, []int{0, 1, 2}); err == nil {
					if ok, _ := tgpk.Verify(ts, msg, h); !ok || name != "" {
						add("AcceptsExactlyCanonical", fmt.Sprintf("BLSReconstructThresholdSignature accepts the list %q (entry lengths %v)", name, lens(l)))
					}
				}
			}
		}
	}
	return
}

func lens(l []crypto.Signature) []int {
	o := make([]int, len(l))
	for i := range l {
		o[i] = len(l[i])
	}
	return o
}
