package blsx

import (
	"bytes"
	"encoding/json"
	"fmt"
	"math/big"

	crypto "github.com/onflow/crypto"
	"verifharness/ref"
)

// ---------------- C04: cases of specs/bls/BLSAggregation.tla

func init() {
	Runners["aggregation"] = runAggregation
	Runners["aggregation-large"] = runAggregationLarge
	Runners["aggregation-origins"] = runAggregationOrigins
	Runners["aggregation-scalars"] = runAggregationScalars
}

type aggrCase struct {
	Keys            []string       `json:"keys"`
	Cut             int            `json:"cut"`
	Total           map[string]int `json:"total"`
	PartA           map[string]int `json:"partA"`
	PartB           map[string]int `json:"partB"`
	TotalIsIdentity bool           `json:"totalIsIdentity"`
	AIsIdentity     bool           `json:"aIsIdentity"`
}

// G2Bytes: reference encoding of s*g2 in the coefficient order the library uses (probed once, finding D5 aside)
func (w *World) G2Bytes(s *big.Int) []byte {
	return ref.G2Gen.Mul(s).Compress(w.G2Order == "zcash")
}

func (w *World) baseScalar(name string) *big.Int {
	if name == "nx1" {
		return new(big.Int).Sub(ref.R, w.Scalar("x1"))
	}
	return w.Scalar(name)
}

func runAggregation(raw json.RawMessage, seed int64) (res Result) {
	res.Violations = []Violation{}
	var c aggrCase
	if err := json.Unmarshal(raw, &c); err != nil {
		panic(err)
	}
	defer func() {
		if r := recover(); r != nil {
			res.Violations = append(res.Violations, Violation{"C09", "NoPanic", fmt.Sprintf("aggregation case %s: panic: %v", string(raw), r)})
		}
	}()
	w := NewWorld(seed)
	add := func(pred, d string) {
		res.Violations = append(res.Violations, Violation{"C04", pred, fmt.Sprintf("%s [keys %v cut %d seed %d]", d, c.Keys, c.Cut, seed)})
	}
	m := w.Msg("m1")
	h := w.Hasher("kmac", "m1")
	H := w.HashPoint("kmac", "m1")
	n := len(c.Keys)
	sks := make([]crypto.PrivateKey, n)
	pks := make([]crypto.PublicKey, n)
	sigs := make([]crypto.Signature, n)
	for i, k := range c.Keys {
		s := w.baseScalar(k)
		sks[i] = w.SK(s)
		pks[i] = sks[i].PublicKey()
		switch (int(seed) + i) % 4 {
		case 0: // a decoded copy: another object, same point
			pks[i], _ = crypto.DecodePublicKey(crypto.BLSBLS12381, pks[i].Encode())
		case 1: // the same point in a non-affine internal representation (the output of an earlier removal)
			if k == "nx1" {
				pks[i] = w.PK(map[string]int{"x1": -1}, 3)
			} else {
				pks[i] = w.PK(map[string]int{k: 1}, 3)
			}
		}
		sg, err := sks[i].Sign(m.Data, h)
		if err != nil {
			add("Sign", err.Error())
			return
		}
		sigs[i] = sg
	}
	total := w.KeyScalar(c.Total)
	sa := w.KeyScalar(c.PartA)
	wantPk := w.G2Bytes(total)
	wantSig := H.Mul(total).Compress()
	if (total.Sign() == 0) != c.TotalIsIdentity {
		add("ModelConcretisation", "formal and concrete identity disagree")
		return
	}
	// public key of the aggregated private key = aggregate of the public keys = reference
	aggSk, err := crypto.AggregateBLSPrivateKeys(sks)
	res.Evals++
	if err != nil {
		add("AggregatePrivateKeys", err.Error())
		return
	}
	aggPk, err := crypto.AggregateBLSPublicKeys(pks)
	if err != nil {
		add("AggregatePublicKeys", err.Error())
		return
	}
	if !bytes.Equal(aggPk.Encode(), wantPk) {
		add("PublicKeyHomomorphism", fmt.Sprintf("AggregateBLSPublicKeys encodes to %x, the reference sum is %x", aggPk.Encode(), wantPk))
	}
	if !bytes.Equal(aggSk.PublicKey().Encode(), wantPk) || !aggSk.PublicKey().Equals(aggPk) || !aggPk.Equals(aggSk.PublicKey()) {
		add("PrivatePublicConsistency", "public key of AggregateBLSPrivateKeys differs from AggregateBLSPublicKeys / the reference")
	}
	// signatures
	aggSig, err := crypto.AggregateBLSSignatures(sigs)
	res.Evals++
	if err != nil {
		add("AggregateSignatures", err.Error())
		return
	}
	if !bytes.Equal(aggSig, wantSig) {
		add("SignatureHomomorphism", fmt.Sprintf("AggregateBLSSignatures = %x, the reference sum is %x", []byte(aggSig), wantSig))
	}
	s2, err := aggSk.Sign(m.Data, h)
	if err != nil || !bytes.Equal(s2, wantSig) {
		add("SignatureHomomorphism", fmt.Sprintf("signature by the aggregated private key = %x (err %v), reference %x", []byte(s2), err, wantSig))
	}
	if crypto.IsBLSSignatureIdentity(aggSig) != c.TotalIsIdentity {
		add("IdentityExact", fmt.Sprintf("IsBLSSignatureIdentity = %v, the sum is identity: %v", crypto.IsBLSSignatureIdentity(aggSig), c.TotalIsIdentity))
	}
	if c.TotalIsIdentity {
		if !aggPk.Equals(crypto.IdentityBLSPublicKey()) || !bytes.Equal(aggPk.Encode(), ref.G2Inf.Compress(true)) {
			add("IdentityExact", "aggregated key of a vanishing sum is not the identity key")
		}
		if ok, _ := aggPk.Verify(aggSig, m.Data, h); ok {
			add("IdentityExact", "verification under the aggregated identity key succeeded")
		}
	} else if ok, err := aggPk.Verify(aggSig, m.Data, h); !ok || err != nil {
		add("AggregateVerifies", fmt.Sprintf("aggregate signature rejected under the aggregate key (%v, %v)", ok, err))
	}
	// order independence
	perm := w.Rng.Perm(n)
	p2 := make([]crypto.PublicKey, n)
	g2 := make([]crypto.Signature, n)
	k2 := make([]crypto.PrivateKey, n)
	for i, j := range perm {
		p2[i], g2[i], k2[i] = pks[j], sigs[j], sks[j]
	}
	if a, err := crypto.AggregateBLSPublicKeys(p2); err != nil || !bytes.Equal(a.Encode(), wantPk) {
		add("OrderIndependent", "AggregateBLSPublicKeys of the permuted list")
	}
	if a, err := crypto.AggregateBLSSignatures(g2); err != nil || !bytes.Equal(a, wantSig) {
		add("OrderIndependent", "AggregateBLSSignatures of the permuted list")
	}
	if a, err := crypto.AggregateBLSPrivateKeys(k2); err != nil || !a.Equals(aggSk) {
		add("OrderIndependent", "AggregateBLSPrivateKeys of the permuted list")
	}
	res.Evals += 3
	// nesting and removal along the cut A | B
	if c.Cut > 0 && c.Cut < n {
		pa, _ := crypto.AggregateBLSPublicKeys(pks[:c.Cut])
		pb, _ := crypto.AggregateBLSPublicKeys(pks[c.Cut:])
		nested, err := crypto.AggregateBLSPublicKeys([]crypto.PublicKey{pa, pb})
		if err != nil || !bytes.Equal(nested.Encode(), wantPk) {
			add("NestingIndependent", "AggregateBLSPublicKeys([Agg(A), Agg(B)])")
		}
		ga, _ := crypto.AggregateBLSSignatures(sigs[:c.Cut])
		gb, _ := crypto.AggregateBLSSignatures(sigs[c.Cut:])
		ng, err := crypto.AggregateBLSSignatures([]crypto.Signature{ga, gb})
		if err != nil || !bytes.Equal(ng, wantSig) {
			add("NestingIndependent", "AggregateBLSSignatures([Agg(A), Agg(B)])")
		}
		ka, _ := crypto.AggregateBLSPrivateKeys(sks[:c.Cut])
		kb, _ := crypto.AggregateBLSPrivateKeys(sks[c.Cut:])
		nk, err := crypto.AggregateBLSPrivateKeys([]crypto.PrivateKey{ka, kb})
		if err != nil || !nk.Equals(aggSk) {
			add("NestingIndependent", "AggregateBLSPrivateKeys([Agg(A), Agg(B)])")
		}
		res.Evals += 3
	}
	if c.Cut > 0 {
		rem, err := crypto.RemoveBLSPublicKeys(aggPk, pks[c.Cut:])
		res.Evals++
		wantA := w.G2Bytes(sa)
		if err != nil || !bytes.Equal(rem.Encode(), wantA) {
			add("RemovalInverse", fmt.Sprintf("RemoveBLSPublicKeys(Agg(A+B), B) encodes to %x (err %v), Agg(A) is %x", encOrNil(rem), err, wantA))
		} else {
			pa, _ := crypto.AggregateBLSPublicKeys(pks[:c.Cut])
			if !rem.Equals(pa) || !pa.Equals(rem) {
				add("RemovalInverse", "Equals() between Remove(Agg(A+B), B) and Agg(A) is false")
			}
			if c.AIsIdentity {
				if ok, _ := rem.Verify(ref.G1Inf.Compress(), m.Data, h); ok {
					add("IdentityExact", "the identity key obtained by removal verifies the identity signature")
				}
				if !rem.Equals(crypto.IdentityBLSPublicKey()) {
					add("IdentityExact", "the key obtained by removing everything is not Equal to the identity key")
				}
			}
		}
	}
	// errors: empty lists, malformed signature, non-BLS key
	if seed%4 == 0 {
		if _, err := crypto.AggregateBLSSignatures(nil); !crypto.IsBLSAggregateEmptyListError(err) {
			add("TypedErrors", fmt.Sprintf("AggregateBLSSignatures(empty): %v", err))
		}
		if _, err := crypto.AggregateBLSPublicKeys(nil); !crypto.IsBLSAggregateEmptyListError(err) {
			add("TypedErrors", fmt.Sprintf("AggregateBLSPublicKeys(empty): %v", err))
		}
		if _, err := crypto.AggregateBLSPrivateKeys(nil); !crypto.IsBLSAggregateEmptyListError(err) {
			add("TypedErrors", fmt.Sprintf("AggregateBLSPrivateKeys(empty): %v", err))
		}
		for _, cls := range []string{"uncompressed", "xgep", "nonresidue", "len47", "len49", "inf+lastbyte", "len0"} {
			bad := append(append([]crypto.Signature{}, sigs...), w.BadEncoding(cls, sigs[0]))
			if _, err := crypto.AggregateBLSSignatures(bad); !crypto.IsInvalidSignatureError(err) {
				add("TypedErrors", fmt.Sprintf("AggregateBLSSignatures with a %s signature: %v", cls, err))
			}
		}
		esk, _ := crypto.GeneratePrivateKey(crypto.ECDSASecp256k1, make([]byte, 32))
		if _, err := crypto.AggregateBLSPublicKeys(append(append([]crypto.PublicKey{}, pks...), esk.PublicKey())); !crypto.IsNotBLSKeyError(err) {
			add("TypedErrors", fmt.Sprintf("AggregateBLSPublicKeys with an ECDSA key: %v", err))
		}
		if _, err := crypto.AggregateBLSPrivateKeys(append(append([]crypto.PrivateKey{}, sks...), esk)); !crypto.IsNotBLSKeyError(err) {
			add("TypedErrors", fmt.Sprintf("AggregateBLSPrivateKeys with an ECDSA key: %v", err))
		}
		if _, err := crypto.RemoveBLSPublicKeys(aggPk, []crypto.PublicKey{esk.PublicKey()}); !crypto.IsNotBLSKeyError(err) {
			add("TypedErrors", fmt.Sprintf("RemoveBLSPublicKeys with an ECDSA key: %v", err))
		}
		// the aggregated key is checked whatever the removal list holds: empty, nil, BLS keys, a foreign key
		for _, lst := range [][]crypto.PublicKey{nil, {}, pks[:1], {esk.PublicKey()}} {
			if k, err := crypto.RemoveBLSPublicKeys(esk.PublicKey(), lst); !crypto.IsNotBLSKeyError(err) || k != nil {
				add("TypedErrors", fmt.Sprintf("RemoveBLSPublicKeys(a non-BLS key, a list of %d keys) = (%v, %v), not the not-a-BLS-key error", len(lst), k, err))
			}
		}
		if k, err := crypto.RemoveBLSPublicKeys(aggPk, nil); err != nil || !k.Equals(aggPk) {
			add("RemovalInverse", fmt.Sprintf("RemoveBLSPublicKeys(key, nil) = (%v, %v), not the key itself", k, err))
		}
		if _, err := crypto.RemoveBLSPublicKeys(esk.PublicKey(), pks); !crypto.IsNotBLSKeyError(err) {
			add("TypedErrors", fmt.Sprintf("RemoveBLSPublicKeys from an ECDSA key: %v", err))
		}
		res.Evals += 14
	}
	return
}

func encOrNil(pk crypto.PublicKey) []byte {
	if pk == nil {
		return nil
	}
	return pk.Encode()
}

// runAggregationLarge: the homomorphism laws on LONG lists (127, 128, 129, 255, 256, 257, ... entries: internal batch sizes),
// with the one malformed signature of a list at every region of it
func runAggregationLarge(raw json.RawMessage, seed int64) (res Result) {
	res.Violations = []Violation{}
	defer func() {
		if r := recover(); r != nil {
			res.Violations = append(res.Violations, Violation{"C09", "NoPanic", fmt.Sprintf("large aggregation: panic: %v", r)})
		}
	}()
	w := NewWorld(seed)
	add := func(pred, d string) {
		if len(res.Violations) < 5 {
			res.Violations = append(res.Violations, Violation{"C04", pred, fmt.Sprintf("%s [seed %d]", d, seed)})
		}
	}
	m := w.Msg("m1")
	h := w.Hasher("kmac", "m1")
	H := w.HashPoint("kmac", "m1")
	sizes := []int{127, 128, 129, 255, 256, 257, 130 + w.Rng.Intn(200), 511, 513, 1023, 1024, 1025, 2048}
	const pool = 24
	var sks []crypto.PrivateKey
	var scal []*big.Int
	var sigs []crypto.Signature
	for i := 0; i < pool; i++ {
		s := w.Scalar(fmt.Sprintf("L%d", i))
		sk := w.SK(s)
		sg, err := sk.Sign(m.Data, h)
		if err != nil {
			panic(err)
		}
		sks, scal, sigs = append(sks, sk), append(scal, s), append(sigs, sg)
	}
	// middle-sized lists (around 8, 16, 32, 64 entries: where an implementation may switch to a bulk strategy) that contain identity
	// encodings, opposite pairs and repeated entries at chosen positions: the sum does not care what the neighbours are
	{
		idSig := crypto.Signature(ref.G1Inf.Compress())
		idKey := w.PK(map[string]int{}, int(seed))
		for _, n := range []int{7, 8, 9, 15, 16, 17, 18, 31, 32, 33, 40, 63, 64, 65} {
			for _, shape := range []string{"id@0", "id@1", "id@mid", "id@last", "ids@1,2", "id-everywhere-but-0", "opp@1,2", "opp@0,last", "dup@1,2", "id@1+opp@3,4"} {
				sum := new(big.Int)
				lsg := make([]crypto.Signature, n)
				lpk := make([]crypto.PublicKey, n)
				put := func(i, k int, sign int) { // entry i := sign * pool element k (sign 0: the identity)
					switch sign {
					case 0:
						lsg[i], lpk[i] = idSig, idKey
					case 1:
						lsg[i], lpk[i] = sigs[k], sks[k].PublicKey()
						sum.Add(sum, scal[k])
					default:
						neg := new(big.Int).Sub(ref.R, scal[k])
						lsg[i], lpk[i] = H.Mul(neg).Compress(), w.SK(neg).PublicKey()
						sum.Add(sum, neg)
					}
				}
				for i := 0; i < n; i++ {
					put(i, (i*7+int(seed))%pool, 1)
				}
				reput := func(i, k, sign int) {
					sum.Sub(sum, scal[(i*7+int(seed))%pool])
					put(i, k, sign)
				}
				switch shape {
				case "id@0":
					reput(0, 0, 0)
				case "id@1":
					reput(1, 0, 0)
				case "id@mid":
					reput(n/2, 0, 0)
				case "id@last":
					reput(n-1, 0, 0)
				case "ids@1,2":
					reput(1, 0, 0)
					reput(2, 0, 0)
				case "id-everywhere-but-0":
					for i := 1; i < n; i++ {
						reput(i, 0, 0)
					}
				case "opp@1,2":
					reput(1, 3, 1)
					reput(2, 3, -1)
				case "opp@0,last":
					reput(0, 4, 1)
					reput(n-1, 4, -1)
				case "dup@1,2":
					reput(1, 5, 1)
					reput(2, 5, 1)
				default:
					reput(1, 0, 0)
					reput(3, 6, 1)
					reput(4, 6, -1)
				}
				sum.Mod(sum, ref.R)
				res.Evals += 2
				wantSig := H.Mul(sum).Compress()
				if got, err := crypto.AggregateBLSSignatures(lsg); err != nil || !bytes.Equal(got, wantSig) {
					add("SignatureHomomorphism", fmt.Sprintf("AggregateBLSSignatures of %d signatures (%s): %x (err %v), the reference sum is %x", n, shape, []byte(got), err, wantSig))
				}
				if n%8 != 1 && shape != "id@1" && shape != "opp@1,2" { // the key side on a third of the sizes: reference G2 multiplications are the cost
					continue
				}
				if got, err := crypto.AggregateBLSPublicKeys(lpk); err != nil || !bytes.Equal(got.Encode(), w.G2Bytes(sum)) {
					add("PublicKeyHomomorphism", fmt.Sprintf("AggregateBLSPublicKeys of %d keys (%s) differs from the reference sum (err %v)", n, shape, err))
				}
			}
		}
	}
	for _, n := range sizes {
		sum := new(big.Int)
		lsk := make([]crypto.PrivateKey, n)
		lpk := make([]crypto.PublicKey, n)
		lsg := make([]crypto.Signature, n)
		for i := 0; i < n; i++ {
			k := (i*7 + int(seed)) % pool
			if i >= 128 {
				k = (i*5 + 3) % pool // entries beyond the first 128 differ from the entries at the same offset of the first 128
			}
			sum.Add(sum, scal[k])
			lsk[i], lpk[i], lsg[i] = sks[k], sks[k].PublicKey(), sigs[k]
		}
		sum.Mod(sum, ref.R)
		res.Evals += 3
		wantSig := H.Mul(sum).Compress()
		if got, err := crypto.AggregateBLSSignatures(lsg); err != nil || !bytes.Equal(got, wantSig) {
			add("SignatureHomomorphism", fmt.Sprintf("AggregateBLSSignatures of %d signatures: %x (err %v), the reference sum is %x", n, []byte(got), err, wantSig))
		}
		if got, err := crypto.AggregateBLSPublicKeys(lpk); err != nil || !bytes.Equal(got.Encode(), w.G2Bytes(sum)) {
			add("PublicKeyHomomorphism", fmt.Sprintf("AggregateBLSPublicKeys of %d keys differs from the reference sum (err %v)", n, err))
		}
		if got, err := crypto.AggregateBLSPrivateKeys(lsk); err != nil || !bytes.Equal(got.Encode(), scalarBytes(sum)) {
			add("PrivateKeyHomomorphism", fmt.Sprintf("AggregateBLSPrivateKeys of %d keys differs from the reference sum (err %v)", n, err))
		}
		// removal of a long list from the aggregate leaves the rest
		if n > 130 {
			agg, _ := crypto.AggregateBLSPublicKeys(lpk)
			rest := new(big.Int)
			for i := 0; i < 3; i++ {
				rest.Add(rest, scal[(i*7+int(seed))%pool])
			}
			rest.Mod(rest, ref.R)
			if got, err := crypto.RemoveBLSPublicKeys(agg, lpk[3:]); err != nil || !bytes.Equal(got.Encode(), w.G2Bytes(rest)) {
				add("RemovalInverse", fmt.Sprintf("RemoveBLSPublicKeys of %d keys from an aggregate of %d differs from the reference (err %v)", n-3, n, err))
			}
			res.Evals++
		}
		// one malformed signature anywhere in the list is reported
		for _, pos := range []int{0, 1, 126, 127, 128, 129, n / 2, n - 1024, n - 1023, n - 2, n - 1} {
			if pos < 0 {
				continue
			}
			if pos >= n {
				continue
			}
			bad := append([]crypto.Signature(nil), lsg...)
			bad[pos] = w.BadEncoding("xgep", lsg[pos])
			res.Evals++
			if _, err := crypto.AggregateBLSSignatures(bad); err == nil {
				add("MalformedReported", fmt.Sprintf("AggregateBLSSignatures of %d signatures accepts a malformed signature at position %d", n, pos))
			}
		}
	}
	return
}

type aggProc struct {
	me  int
	out *[]aggMsg
}
type aggMsg struct {
	from, to int
	data     []byte
}

func (p aggProc) PrivateSend(d int, b []byte) {
	*p.out = append(*p.out, aggMsg{p.me, d, append([]byte(nil), b...)})
}
func (p aggProc) Broadcast(b []byte) {
	*p.out = append(*p.out, aggMsg{p.me, -1, append([]byte(nil), b...)})
}
func (aggProc) Disqualify(int, string)      {}
func (aggProc) FlagMisbehavior(int, string) {}

// dkgKeys: the private / public key shares of an all-honest Joint-Feldman run (public key objects as End() returns them)
func dkgKeys(n, t int, seed int64) ([]crypto.PrivateKey, [][]crypto.PublicKey) {
	var msgs []aggMsg
	nodes := make([]crypto.DKGState, n)
	for i := range nodes {
		nodes[i], _ = crypto.NewJointFeldman(n, t, i, aggProc{i, &msgs})
	}
	for i := range nodes {
		sd := make([]byte, 32)
		sd[0], sd[1] = byte(i), byte(seed)
		nodes[i].Start(sd)
	}
	for k := 0; k < len(msgs); k++ {
		m := msgs[k]
		for j := range nodes {
			if j == m.from {
				continue
			}
			if m.to == -1 {
				nodes[j].HandleBroadcastMsg(m.from, m.data)
			} else if m.to == j {
				nodes[j].HandlePrivateMsg(m.from, m.data)
			}
		}
	}
	var sks []crypto.PrivateKey
	var pkss [][]crypto.PublicKey
	for i := range nodes {
		nodes[i].NextTimeout()
		nodes[i].NextTimeout()
		sk, _, pks, err := nodes[i].End()
		if err != nil {
			panic("harness: all-honest DKG failed: " + err.Error())
		}
		sks = append(sks, sk)
		pkss = append(pkss, pks)
	}
	return sks, pkss
}

// runAggregationOrigins: the aggregation laws over public-key OBJECTS of every provenance - generated, decoded, aggregated, left over
// after a removal, public key shares of BLSThresholdKeyGen and of a DKG run (results of point arithmetic in the C layer) - the
// law does not depend on how the object came about.  Expected values are reference multiples of the generator.
func runAggregationOrigins(raw json.RawMessage, seed int64) (res Result) {
	res.Violations = []Violation{}
	defer func() {
		if r := recover(); r != nil {
			res.Violations = append(res.Violations, Violation{"C09", "NoPanic", fmt.Sprintf("aggregation over key origins: panic: %v", r)})
		}
	}()
	w := NewWorld(seed)
	add := func(pred, d string) {
		if len(res.Violations) < 6 {
			res.Violations = append(res.Violations, Violation{"C04", pred, fmt.Sprintf("%s [seed %d]", d, seed)})
		}
	}
	type obj struct {
		origin string
		pk     crypto.PublicKey
		s      *big.Int
	}
	var objs []obj
	sc := func(sk crypto.PrivateKey) *big.Int { return new(big.Int).SetBytes(sk.Encode()) }
	// threshold key generation
	tsk, tpk, _, err := crypto.BLSThresholdKeyGen(5, 2, w.randBytes(32))
	if err != nil {
		panic(err)
	}
	for i := range tsk {
		objs = append(objs, obj{"share of BLSThresholdKeyGen", tpk[i], sc(tsk[i])})
	}
	// DKG
	dsk, dpks := dkgKeys(3, 1, seed)
	for i := range dsk {
		objs = append(objs, obj{"public key share returned by a DKG End()", dpks[(i+1)%3][i], sc(dsk[i])})
	}
	// generated, decoded, aggregated, remainder of a removal
	a, b := w.Scalar("oa"), w.Scalar("ob")
	objs = append(objs, obj{"generated", w.SK(a).PublicKey(), a})
	dec, _ := crypto.DecodePublicKey(crypto.BLSBLS12381, w.SK(b).PublicKey().Encode())
	objs = append(objs, obj{"decoded", dec, b})
	ab, _ := crypto.AggregateBLSPublicKeys([]crypto.PublicKey{w.SK(a).PublicKey(), w.SK(b).PublicKey()})
	objs = append(objs, obj{"aggregated", ab, new(big.Int).Mod(new(big.Int).Add(a, b), ref.R)})
	rem, _ := crypto.RemoveBLSPublicKeys(ab, []crypto.PublicKey{w.SK(b).PublicKey()})
	objs = append(objs, obj{"remainder of a removal", rem, a})
	askk, _ := crypto.AggregateBLSPrivateKeys([]crypto.PrivateKey{w.SK(a), w.SK(b)})
	objs = append(objs, obj{"public key of an aggregated private key", askk.PublicKey(), new(big.Int).Mod(new(big.Int).Add(a, b), ref.R)})
	m := w.Msg("m1")
	H := w.HashPoint("kmac", "m1")
	// RemoveBLSPublicKeys is subtraction in G2, whatever the relation between the keys: x - (-x) = 2x (a doubling), x - x = 0,
	// 2x - x = x, x - y - (x - y) ...
	{
		neg := func(v *big.Int) *big.Int { return new(big.Int).Mod(new(big.Int).Neg(v), ref.R) }
		mod := func(v *big.Int) *big.Int { return new(big.Int).Mod(v, ref.R) }
		pkOf := func(v *big.Int, variant int) crypto.PublicKey { return w.SK(v).PublicKey() }
		two := func(v *big.Int) *big.Int { return mod(new(big.Int).Lsh(v, 1)) }
		type rm struct {
			name string
			from *big.Int
			take []*big.Int
		}
		cases := []rm{
			{"x - (-x)", a, []*big.Int{neg(a)}},
			{"x - x", a, []*big.Int{a}},
			{"2x - x", two(a), []*big.Int{a}},
			{"x - (-x) - (-x)", a, []*big.Int{neg(a), neg(a)}},
			{"x - y - (-y)", a, []*big.Int{b, neg(b)}},
			{"(x+y) - (-x) - (-y)", mod(new(big.Int).Add(a, b)), []*big.Int{neg(a), neg(b)}},
			{"x - 2x", a, []*big.Int{two(a)}},
		}
		for _, c := range cases {
			want := new(big.Int).Set(c.from)
			var lst []crypto.PublicKey
			for _, tk := range c.take {
				want.Sub(want, tk)
				lst = append(lst, pkOf(tk, 0))
			}
			want.Mod(want, ref.R)
			res.Evals++
			got, err := crypto.RemoveBLSPublicKeys(pkOf(c.from, 0), lst)
			if err != nil || !bytes.Equal(got.Encode(), w.G2Bytes(want)) {
				add("RemovalInverse", fmt.Sprintf("RemoveBLSPublicKeys computing %s differs from the reference difference (err %v)", c.name, err))
				continue
			}
			if want.Sign() != 0 {
				if ok, err := got.Verify(H.Mul(want).Compress(), m.Data, w.Hasher("kmac", "m1")); !ok || err != nil {
					add("RemovalInverse", fmt.Sprintf("the key computed as %s rejects the signature of its scalar (%v, %v)", c.name, ok, err))
				}
			}
		}
	}
	// every object alone, every pair, and random triples / quadruples
	var sets [][]int
	for i := range objs {
		sets = append(sets, []int{i})
		for j := i + 1; j < len(objs); j++ {
			sets = append(sets, []int{i, j}, []int{j, i})
		}
	}
	for k := 0; k < 30; k++ {
		n := 3 + w.Rng.Intn(3)
		var st []int
		for len(st) < n {
			st = append(st, w.Rng.Intn(len(objs)))
		}
		sets = append(sets, st)
	}
	for _, st := range sets {
		sum := new(big.Int)
		var pks []crypto.PublicKey
		var names []string
		for _, i := range st {
			sum.Add(sum, objs[i].s)
			pks = append(pks, objs[i].pk)
			names = append(names, objs[i].origin)
		}
		sum.Mod(sum, ref.R)
		res.Evals += 2
		agg, err := crypto.AggregateBLSPublicKeys(pks)
		if err != nil || !bytes.Equal(agg.Encode(), w.G2Bytes(sum)) {
			add("PublicKeyHomomorphism", fmt.Sprintf("AggregateBLSPublicKeys over keys of origins %v differs from the reference sum (err %v)", names, err))
			continue
		}
		if sum.Sign() != 0 {
			if ok, err := crypto.VerifyBLSSignatureOneMessage(pks, H.Mul(sum).Compress(), m.Data, w.Hasher("kmac", "m1")); !ok || err != nil {
				add("PublicKeyHomomorphism", fmt.Sprintf("VerifyBLSSignatureOneMessage over keys of origins %v rejects the signature of the summed key (%v, %v)", names, ok, err))
			}
		}
		if len(st) >= 2 {
			res.Evals++
			back, err := crypto.RemoveBLSPublicKeys(agg, pks[1:])
			if err != nil || !bytes.Equal(back.Encode(), w.G2Bytes(objs[st[0]].s)) {
				add("RemovalInverse", fmt.Sprintf("RemoveBLSPublicKeys(Aggregate(keys of origins %v), all but the first) is not the first key (err %v)", names, err))
			}
		}
	}
	return
}

// runAggregationScalars: AggregateBLSPrivateKeys (and with it the scalar summation shared with Joint-Feldman) on scalars that sit on
// the word boundaries of a multi-limb accumulator (2^64k - 1, 2^64k, words of all ones, r - those), in every order of every list of
// two and three and in seeded longer lists: the result is the sum modulo the group order, whatever the order of the inputs.
func runAggregationScalars(raw json.RawMessage, seed int64) (res Result) {
	res.Violations = []Violation{}
	defer func() {
		if r := recover(); r != nil {
			res.Violations = append(res.Violations, Violation{"C09", "NoPanic", fmt.Sprintf("scalar aggregation: panic: %v", r)})
		}
	}()
	w := NewWorld(seed)
	add := func(pred, d string) {
		if len(res.Violations) < 5 {
			res.Violations = append(res.Violations, Violation{"C04", pred, fmt.Sprintf("%s [seed %d]", d, seed)})
		}
	}
	one := big.NewInt(1)
	var pool []*big.Int
	put := func(x *big.Int) {
		x = new(big.Int).Mod(x, ref.R)
		if x.Sign() != 0 {
			pool = append(pool, x)
		}
	}
	for _, k := range []uint{32, 64, 128, 192, 254} {
		p := new(big.Int).Lsh(one, k)
		put(p)
		put(new(big.Int).Sub(p, one))
		put(new(big.Int).Add(p, one))
		put(new(big.Int).Sub(ref.R, p))
		put(new(big.Int).Sub(ref.R, new(big.Int).Sub(p, one)))
	}
	put(one)
	put(big.NewInt(2))
	put(new(big.Int).Sub(ref.R, one))
	put(new(big.Int).Sub(ref.R, big.NewInt(2)))
	// single words of all ones at every position, alternating words
	for k := uint(0); k < 4; k++ {
		put(new(big.Int).Lsh(new(big.Int).Sub(new(big.Int).Lsh(one, 64), one), 64*k))
	}
	alt, _ := new(big.Int).SetString("ffffffffffffffff0000000000000000ffffffffffffffff", 16)
	put(alt)
	put(new(big.Int).Lsh(alt, 64))
	put(w.Scalar("x1"))
	keys := make([]crypto.PrivateKey, len(pool))
	for i, s := range pool {
		keys[i] = w.SK(s)
	}
	check := func(idx []int) {
		sum := new(big.Int)
		ks := make([]crypto.PrivateKey, len(idx))
		for k, i := range idx {
			sum.Add(sum, pool[i])
			ks[k] = keys[i]
		}
		sum.Mod(sum, ref.R)
		agg, err := crypto.AggregateBLSPrivateKeys(ks)
		res.Evals++
		if err != nil {
			add("PrivateKeySum", fmt.Sprintf("AggregateBLSPrivateKeys of the scalars at pool positions %v: %v", idx, err))
			return
		}
		want := make([]byte, 32)
		sum.FillBytes(want)
		if !bytes.Equal(agg.Encode(), want) {
			var in []string
			for _, i := range idx {
				in = append(in, pool[i].Text(16))
			}
			add("PrivateKeySum", fmt.Sprintf("AggregateBLSPrivateKeys(%v) = %x, the sum modulo the group order is %x", in, agg.Encode(), want))
		}
	}
	n := len(pool)
	for i := 0; i < n; i++ {
		for j := 0; j < n; j++ {
			check([]int{i, j})
		}
	}
	// triples: all ordered triples over a seeded third of the pool, plus seeded longer lists
	var sub []int
	for i := 0; i < n; i++ {
		if (i+int(seed))%3 == 0 {
			sub = append(sub, i)
		}
	}
	for _, i := range sub {
		for _, j := range sub {
			for _, k := range sub {
				check([]int{i, j, k})
			}
		}
	}
	for rep := 0; rep < 300; rep++ {
		l := 4 + w.Rng.Intn(13)
		idx := make([]int, l)
		for k := range idx {
			idx[k] = w.Rng.Intn(n)
		}
		check(idx)
	}
	return
}
