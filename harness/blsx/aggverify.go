package blsx

import (
	"encoding/json"
	"fmt"
	"math/big"

	crypto "github.com/onflow/crypto"
	"github.com/onflow/crypto/hash"
	"verifharness/ref"
)

// ---------------- C02: cases of specs/bls/BLSAggVerify.tla

type aggCase struct {
	Inp []struct {
		K string `json:"k"`
		M string `json:"m"`
	} `json:"inp"`
	Sig    string `json:"sig"`
	Expect bool   `json:"expect"`
	Path   string `json:"path"`
	OneMsg string `json:"onemsg"`
}

func init() {
	Runners["aggverify"] = runAggVerify
	Runners["aggverify-args"] = runAggArgs
	Runners["aggverify-large"] = runAggLarge
}

func (w *World) keyObj(name string, variant int) (crypto.PublicKey, *big.Int) {
	switch name {
	case "a":
		return w.PK(map[string]int{"x1": 1}, 0), w.Scalar("x1")
	case "a2": // the same point in another object with another internal representation
		return w.PK(map[string]int{"x1": 1}, 1+variant%5), w.Scalar("x1")
	case "na":
		return w.PK(map[string]int{"x1": -1}, variant%2), new(big.Int).Sub(ref.R, w.Scalar("x1"))
	case "b":
		return w.PK(map[string]int{"x2": 1}, variant%7), w.Scalar("x2")
	}
	return w.PK(map[string]int{}, variant), new(big.Int)
}

func runAggVerify(raw json.RawMessage, seed int64) (res Result) {
	res.Violations = []Violation{}
	var c aggCase
	if err := json.Unmarshal(raw, &c); err != nil {
		panic(err)
	}
	defer func() {
		if r := recover(); r != nil {
			res.Violations = append(res.Violations, Violation{"C09", "NoPanic", fmt.Sprintf("aggregate verification case %s: panic: %v", string(raw), r)})
		}
	}()
	w := NewWorld(seed)
	// the hasher class of the run: the KMAC expander, or (one run in five) 128-byte hashers whose outputs for different messages
	// share their whole first half (the first field element of hash_to_field) and differ only in the second
	hcls := "kmac"
	if w.Rng.Intn(5) == 0 {
		hcls = "prefix128"
	}
	sharedHasher := false
	if hcls == "kmac" && w.Rng.Intn(4) == 0 {
		// the messages are prefixes of different lengths of ONE buffer (slices with the same first byte address), all under one
		// domain tag and handed over with one and the same hasher object
		buf := w.randBytes(200)
		m1 := w.Msg("m1")
		for i, name := range []string{"m1", "m2", "m3"} {
			w.msgs[name] = MsgDef{Tag: m1.Tag, Data: buf[: 40+37*i : 40+37*i]}
		}
		sharedHasher = true
	} else if hcls == "kmac" && w.Rng.Intn(3) == 0 { // (not seed%3: the case index and the seed are correlated)
		// distinct formal messages that share their BYTES and differ only by their per-index hasher (domain tag)
		m1 := w.Msg("m1")
		for _, name := range []string{"m2", "m3"} {
			w.msgs[name] = MsgDef{Tag: m1.Tag + name, Data: m1.Data}
		}
	}
	n := len(c.Inp)
	pks := make([]crypto.PublicKey, n)
	msgs := make([][]byte, n)
	hs := make([]hash.Hasher, n)
	sum := ref.G1Inf
	last := ref.G1Inf
	for i, t := range c.Inp {
		pk, s := w.keyObj(t.K, int(seed)+i)
		pks[i] = pk
		msgs[i] = w.Msg(t.M).Data
		hs[i] = w.Hasher(hcls, t.M)
		if sharedHasher && i > 0 {
			hs[i] = hs[0]
		}
		last = w.HashPoint(hcls, t.M).Mul(s)
		sum = sum.Add(last)
	}
	var sig []byte
	switch c.Sig {
	case "agg":
		sig = sum.Compress()
	case "aggPlusT":
		sig = sum.Add(w.T()).Compress()
	case "aggPlusD":
		sig = sum.Add(w.D()).Compress()
	case "dropLast":
		sig = sum.Add(last.Neg()).Compress()
	case "identity":
		sig = ref.G1Inf.Compress()
	default:
		bad := []string{"uncompressed", "xgep", "nonresidue", "inf+signbit", "inf+lastbyte", "len47", "len49", "len0"}
		sig = w.BadEncoding(bad[w.Rng.Intn(len(bad))], sum.Compress())
	}
	add := func(pred, d string) {
		res.Violations = append(res.Violations, Violation{"C02", pred, fmt.Sprintf("%s [input %v, signature class %s, path %s, seed %d]", d, c.Inp, c.Sig, c.Path, seed)})
	}
	ok, err := crypto.VerifyBLSSignatureManyMessages(pks, sig, msgs, hs)
	res.Evals++
	if err != nil || ok != c.Expect {
		add("PairingProductDefinition", fmt.Sprintf("VerifyBLSSignatureManyMessages = (%v, %v), the definition gives %v", ok, err, c.Expect))
	}
	// independence of the order of the triples
	if n > 1 {
		perm := w.Rng.Perm(n)
		p2, m2, h2 := make([]crypto.PublicKey, n), make([][]byte, n), make([]hash.Hasher, n)
		for i, j := range perm {
			p2[i], m2[i], h2[i] = pks[j], msgs[j], hs[j]
		}
		ok2, err2 := crypto.VerifyBLSSignatureManyMessages(p2, sig, m2, h2)
		res.Evals++
		if err2 != nil || ok2 != c.Expect {
			add("OrderIndependent", fmt.Sprintf("permuted input %v: (%v, %v), the definition gives %v", perm, ok2, err2, c.Expect))
		}
	}
	if c.OneMsg != "n/a" {
		want := c.OneMsg == "true"
		ok, err := crypto.VerifyBLSSignatureOneMessage(pks, sig, msgs[0], hs[0])
		res.Evals++
		if err != nil || ok != want {
			add("OneMessageIsVerifyUnderSum", fmt.Sprintf("VerifyBLSSignatureOneMessage = (%v, %v), Verify under the sum of the keys gives %v", ok, err, want))
		}
		agg, err := crypto.AggregateBLSPublicKeys(pks)
		if err == nil {
			ok2, _ := agg.Verify(sig, msgs[0], hs[0])
			if ok2 != ok {
				add("OneMessageIsVerifyUnderSum", "VerifyBLSSignatureOneMessage differs from Verify under AggregateBLSPublicKeys")
			}
		}
	}
	return
}

// documented typed errors of the aggregate verification functions
func runAggArgs(raw json.RawMessage, seed int64) (res Result) {
	res.Violations = []Violation{}
	defer func() {
		if r := recover(); r != nil {
			res.Violations = append(res.Violations, Violation{"C09", "NoPanic", fmt.Sprintf("aggregate verification arguments: panic: %v", r)})
		}
	}()
	w := NewWorld(seed)
	add := func(d string) { res.Violations = append(res.Violations, Violation{"C02", "TypedErrors", d}) }
	pk1, _ := w.keyObj("a", 0)
	pk2, _ := w.keyObj("b", 0)
	m := w.Msg("m1").Data
	h := w.Hasher("kmac", "m1")
	sig := w.HashPoint("kmac", "m1").Mul(w.Scalar("x1")).Compress()
	ecdsaSeed := make([]byte, 32)
	esk, _ := crypto.GeneratePrivateKey(crypto.ECDSAP256, ecdsaSeed)
	type call struct {
		name string
		f    func() (bool, error)
		want func(error) bool
	}
	isII := crypto.IsInvalidInputsError
	calls := []call{
		{"ManyMessages(empty lists)", func() (bool, error) { return crypto.VerifyBLSSignatureManyMessages(nil, sig, nil, nil) }, crypto.IsBLSAggregateEmptyListError},
		{"ManyMessages(2 keys, 1 message)", func() (bool, error) {
			return crypto.VerifyBLSSignatureManyMessages([]crypto.PublicKey{pk1, pk2}, sig, [][]byte{m}, []hash.Hasher{h})
		}, isII},
		{"ManyMessages(1 key, 1 message, 2 hashers)", func() (bool, error) {
			return crypto.VerifyBLSSignatureManyMessages([]crypto.PublicKey{pk1}, sig, [][]byte{m}, []hash.Hasher{h, h})
		}, isII},
		{"ManyMessages(nil hasher at index 1)", func() (bool, error) {
			return crypto.VerifyBLSSignatureManyMessages([]crypto.PublicKey{pk1, pk2}, sig, [][]byte{m, m}, []hash.Hasher{h, nil})
		}, crypto.IsNilHasherError},
		{"ManyMessages(127-byte hasher at index 0)", func() (bool, error) {
			return crypto.VerifyBLSSignatureManyMessages([]crypto.PublicKey{pk1, pk2}, sig, [][]byte{m, m}, []hash.Hasher{w.Hasher("size127", "m1"), h})
		}, crypto.IsInvalidHasherSizeError},
		{"ManyMessages(ECDSA key at index 1)", func() (bool, error) {
			return crypto.VerifyBLSSignatureManyMessages([]crypto.PublicKey{pk1, esk.PublicKey()}, sig, [][]byte{m, m}, []hash.Hasher{h, h})
		}, crypto.IsNotBLSKeyError},
		{"OneMessage(empty list)", func() (bool, error) { return crypto.VerifyBLSSignatureOneMessage(nil, sig, m, h) }, crypto.IsBLSAggregateEmptyListError},
		{"OneMessage(ECDSA key)", func() (bool, error) {
			return crypto.VerifyBLSSignatureOneMessage([]crypto.PublicKey{pk1, esk.PublicKey()}, sig, m, h)
		}, crypto.IsNotBLSKeyError},
		{"OneMessage(nil hasher)", func() (bool, error) { return crypto.VerifyBLSSignatureOneMessage([]crypto.PublicKey{pk1}, sig, m, nil) }, crypto.IsNilHasherError},
		{"OneMessage(129-byte hasher)", func() (bool, error) {
			return crypto.VerifyBLSSignatureOneMessage([]crypto.PublicKey{pk1}, sig, m, w.Hasher("size129", "m1"))
		}, crypto.IsInvalidHasherSizeError},
	}
	for _, c := range calls {
		ok, err := c.f()
		res.Evals++
		if ok || err == nil || !c.want(err) {
			add(fmt.Sprintf("%s returned (%v, %v): not the documented typed error", c.name, ok, err))
		}
	}
	// TWO faults in one call, at every pair of positions of a list of three: which one is reported first is not fixed by the
	// documentation, so any outcome documented for ONE of the faults present is accepted (the typed error of either; (false, nil)
	// only if an identity key is among them) - never true, never an untyped error, never the error of a fault that is not there
	idpk := w.PK(map[string]int{}, int(seed))
	type fault struct {
		name  string
		apply func(pks []crypto.PublicKey, hs []hash.Hasher, i int)
		isErr func(error) bool // nil: the documented outcome is (false, nil)
	}
	faults := []fault{
		{"nil hasher", func(_ []crypto.PublicKey, hs []hash.Hasher, i int) { hs[i] = nil }, crypto.IsNilHasherError},
		{"127-byte hasher", func(_ []crypto.PublicKey, hs []hash.Hasher, i int) { hs[i] = w.Hasher("size127", "m1") }, crypto.IsInvalidHasherSizeError},
		{"ECDSA key", func(pks []crypto.PublicKey, _ []hash.Hasher, i int) { pks[i] = esk.PublicKey() }, crypto.IsNotBLSKeyError},
		{"identity key", func(pks []crypto.PublicKey, _ []hash.Hasher, i int) { pks[i] = idpk }, nil},
	}
	for a, fa := range faults {
		for b, fb := range faults {
			for i := 0; i < 3; i++ {
				for j := 0; j < 3; j++ {
					if i == j || (a == b && i > j) {
						continue
					}
					pks := []crypto.PublicKey{pk1, pk2, pk1}
					hs := []hash.Hasher{h, h, h}
					fa.apply(pks, hs, i)
					fb.apply(pks, hs, j)
					ok, err := crypto.VerifyBLSSignatureManyMessages(pks, sig, [][]byte{m, m, m}, hs)
					res.Evals++
					fine := !ok
					if err == nil {
						fine = fine && (fa.isErr == nil || fb.isErr == nil)
					} else {
						fine = fine && ((fa.isErr != nil && fa.isErr(err)) || (fb.isErr != nil && fb.isErr(err)))
					}
					if !fine {
						add(fmt.Sprintf("ManyMessages with %s at index %d and %s at index %d returned (%v, %v): not an outcome documented for either", fa.name, i, fb.name, j, ok, err))
					}
				}
			}
		}
	}
	return
}

// large shapes: g distinct groups, crossing the batches of the multi-pairing, through both C paths
func runAggLarge(raw json.RawMessage, seed int64) (res Result) {
	res.Violations = []Violation{}
	defer func() {
		if r := recover(); r != nil {
			res.Violations = append(res.Violations, Violation{"C09", "NoPanic", fmt.Sprintf("aggregate verification large shapes: panic: %v", r)})
		}
	}()
	w := NewWorld(seed)
	groups := []int{7, 8, 9, 15, 16, 17, 33, 64, 65, 129}
	if seed%2 == 1 {
		groups = append(groups, 127, 128, 255, 256, 257)
	}
	for _, g := range groups {
		for _, perKey := range []bool{false, true} {
			// perKey: g keys, each signing 1..3 of g+1.. messages (distinct keys <= distinct messages)
			// else  : g messages, each signed by 1..3 of many keys (distinct messages < distinct keys)
			var pks []crypto.PublicKey
			var msgs [][]byte
			var hs []hash.Hasher
			sum := ref.G1Inf
			for i := 0; i < g; i++ {
				cnt := 1 + w.Rng.Intn(3)
				for j := 0; j < cnt; j++ {
					var kname, mname string
					if perKey {
						kname, mname = fmt.Sprintf("k%d", i), fmt.Sprintf("msg%d-%d", i, j)
					} else {
						kname, mname = fmt.Sprintf("k%d-%d", i, j), fmt.Sprintf("msg%d", i)
					}
					s := w.Scalar(kname)
					pks = append(pks, w.SK(s).PublicKey())
					msgs = append(msgs, w.Msg(mname).Data)
					hs = append(hs, w.Hasher("kmac", mname))
					sum = sum.Add(w.HashPoint("kmac", mname).Mul(s))
				}
			}
			// shuffle
			perm := w.Rng.Perm(len(pks))
			p2, m2, h2 := make([]crypto.PublicKey, len(pks)), make([][]byte, len(pks)), make([]hash.Hasher, len(pks))
			for i, j := range perm {
				p2[i], m2[i], h2[i] = pks[j], msgs[j], hs[j]
			}
			ok, err := crypto.VerifyBLSSignatureManyMessages(p2, sum.Compress(), m2, h2)
			res.Evals++
			if !ok || err != nil {
				res.Violations = append(res.Violations, Violation{"C02", "PairingProductDefinition",
					fmt.Sprintf("%d groups (per-key path %v), %d triples: the reference aggregate is rejected (%v, %v) [seed %d]", g, perKey, len(pks), ok, err, seed)})
			}
			ok, err = crypto.VerifyBLSSignatureManyMessages(p2, sum.Add(w.D()).Compress(), m2, h2)
			res.Evals++
			if ok || err != nil {
				res.Violations = append(res.Violations, Violation{"C02", "PairingProductDefinition",
					fmt.Sprintf("%d groups (per-key path %v): aggregate + D accepted (%v, %v) [seed %d]", g, perKey, ok, err, seed)})
			}
		}
	}
	// per-message grouping (more distinct keys than messages) with g = 8..17 messages of which ONE is signed by a key and its
	// opposite: that group contributes the identity to the product, wherever it falls in the internal order
	for _, g := range []int{8, 9, 10, 16, 17} {
		for rep := 0; rep < 3; rep++ {
			var pks []crypto.PublicKey
			var msgs [][]byte
			var hs []hash.Hasher
			sum := ref.G1Inf
			cancel := w.Rng.Intn(g)
			for i := 0; i < g; i++ {
				mname := fmt.Sprintf("cg-msg-%d-%d", rep, i)
				if i == cancel {
					sc := w.Scalar(fmt.Sprintf("cg-c-%d", rep))
					for _, v := range []*big.Int{sc, new(big.Int).Sub(ref.R, sc)} {
						pks = append(pks, w.SK(v).PublicKey())
						msgs = append(msgs, w.Msg(mname).Data)
						hs = append(hs, w.Hasher("kmac", mname))
					}
					continue
				}
				for j := 0; j < 2; j++ {
					sc := w.Scalar(fmt.Sprintf("cg-k-%d-%d-%d", rep, i, j))
					pks = append(pks, w.SK(sc).PublicKey())
					msgs = append(msgs, w.Msg(mname).Data)
					hs = append(hs, w.Hasher("kmac", mname))
					sum = sum.Add(w.HashPoint("kmac", mname).Mul(sc))
				}
			}
			perm := w.Rng.Perm(len(pks))
			p2, m2, h2 := make([]crypto.PublicKey, len(pks)), make([][]byte, len(pks)), make([]hash.Hasher, len(pks))
			for i, j := range perm {
				p2[i], m2[i], h2[i] = pks[j], msgs[j], hs[j]
			}
			ok, err := crypto.VerifyBLSSignatureManyMessages(p2, sum.Compress(), m2, h2)
			res.Evals++
			if !ok || err != nil {
				res.Violations = append(res.Violations, Violation{"C02", "PairingProductDefinition",
					fmt.Sprintf("%d messages with two keys each, one of them signed by a key and its opposite: the reference aggregate is rejected (%v, %v) [seed %d]", g, ok, err, seed)})
			}
			ok, err = crypto.VerifyBLSSignatureManyMessages(p2, sum.Add(w.D()).Compress(), m2, h2)
			res.Evals++
			if ok || err != nil {
				res.Violations = append(res.Violations, Violation{"C02", "PairingProductDefinition",
					fmt.Sprintf("%d messages with two keys each, one of them signed by a key and its opposite: aggregate + D accepted (%v, %v) [seed %d]", g, ok, err, seed)})
			}
		}
	}
	// one FAT group next to two thin ones: one key with c messages (per-key grouping) / one message with c keys (per-message
	// grouping), c around the multiples of 64 where an implementation may cut its work into batches
	fat := []int{63, 64, 65, 66, 127, 128, 129, 130, 191, 192, 193, 257}
	for pick := 0; pick < 3; pick++ {
		c := fat[(int(seed%12+12)+pick*5)%len(fat)]
		for _, perKey := range []bool{true, false} {
			var pks []crypto.PublicKey
			var msgs [][]byte
			var hs []hash.Hasher
			sum := ref.G1Inf
			last := ref.G1Inf
			addTriple := func(kname, mname string) {
				sc := w.Scalar(kname)
				pks = append(pks, w.SK(sc).PublicKey())
				msgs = append(msgs, w.Msg(mname).Data)
				hs = append(hs, w.Hasher("kmac", mname))
				last = w.HashPoint("kmac", mname).Mul(sc)
				sum = sum.Add(last)
			}
			for j := 0; j < c; j++ {
				if perKey {
					addTriple("fatk", fmt.Sprintf("fat-msg-%d", j))
				} else {
					addTriple(fmt.Sprintf("fat-key-%d", j), "fatm")
				}
			}
			// thin groups; in the per-key orientation they share messages so that distinct keys < distinct messages holds anyway
			addTriple("thin1", "thin-msg-1")
			addTriple("thin2", "thin-msg-2")
			ok, err := crypto.VerifyBLSSignatureManyMessages(pks, sum.Compress(), msgs, hs)
			res.Evals++
			if !ok || err != nil {
				res.Violations = append(res.Violations, Violation{"C02", "PairingProductDefinition",
					fmt.Sprintf("one group of %d (one key, many messages: %v) and two single triples: the reference aggregate is rejected (%v, %v) [seed %d]", c, perKey, ok, err, seed)})
			}
			for _, wrong := range []ref.G1{sum.Add(w.D()), last, sum.Add(last.Neg())} {
				ok, err = crypto.VerifyBLSSignatureManyMessages(pks, wrong.Compress(), msgs, hs)
				res.Evals++
				if ok || err != nil {
					res.Violations = append(res.Violations, Violation{"C02", "PairingProductDefinition",
						fmt.Sprintf("one group of %d (one key, many messages: %v) and two single triples: a string that is not the aggregate is accepted (%v, %v) [seed %d]", c, perKey, ok, err, seed)})
				}
			}
		}
	}
	// one message, long key lists (127 .. 513 keys, with repeats): Verify under the sum of the keys
	m := w.Msg("m1")
	H := w.HashPoint("kmac", "m1")
	const pool = 20
	var pkPool []crypto.PublicKey
	var scPool []*big.Int
	for i := 0; i < pool; i++ {
		s := w.Scalar(fmt.Sprintf("om%d", i))
		scPool = append(scPool, s)
		pkPool = append(pkPool, w.SK(s).PublicKey())
	}
	for _, n := range []int{127, 128, 129, 255, 256, 257, 300 + w.Rng.Intn(200), 513} {
		sum := new(big.Int)
		pks := make([]crypto.PublicKey, n)
		for i := range pks {
			k := (i*7 + int(seed)) % pool
			if i >= 128 {
				k = (i*3 + 1) % pool
			}
			pks[i] = pkPool[k]
			sum.Add(sum, scPool[k])
		}
		sum.Mod(sum, ref.R)
		res.Evals += 2
		if ok, err := crypto.VerifyBLSSignatureOneMessage(pks, H.Mul(sum).Compress(), m.Data, w.Hasher("kmac", "m1")); !ok || err != nil {
			res.Violations = append(res.Violations, Violation{"C02", "OneMessageIsVerifyUnderSum",
				fmt.Sprintf("VerifyBLSSignatureOneMessage with %d keys rejects the signature of the summed key (%v, %v) [seed %d]", n, ok, err, seed)})
		}
		drop := new(big.Int).Mod(new(big.Int).Sub(sum, scPool[(int(n-1)*3+1)%pool]), ref.R)
		if ok, err := crypto.VerifyBLSSignatureOneMessage(pks, H.Mul(drop).Compress(), m.Data, w.Hasher("kmac", "m1")); ok || err != nil {
			res.Violations = append(res.Violations, Violation{"C02", "OneMessageIsVerifyUnderSum",
				fmt.Sprintf("VerifyBLSSignatureOneMessage with %d keys accepts the signature of all keys but the last (%v, %v) [seed %d]", n, ok, err, seed)})
		}
	}
	return
}
