package blsx

import "encoding/json"

// Runners: job kind -> executor (registered by the files of this package)
var Runners = map[string]func(c json.RawMessage, seed int64) Result{}
