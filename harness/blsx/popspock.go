package blsx

import (
	"bytes"
	"encoding/json"
	"fmt"
	"math/big"
	"strings"

	crypto "github.com/onflow/crypto"
	"github.com/onflow/crypto/hash"
	"verifharness/hashx"
	"verifharness/ref"
)

func init() {
	Runners["spock"] = runSpock
	Runners["pop"] = runPop
	Runners["noncanonical-valid"] = runNonCanonicalValid
}

// ---------------- C17: cases of specs/bls/SPoCK.tla

type spockCase struct {
	K1     string `json:"k1"`
	P1     string `json:"p1"`
	K2     string `json:"k2"`
	P2     string `json:"p2"`
	Expect bool   `json:"expect"`
}

func (w *World) formOf(n string) map[string]int {
	switch n {
	case "x1":
		return map[string]int{"x1": 1}
	case "x2":
		return map[string]int{"x2": 1}
	case "nx1":
		return map[string]int{"x1": -1}
	}
	return map[string]int{}
}

func (w *World) spockProof(cls string, key string) []byte {
	ks := w.KeyScalar(w.formOf(key))
	H := w.HashPoint("kmac", "m1")
	h := H.Mul(ks)
	switch cls {
	case "honest":
		return h.Compress()
	case "otherdata":
		return w.HashPoint("kmac", "m2").Mul(ks).Compress()
	case "otherkey":
		return H.Mul(w.Scalar("x3")).Compress()
	case "scaled":
		return h.Add(h).Compress()
	case "negated":
		return h.Neg().Compress()
	case "plusT":
		return h.Add(w.T()).Compress()
	case "plusD":
		return h.Add(w.D()).Compress()
	case "identity":
		return ref.G1Inf.Compress()
	case "badenc":
		bad := []string{"uncompressed", "xgep", "nonresidue", "inf+signbit", "inf+lastbyte", "inf+xbits"}
		return w.BadEncoding(bad[w.Rng.Intn(len(bad))], h.Compress())
	}
	bad := []string{"len0", "len1", "len47", "len49", "len96"}
	return w.BadEncoding(bad[w.Rng.Intn(len(bad))], h.Compress())
}

func runSpock(raw json.RawMessage, seed int64) (res Result) {
	res.Violations = []Violation{}
	var c spockCase
	if err := json.Unmarshal(raw, &c); err != nil {
		panic(err)
	}
	defer func() {
		if r := recover(); r != nil {
			res.Violations = append(res.Violations, Violation{"C09", "NoPanic", fmt.Sprintf("SPoCK case %s: panic: %v", string(raw), r)})
		}
	}()
	w := NewWorld(seed)
	// m1 and m2 must be hashed with the same hasher in a SPoCK comparison: force one tag
	tag := w.Msg("m1").Tag
	m2 := w.Msg("m2")
	m2.Tag = tag
	w.msgs["m2"] = m2
	add := func(pred, d string) {
		res.Violations = append(res.Violations, Violation{"C17", pred, fmt.Sprintf("%s [case %s seed %d]", d, string(raw), seed)})
	}
	pk1 := w.PK(w.formOf(c.K1), int(seed))
	pk2 := w.PK(w.formOf(c.K2), int(seed/3))
	p1 := w.spockProof(c.P1, c.K1)
	p2 := w.spockProof(c.P2, c.K2)
	if c.P1 == c.P2 && w.KeyScalar(w.formOf(c.K1)).Cmp(w.KeyScalar(w.formOf(c.K2))) == 0 && w.Rng.Intn(2) == 0 {
		p2 = append([]byte(nil), p1...) // equal keys and byte-identical proofs (whatever their class)
	}
	ok, err := crypto.SPOCKVerify(pk1, p1, pk2, p2)
	res.Evals++
	if err != nil || ok != c.Expect {
		add("PairingRelation", fmt.Sprintf("SPOCKVerify = (%v, %v), the definition gives %v (proofs %x.. %x..)", ok, err, c.Expect, p1[:min(8, len(p1))], p2[:min(8, len(p2))]))
	}
	ok2, err2 := crypto.SPOCKVerify(pk2, p2, pk1, p1)
	res.Evals++
	if err2 != nil || ok2 != ok {
		add("SwapSymmetric", fmt.Sprintf("swapped pairs give (%v, %v) instead of %v", ok2, err2, ok))
	}
	// Prove / VerifyAgainstData coincide with Sign / Verify; non-BLS keys are refused
	if seed%8 == 0 && c.K1 != "zero" {
		sk := w.SK(w.KeyScalar(w.formOf(c.K1)))
		h := w.Hasher("kmac", "m1")
		data := w.Msg("m1").Data
		pr, err := crypto.SPOCKProve(sk, data, h)
		sg, _ := sk.Sign(data, h)
		if err != nil || !bytes.Equal(pr, sg) || !bytes.Equal(pr, w.HashPoint("kmac", "m1").Mul(w.KeyScalar(w.formOf(c.K1))).Compress()) {
			add("ProveIsSign", "SPOCKProve differs from Sign / the reference")
		}
		for _, cand := range [][]byte{p1, sg} {
			a, e1 := crypto.SPOCKVerifyAgainstData(pk1, cand, data, h)
			b, e2 := pk1.Verify(cand, data, h)
			if a != b || (e1 == nil) != (e2 == nil) {
				add("VerifyAgainstDataIsVerify", fmt.Sprintf("(%v,%v) vs (%v,%v)", a, e1, b, e2))
			}
		}
		// the two proofs are parsed each on its own: a valid pair cut at another place (lengths that compensate each other: 0/96,
		// 40/56, 47/49, 49/47, 95/1 ...), or with bytes moved from the end of one to the front of the other, is no valid pair
		if c.K2 != "zero" {
			sk2 := w.SK(w.KeyScalar(w.formOf(c.K2)))
			pa, _ := crypto.SPOCKProve(sk, data, h)
			pb, _ := crypto.SPOCKProve(sk2, data, h)
			if ok, err := crypto.SPOCKVerify(pk1, pa, pk2, pb); !ok || err != nil {
				add("PairingRelation", fmt.Sprintf("two proofs of the same data: (%v, %v)", ok, err))
			}
			both := append(append([]byte(nil), pa...), pb...)
			for _, cut := range []int{0, 1, 16, 40, 47, 49, 56, 80, 95, 96} {
				ok, err := crypto.SPOCKVerify(pk1, both[:cut], pk2, both[cut:])
				res.Evals++
				if ok || err != nil {
					add("PairingRelation", fmt.Sprintf("a valid pair of proofs cut at byte %d instead of 48 (lengths %d and %d): SPOCKVerify = (%v, %v)", cut, cut, 96-cut, ok, err))
				}
			}
			for _, ln := range [][2]int{{47, 47}, {49, 49}, {48, 0}, {0, 48}, {96, 96}} {
				a := append(append([]byte(nil), pa...), pa...)[:ln[0]]
				b := append(append([]byte(nil), pb...), pb...)[:ln[1]]
				ok, err := crypto.SPOCKVerify(pk1, a, pk2, b)
				res.Evals++
				if ok || err != nil {
					add("PairingRelation", fmt.Sprintf("proofs of lengths %d and %d: SPOCKVerify = (%v, %v)", ln[0], ln[1], ok, err))
				}
			}
		}
		esk, _ := crypto.GeneratePrivateKey(crypto.ECDSAP256, make([]byte, 32))
		if _, err := crypto.SPOCKProve(esk, data, h); !crypto.IsNotBLSKeyError(err) {
			add("NotBLSKey", fmt.Sprintf("SPOCKProve(ECDSA key): %v", err))
		}
		if _, err := crypto.SPOCKVerifyAgainstData(esk.PublicKey(), sg, data, h); !crypto.IsNotBLSKeyError(err) {
			add("NotBLSKey", fmt.Sprintf("SPOCKVerifyAgainstData(ECDSA key): %v", err))
		}
		if _, err := crypto.SPOCKVerify(esk.PublicKey(), sg, pk1, sg); !crypto.IsNotBLSKeyError(err) {
			add("NotBLSKey", fmt.Sprintf("SPOCKVerify(ECDSA key, ..): %v", err))
		}
		if _, err := crypto.SPOCKVerify(pk1, sg, esk.PublicKey(), sg); !crypto.IsNotBLSKeyError(err) {
			add("NotBLSKey", fmt.Sprintf("SPOCKVerify(.., ECDSA key): %v", err))
		}
		res.Evals += 7
	}
	return
}

// ---------------- C16: cases of specs/bls/PoP.tla

type popCase struct {
	Key  string   `json:"key"`
	Cand string   `json:"cand"`
	Pop  bool     `json:"pop"`
	Sig  bool     `json:"sig"`
	Tags []string `json:"tags"`
}

// the PoP hasher rebuilt from the documented ciphersuite string, independently of the package variable
func popHasher() hash.Hasher {
	h, err := hash.NewKMAC_128([]byte("BLS_POP_BLS12381G1_XOF:KMAC128_SSWU_RO_POP_"), []byte("H2C"), 128)
	if err != nil {
		panic(err)
	}
	return h
}

func runPop(raw json.RawMessage, seed int64) (res Result) {
	res.Violations = []Violation{}
	var c popCase
	if err := json.Unmarshal(raw, &c); err != nil {
		panic(err)
	}
	defer func() {
		if r := recover(); r != nil {
			res.Violations = append(res.Violations, Violation{"C09", "NoPanic", fmt.Sprintf("PoP case %s: panic: %v", string(raw), r)})
		}
	}()
	w := NewWorld(seed)
	nOwn := 0
	add := func(pred, d string) {
		if nOwn < 6 {
			nOwn++
			res.Violations = append(res.Violations, Violation{"C16", pred, fmt.Sprintf("%s [seed %d]", d, seed)})
		}
	}
	one := w.SK(big.NewInt(1))
	hpop := func(pkBytes []byte) ref.G1 { // H_pop(pk bytes): reference KMAC128 under the documented PoP ciphersuite, reference hash-to-curve
		p := ref.HashBytesToG1(hashx.RefKMAC128([]byte("BLS_POP_BLS12381G1_XOF:KMAC128_SSWU_RO_POP_"), []byte("H2C"), pkBytes, 128))
		// the library, handed the independently rebuilt PoP hasher, must sign that very point under sk = 1
		if s, err := one.Sign(pkBytes, popHasher()); err != nil || !bytes.Equal(s, p.Compress()) {
			add("DocumentedHashToCurve", fmt.Sprintf("Sign(sk = 1) of the public key bytes under the PoP ciphersuite is %x (err %v), the documented hash-to-curve image is %x", []byte(s), err, p.Compress()))
		}
		return p
	}
	if c.Tags != nil {
		// every crafted application tag: a signature of the public key bytes is no PoP, a PoP is no signature
		x := w.Scalar("x1")
		sk := w.SK(x)
		pk := sk.PublicKey()
		pop, err := crypto.BLSGeneratePOP(sk)
		if err != nil {
			add("GeneratePOP", err.Error())
			return
		}
		// after a proof has verified under its key, the same proof under RELATED keys (the opposite key: the same bytes but one
		// header bit; the key re-decoded; the double) is still judged on its own
		if ok, err := crypto.BLSVerifyPOP(pk, pop); !ok || err != nil {
			add("Sound", fmt.Sprintf("BLSVerifyPOP of the generated proof: (%v, %v)", ok, err))
		}
		negX := new(big.Int).Sub(ref.R, x)
		for name, other := range map[string]crypto.PublicKey{"the opposite key": w.SK(negX).PublicKey(), "the double key": w.SK(new(big.Int).Mod(new(big.Int).Lsh(x, 1), ref.R)).PublicKey()} {
			for rep := 0; rep < 2; rep++ {
				if ok, err := crypto.BLSVerifyPOP(other, pop); ok || err != nil {
					add("Sound", fmt.Sprintf("after BLSVerifyPOP(pk, pop) = true, BLSVerifyPOP(%s, pop) = (%v, %v)", name, ok, err))
				}
				if dec, err := crypto.DecodePublicKey(crypto.BLSBLS12381, other.Encode()); err == nil {
					if ok, _ := crypto.BLSVerifyPOP(dec, pop); ok {
						add("Sound", fmt.Sprintf("after BLSVerifyPOP(pk, pop) = true, BLSVerifyPOP(%s re-decoded, pop) = true", name))
					}
				}
				res.Evals += 2
			}
		}
		if ok, err := crypto.BLSVerifyPOP(pk, pop); !ok || err != nil {
			add("Sound", fmt.Sprintf("BLSVerifyPOP of the generated proof, second time: (%v, %v)", ok, err))
		}
		tags := append(append([]string{}, c.Tags...), "BLS_POP_BLS12381G1_XOF:KMAC128_SSWU_RO_POP_BLS_SIG_", "\x00", string(bytes.Repeat([]byte("t"), 300)))
		// padded and cut variants of the suite strings: zero bytes, spaces or repeated last characters appended (up to and beyond 64,
		// 128 and 168 bytes in total), characters removed from the end
		const popSuite = "BLS_POP_BLS12381G1_XOF:KMAC128_SSWU_RO_POP_"
		pairs := 0
		padded := len(c.Tags) == 1 && c.Tags[0] == "#padded" // a dedicated job: the tag list is the one built here
		if padded {
			tags = tags[1:]
		}
		for _, base := range []string{popSuite, "BLS_POP_", ""} {
			if !padded {
				break
			}
			for k := 1; k <= 130; k++ {
				if k > 30 && k%7 != int(seed%7+7)%7 && len(base)+k != 64 && len(base)+k != 128 && len(base)+k != 168 {
					continue
				}
				tags = append(tags, base+string(make([]byte, k)))
				if k <= 24 {
					tags = append(tags, base+strings.Repeat(" ", k), base+strings.Repeat("_", k))
				}
			}
		}
		for k := 1; padded && k < len(popSuite); k += 3 {
			tags = append(tags, popSuite[:len(popSuite)-k])
		}
		// two application tags of which one extends the other by a prefix of the signature suite (total length 64 and others):
		// a signature under one is no signature under the other, whichever hasher was built first
		for _, a := range []int{1, 21, 22, 30, 40, 63} {
			for _, total := range []int{64, 65, 128} {
				if !padded {
					break
				}
				A := strings.Repeat("a", a)
				ext := SigSuite + SigSuite + SigSuite + SigSuite
				if total-a <= 0 || total-a > len(ext) {
					continue
				}
				B := A + ext[:total-a]
				for _, order := range [][2]string{{A, B}, {B, A}} {
					h1 := crypto.NewExpandMsgXOFKMAC128(order[0])
					h2 := crypto.NewExpandMsgXOFKMAC128(order[1])
					s1, err := sk.Sign([]byte("tag pair"), h1)
					res.Evals++
					if err != nil {
						add("Sign", err.Error())
						continue
					}
					if ok, _ := pk.Verify(s1, []byte("tag pair"), h2); ok {
						if pairs++; pairs <= 3 {
							res.Violations = append(res.Violations, Violation{"C01", "AcceptanceSet", fmt.Sprintf("a signature under tag %q verifies under tag %q (another domain tag) [seed %d]", order[0], order[1], seed)})
						}
					}
				}
			}
		}
		for _, tag := range tags {
			h := crypto.NewExpandMsgXOFKMAC128(tag)
			sig, err := sk.Sign(pk.Encode(), h)
			res.Evals += 2
			if err != nil {
				add("Sign", err.Error())
				continue
			}
			if ok, _ := crypto.BLSVerifyPOP(pk, sig); ok {
				add("SignatureIsNoPoP", fmt.Sprintf("the signature of the public key bytes under tag %q verifies as a proof of possession", tag))
			}
			if ok, _ := pk.Verify(pop, pk.Encode(), h); ok {
				add("PoPIsNoSignature", fmt.Sprintf("the proof of possession verifies as a signature under tag %q", tag))
			}
			if bytes.Equal(sig, pop) {
				add("DomainSeparation", fmt.Sprintf("signature under tag %q equals the PoP", tag))
			}
		}
		return
	}
	form := w.formOf(c.Key)
	pk := w.PK(form, int(seed))
	ks := w.KeyScalar(form)
	other := "x2"
	if c.Key == "x2" {
		other = "x1"
	}
	own := w.Scalar("x1")
	if c.Key == "x2" {
		own = w.Scalar("x2")
	}
	if c.Key == "zero" {
		own = w.Scalar("x1") // candidates are built from some real key's PoP; the verifying key is the identity
	}
	ownPk := w.SK(own).PublicKey()
	popOwn := hpop(ownPk.Encode()).Mul(own)
	var cand []byte
	switch c.Cand {
	case "pop-own":
		cand = popOwn.Compress()
	case "pop-other":
		os := w.Scalar(other)
		cand = hpop(w.SK(os).PublicKey().Encode()).Mul(os).Compress()
	case "sig-of-pkbytes":
		s, _ := w.SK(own).Sign(ownPk.Encode(), crypto.NewExpandMsgXOFKMAC128(w.Msg("m1").Tag))
		cand = s
	case "identity":
		cand = ref.G1Inf.Compress()
	case "plusT":
		cand = popOwn.Add(w.T()).Compress()
	case "negated":
		cand = popOwn.Neg().Compress()
	default:
		cand = w.BadEncoding([]string{"uncompressed", "xgep", "len47", "inf+lastbyte"}[w.Rng.Intn(4)], popOwn.Compress())
	}
	ok, err := crypto.BLSVerifyPOP(pk, cand)
	res.Evals++
	if err != nil || ok != c.Pop {
		add("Sound", fmt.Sprintf("BLSVerifyPOP(key %s, candidate %s) = (%v, %v), the definition gives %v", c.Key, c.Cand, ok, err, c.Pop))
	}
	// as a signature of the public key bytes under an application tag
	okS, errS := pk.Verify(cand, pk.Encode(), crypto.NewExpandMsgXOFKMAC128(w.Msg("m1").Tag))
	res.Evals++
	wantS := c.Sig
	if errS != nil || okS != wantS {
		add("PoPIsNoSignature", fmt.Sprintf("Verify(key %s, candidate %s, pk bytes, tag %q) = (%v, %v), the definition gives %v", c.Key, c.Cand, w.Msg("m1").Tag, okS, errS, wantS))
	}
	if ks.Sign() != 0 {
		// BLSGeneratePOP is exactly the reference PoP
		pop, err := crypto.BLSGeneratePOP(w.SK(ks))
		res.Evals++
		want := hpop(w.SK(ks).PublicKey().Encode()).Mul(ks).Compress()
		if err != nil || !bytes.Equal(pop, want) {
			add("GeneratePOP", fmt.Sprintf("BLSGeneratePOP = %x (err %v), the reference sk*H_pop(pk) is %x", []byte(pop), err, want))
		}
	}
	if seed%5 == 0 {
		esk, _ := crypto.GeneratePrivateKey(crypto.ECDSASecp256k1, make([]byte, 32))
		if _, err := crypto.BLSGeneratePOP(esk); !crypto.IsNotBLSKeyError(err) {
			add("NotBLSKey", fmt.Sprintf("BLSGeneratePOP(ECDSA key): %v", err))
		}
		if _, err := crypto.BLSVerifyPOP(esk.PublicKey(), cand); !crypto.IsNotBLSKeyError(err) {
			add("NotBLSKey", fmt.Sprintf("BLSVerifyPOP(ECDSA key): %v", err))
		}
	}
	return
}

// runNonCanonicalValid: the RIGHT point in a WRONG encoding.  A valid signature / proof of possession whose abscissa x is small
// enough is re-encoded with x + p in place of x (same flags): the string names the same curve point to a reader that reduces
// modulo p, and must be refused everywhere (C01, C05, C16: only the canonical encoding is accepted).  Two sizes of x: any x with
// x + p < 2^381 (a quarter of all points), and a tiny x (below 2^368: found by trying keys) for readers that compare leading bytes.
func runNonCanonicalValid(raw json.RawMessage, seed int64) (res Result) {
	res.Violations = []Violation{}
	defer func() {
		if r := recover(); r != nil {
			res.Violations = append(res.Violations, Violation{"C09", "NoPanic", fmt.Sprintf("non-canonical valid encodings: panic: %v", r)})
		}
	}()
	w := NewWorld(seed)
	add := func(prop, pred, d string) {
		if len(res.Violations) < 6 {
			res.Violations = append(res.Violations, Violation{prop, pred, fmt.Sprintf("%s [seed %d]", d, seed)})
		}
	}
	m := w.Msg("m1")
	h := w.Hasher("kmac", "m1")
	limitAny := new(big.Int).Sub(new(big.Int).Lsh(big.NewInt(1), 381), ref.P)
	limitTiny := new(big.Int).Lsh(big.NewInt(7), 365) // 7/8 * 2^368
	plusP := func(sig []byte) []byte {
		x := new(big.Int).SetBytes(sig)
		x.SetBit(x, 383, 0)
		x.SetBit(x, 382, 0)
		x.SetBit(x, 381, 0)
		out := make([]byte, 48)
		new(big.Int).Add(x, ref.P).FillBytes(out)
		out[0] |= sig[0] & 0xE0
		return out
	}
	xOf := func(sig []byte) *big.Int {
		x := new(big.Int).SetBytes(sig)
		x.SetBit(x, 383, 0)
		x.SetBit(x, 382, 0)
		x.SetBit(x, 381, 0)
		return x
	}
	foundAny := 0
	tinyOf := [2]int{} // per kind: signature, proof of possession
	for k := int64(1); k <= 60000 && (foundAny < 3 || tinyOf[0] < 1 || tinyOf[1] < 1); k++ {
		sc := new(big.Int).Add(w.Scalar("ncv-base"), big.NewInt(k))
		sc.Mod(sc, ref.R)
		if sc.Sign() == 0 {
			continue
		}
		sk := w.SK(sc)
		// signatures and proofs of possession
		sig, err := sk.Sign(m.Data, h)
		if err != nil {
			panic(err)
		}
		pop, err := crypto.BLSGeneratePOP(sk)
		if err != nil {
			panic(err)
		}
		cands := [][]byte{sig, pop}
		for ci, cand := range cands {
			x := xOf(cand)
			tiny := x.Cmp(limitTiny) < 0
			if !(tiny && tinyOf[ci] < 2) && !(x.Cmp(limitAny) < 0 && foundAny < 3) {
				continue
			}
			if tiny {
				tinyOf[ci]++
			} else {
				foundAny++
			}
			nc := plusP(cand)
			pk := sk.PublicKey()
			res.Evals += 3
			if ci == 0 {
				if ok, err := pk.Verify(nc, m.Data, h); ok || err != nil {
					add("C01", "AcceptanceSet", fmt.Sprintf("Verify accepts the valid signature re-encoded with x + p in place of x: %x (x has %d bits)", nc, x.BitLen()))
				}
			} else {
				if ok, err := crypto.BLSVerifyPOP(pk, nc); ok || err != nil {
					add("C16", "PopExact", fmt.Sprintf("BLSVerifyPOP accepts the proof of possession re-encoded with x + p in place of x: %x (x has %d bits)", nc, x.BitLen()))
				}
			}
			if out, err := crypto.AggregateBLSSignatures([]crypto.Signature{nc}); err == nil {
				add("C05", "AcceptsExactlyCanonical", fmt.Sprintf("AggregateBLSSignatures accepts %x (a valid point with x + p in place of x) and returns %x", nc, []byte(out)))
			}
			if ok, _ := crypto.SPOCKVerify(pk, nc, pk, nc); ok {
				add("C17", "PairingRelation", fmt.Sprintf("SPOCKVerify accepts the non-canonical encoding %x", nc))
			}
		}
	}
	if foundAny == 0 {
		panic("harness: no signature with x + p < 2^381 found")
	}
	return
}
