package blsx

import (
	"encoding/json"
	"fmt"
	"math/big"

	crypto "github.com/onflow/crypto"
	"verifharness/ref"
)

// ---------------- C03: cases of specs/bls/BLSBatch.tla

func init() {
	Runners["batch"] = runBatch
	Runners["batch-extra"] = runBatchExtra
}

type batchCase struct {
	Inp []string `json:"inp"`
}

func (w *World) batchInputs(classes []string, rotate bool) ([]crypto.PublicKey, []crypto.Signature, []bool) {
	n := len(classes)
	H := w.HashPoint("kmac", "m1")
	pks := make([]crypto.PublicKey, n)
	sigs := make([]crypto.Signature, n)
	want := make([]bool, n)
	pts := make([]ref.G1, n)
	for i := range classes {
		s := w.Scalar(fmt.Sprintf("bk%d", i))
		pks[i] = w.SK(s).PublicKey()
		pts[i] = H.Mul(s)
	}
	d := w.D()
	// the +d / -d entries: either literally s_i + d, s_j - d, or (when exactly one of each) the two signatures swapped
	var dp, dm []int
	for i, c := range classes {
		if c == "dp" {
			dp = append(dp, i)
		} else if c == "dm" {
			dm = append(dm, i)
		}
	}
	swap := len(dp) == 1 && len(dm) == 1 && rotate
	for i, c := range classes {
		switch c {
		case "ok":
			sigs[i] = pts[i].Compress()
			want[i] = true
		case "bad":
			sigs[i] = H.Mul(w.Scalar(fmt.Sprintf("other%d", i))).Compress()
		case "dp":
			if swap {
				sigs[i] = pts[dm[0]].Compress()
			} else {
				sigs[i] = pts[i].Add(d).Compress()
			}
		case "dm":
			if swap {
				sigs[i] = pts[dp[0]].Compress()
			} else {
				sigs[i] = pts[i].Add(d.Neg()).Compress()
			}
		case "malformed":
			bad := []string{"uncompressed", "xgep", "nonresidue", "inf+signbit", "inf+xbits", "inf+lastbyte"}
			sigs[i] = w.BadEncoding(bad[w.Rng.Intn(len(bad))], pts[i].Compress())
		case "short":
			bad := []string{"len0", "len1", "len47", "len49", "len96"}
			sigs[i] = w.BadEncoding(bad[w.Rng.Intn(len(bad))], pts[i].Compress())
		case "nong1":
			sigs[i] = pts[i].Add(w.T()).Compress()
		case "idsig":
			sigs[i] = ref.G1Inf.Compress()
		case "idkey":
			pks[i] = w.PK(map[string]int{}, w.Rng.Intn(6))
			if w.Rng.Intn(2) == 0 {
				sigs[i] = ref.G1Inf.Compress()
			} else {
				sigs[i] = pts[i].Compress()
			}
		}
	}
	return pks, sigs, want
}

func (w *World) checkBatch(res *Result, label string, pks []crypto.PublicKey, sigs []crypto.Signature, want []bool, reps int) {
	m := w.Msg("m1")
	h := w.Hasher("kmac", "m1")
	for r := 0; r < reps; r++ {
		got, err := crypto.BatchVerifyBLSSignaturesOneMessage(pks, sigs, m.Data, h)
		res.Evals++
		if err != nil || len(got) != len(want) {
			res.Violations = append(res.Violations, Violation{"C03", "AgreesWithVerify", fmt.Sprintf("%s: returned (%v, %v)", label, got, err)})
			return
		}
		for i := range want {
			if got[i] != want[i] {
				res.Violations = append(res.Violations, Violation{"C03", "AgreesWithVerify",
					fmt.Sprintf("%s: index %d is %v, individual verification gives %v (results %v)", label, i, got[i], want[i], got)})
				return
			}
		}
	}
	// the oracle itself: per-index real Verify agrees with the model's verdict
	for i := range want {
		ok, err := pks[i].Verify(sigs[i], m.Data, h)
		res.Evals++
		if err != nil || ok != want[i] {
			res.Violations = append(res.Violations, Violation{"C01", "AcceptanceSet", fmt.Sprintf("%s: Verify at index %d = (%v, %v), class says %v", label, i, ok, err, want[i])})
		}
	}
}

func runBatch(raw json.RawMessage, seed int64) (res Result) {
	res.Violations = []Violation{}
	var c batchCase
	if err := json.Unmarshal(raw, &c); err != nil {
		panic(err)
	}
	defer func() {
		if r := recover(); r != nil {
			res.Violations = append(res.Violations, Violation{"C09", "NoPanic", fmt.Sprintf("batch verification %v: panic: %v", c.Inp, r)})
		}
	}()
	w := NewWorld(seed)
	pks, sigs, want := w.batchInputs(c.Inp, seed%2 == 0)
	w.checkBatch(&res, fmt.Sprintf("classes %v seed %d", c.Inp, seed), pks, sigs, want, 2)
	return
}

// beyond the enumerated classes: three-way cancellations, larger n, input errors
func runBatchExtra(raw json.RawMessage, seed int64) (res Result) {
	res.Violations = []Violation{}
	defer func() {
		if r := recover(); r != nil {
			res.Violations = append(res.Violations, Violation{"C09", "NoPanic", fmt.Sprintf("batch verification extras: panic: %v", r)})
		}
	}()
	w := NewWorld(seed)
	H := w.HashPoint("kmac", "m1")
	m := w.Msg("m1")
	h := w.Hasher("kmac", "m1")
	// rotations of three signatures at every position triple of n = 3..7: errors sum to zero
	for n := 3; n <= 7; n++ {
		for a := 0; a < n; a++ {
			for b := a + 1; b < n; b++ {
				for c := b + 1; c < n; c++ {
					if (a+b+c+int(seed))%3 != 0 && n > 5 {
						continue
					}
					classes := make([]string, n)
					for i := range classes {
						classes[i] = "ok"
					}
					pks, sigs, want := w.batchInputs(classes, false)
					sigs[a], sigs[b], sigs[c] = sigs[b], sigs[c], sigs[a]
					want[a], want[b], want[c] = false, false, false
					w.checkBatch(&res, fmt.Sprintf("n=%d rotation of signatures (%d,%d,%d) seed %d", n, a, b, c, seed), pks, sigs, want, 1)
				}
			}
		}
	}
	// larger batches with random classes
	all := []string{"ok", "ok", "ok", "bad", "dp", "dm", "malformed", "short", "nong1", "idsig", "idkey"}
	for _, n := range []int{8, 9, 16, 17, 33} {
		classes := make([]string, n)
		for i := range classes {
			classes[i] = all[w.Rng.Intn(len(all))]
		}
		pks, sigs, want := w.batchInputs(classes, true)
		w.checkBatch(&res, fmt.Sprintf("n=%d classes %v seed %d", n, classes, seed), pks, sigs, want, 2)
	}
	// batches whose ONLY invalid entries are one cancelling pair s_i+d / s_j-d at index distance `dist`: if the random
	// coefficients repeat with that period (e.g. a seed buffer tiled to save entropy) the root of the tree verifies
	// and both are reported valid.  (Other invalid leaves would force the descent that separates the pair.)
	{
		var ks []crypto.PublicKey
		var ps []ref.G1
		for k := 0; k < 8; k++ { // few distinct keys: reference scalar multiplications are the cost
			sc := w.Scalar(fmt.Sprintf("big%d", k))
			ks = append(ks, w.SK(sc).PublicKey())
			ps = append(ps, H.Mul(sc))
		}
		d := w.D()
		for _, dist := range []int{1, 2, 3, 7, 8, 16, 32, 64, 100, 128, 255, 256, 257, 512, 1024} {
			n := dist + 2 + w.Rng.Intn(3)
			i := w.Rng.Intn(n - dist)
			j := i + dist
			pk := make([]crypto.PublicKey, n)
			sg := make([]crypto.Signature, n)
			for x := 0; x < n; x++ {
				pk[x], sg[x] = ks[x%8], ps[x%8].Compress()
			}
			sg[i], sg[j] = ps[i%8].Add(d).Compress(), ps[j%8].Add(d.Neg()).Compress()
			got, err := crypto.BatchVerifyBLSSignaturesOneMessage(pk, sg, m.Data, h)
			res.Evals++
			if err != nil || len(got) != n {
				res.Violations = append(res.Violations, Violation{"C03", "AgreesWithVerify", fmt.Sprintf("batch of %d: (%d results, %v)", n, len(got), err)})
				continue
			}
			for x := range got {
				if got[x] != (x != i && x != j) {
					res.Violations = append(res.Violations, Violation{"C03", "AgreesWithVerify",
						fmt.Sprintf("batch of %d whose only invalid entries are s_%d+d and s_%d-d: index %d is reported %v [seed %d]", n, i, j, x, got[x], seed)})
					break
				}
			}
		}
	}
	// batches of 32..130 entries whose only invalid entries are one cancelling pair at the very END (last two, last and one before
	// the last sixteenth, ...), at the very beginning, and straddling n - n/16: positions where coefficients taken from a shared or
	// short buffer would coincide
	{
		var ks []crypto.PublicKey
		var ps []ref.G1
		for k := 0; k < 4; k++ {
			sc := w.Scalar(fmt.Sprintf("big%d", k))
			ks = append(ks, w.SK(sc).PublicKey())
			ps = append(ps, H.Mul(sc))
		}
		d := w.D()
		for _, n := range []int{32, 33, 47, 48, 64, 65, 100, 128, 130} {
			for _, pair := range [][2]int{{n - 2, n - 1}, {0, 1}, {n - 3, n - 1}, {n - n/16 - 1, n - n/16}, {n - n/16, n - 1}, {n / 2, n - 1}} {
				i, j := pair[0], pair[1]
				if i < 0 || i >= j || j >= n {
					continue
				}
				pk := make([]crypto.PublicKey, n)
				sg := make([]crypto.Signature, n)
				for x := 0; x < n; x++ {
					pk[x], sg[x] = ks[x%4], ps[x%4].Compress()
				}
				sg[i], sg[j] = ps[i%4].Add(d).Compress(), ps[j%4].Add(d.Neg()).Compress()
				got, err := crypto.BatchVerifyBLSSignaturesOneMessage(pk, sg, m.Data, h)
				res.Evals++
				if err != nil || len(got) != n {
					res.Violations = append(res.Violations, Violation{"C03", "AgreesWithVerify", fmt.Sprintf("batch of %d: (%d results, %v)", n, len(got), err)})
					continue
				}
				for x := range got {
					if got[x] != (x != i && x != j) {
						res.Violations = append(res.Violations, Violation{"C03", "AgreesWithVerify",
							fmt.Sprintf("batch of %d whose only invalid entries are s_%d+d and s_%d-d: index %d is reported %v [seed %d]", n, i, j, x, got[x], seed)})
						break
					}
				}
			}
		}
	}
	// batches whose ONLY invalid entries carry errors that are a finite difference of order k along an arithmetic progression of
	// indices (+D, -2D, +D; +D, -3D, +3D, -D; ...): they cancel against every coefficient sequence that is a polynomial of degree < k
	// in the index (one random value plus the index, a random affine function of the index, ...), whatever the random values are.
	// Independent coefficients separate them.
	{
		var ks []crypto.PublicKey
		var ps []ref.G1
		for k := 0; k < 4; k++ {
			sc := w.Scalar(fmt.Sprintf("big%d", k))
			ks = append(ks, w.SK(sc).PublicKey())
			ps = append(ps, H.Mul(sc))
		}
		d := w.D()
		for _, co := range [][]int64{{1, -2, 1}, {1, -3, 3, -1}, {1, -4, 6, -4, 1}, {-1, 2, -1}} {
			for _, step := range []int{1, 2, 5} {
				span := (len(co) - 1) * step
				n := span + 1 + w.Rng.Intn(4)
				first := w.Rng.Intn(n - span)
				pk := make([]crypto.PublicKey, n)
				sg := make([]crypto.Signature, n)
				bad := map[int]bool{}
				for x := 0; x < n; x++ {
					pk[x], sg[x] = ks[x%4], ps[x%4].Compress()
				}
				for k, c := range co {
					x := first + k*step
					e := d.Mul(new(big.Int).Mod(big.NewInt(c), ref.R))
					sg[x] = ps[x%4].Add(e).Compress()
					bad[x] = true
				}
				got, err := crypto.BatchVerifyBLSSignaturesOneMessage(pk, sg, m.Data, h)
				res.Evals++
				if err != nil || len(got) != n {
					res.Violations = append(res.Violations, Violation{"C03", "AgreesWithVerify", fmt.Sprintf("batch of %d: (%d results, %v)", n, len(got), err)})
					continue
				}
				for x := range got {
					if got[x] != !bad[x] {
						res.Violations = append(res.Violations, Violation{"C03", "AgreesWithVerify",
							fmt.Sprintf("batch of %d whose only invalid entries carry the errors %v x D at indices %d, %d+%d, ...: index %d is reported %v [seed %d]", n, co, first, first, step, x, got[x], seed)})
						break
					}
				}
			}
		}
	}
	// relations between the entries: the same key everywhere, the same signature everywhere, byte-identical couples, one key
	// object reused with signatures of other keys
	{
		sa, sb := w.Scalar("rel-a"), w.Scalar("rel-b")
		pa, pb := w.SK(sa).PublicKey(), w.SK(sb).PublicKey()
		ga, gb := crypto.Signature(H.Mul(sa).Compress()), crypto.Signature(H.Mul(sb).Compress())
		for _, n := range []int{2, 3, 4, 5, 8, 9} {
			shapes := map[string]func(i int) (crypto.PublicKey, crypto.Signature, bool){
				"identical couples": func(i int) (crypto.PublicKey, crypto.Signature, bool) { return pa, ga, true },
				"one key, two signatures": func(i int) (crypto.PublicKey, crypto.Signature, bool) {
					return pa, []crypto.Signature{ga, gb}[i%2], i%2 == 0
				},
				"one signature, two keys": func(i int) (crypto.PublicKey, crypto.Signature, bool) {
					return []crypto.PublicKey{pa, pb}[i%2], ga, i%2 == 0
				},
				"alternating valid couples": func(i int) (crypto.PublicKey, crypto.Signature, bool) {
					return []crypto.PublicKey{pa, pb}[i%2], []crypto.Signature{ga, gb}[i%2], true
				},
				"alternating swapped couples": func(i int) (crypto.PublicKey, crypto.Signature, bool) {
					return []crypto.PublicKey{pa, pb}[i%2], []crypto.Signature{gb, ga}[i%2], false
				},
			}
			for name, f := range shapes {
				pks := make([]crypto.PublicKey, n)
				sgs := make([]crypto.Signature, n)
				want := make([]bool, n)
				for i := 0; i < n; i++ {
					pks[i], sgs[i], want[i] = f(i)
				}
				w.checkBatch(&res, fmt.Sprintf("n=%d %s seed %d", n, name, seed), pks, sgs, want, 1)
			}
		}
	}
	// ONE key at every index, and the only invalid entries are a cancelling pair s+d / s-d at adjacent (and at distant) indices
	{
		sa := w.Scalar("same-key")
		pa := w.SK(sa).PublicKey()
		good := H.Mul(sa)
		d := w.D()
		for _, n := range []int{2, 3, 4, 5, 8, 9, 17} {
			for i := 0; i < n; i++ {
				for _, j := range []int{i + 1, n - 1} {
					if j <= i || j >= n {
						continue
					}
					pks := make([]crypto.PublicKey, n)
					sgs := make([]crypto.Signature, n)
					want := make([]bool, n)
					for x := 0; x < n; x++ {
						pks[x], sgs[x], want[x] = pa, good.Compress(), true
					}
					sgs[i], sgs[j] = good.Add(d).Compress(), good.Add(d.Neg()).Compress()
					want[i], want[j] = false, false
					w.checkBatch(&res, fmt.Sprintf("n=%d one key everywhere, cancelling pair at (%d,%d) seed %d", n, i, j, seed), pks, sgs, want, 1)
				}
			}
		}
	}
	// input errors: every returned boolean is false
	pk := w.SK(w.Scalar("bk0")).PublicKey()
	sig := crypto.Signature(H.Mul(w.Scalar("bk0")).Compress())
	esk, _ := crypto.GeneratePrivateKey(crypto.ECDSAP256, make([]byte, 32))
	type call struct {
		name string
		f    func() ([]bool, error)
		want func(error) bool
	}
	calls := []call{
		{"empty lists", func() ([]bool, error) { return crypto.BatchVerifyBLSSignaturesOneMessage(nil, nil, m.Data, h) }, crypto.IsBLSAggregateEmptyListError},
		{"2 keys, 1 signature", func() ([]bool, error) {
			return crypto.BatchVerifyBLSSignaturesOneMessage([]crypto.PublicKey{pk, pk}, []crypto.Signature{sig}, m.Data, h)
		}, crypto.IsInvalidInputsError},
		{"nil hasher", func() ([]bool, error) {
			return crypto.BatchVerifyBLSSignaturesOneMessage([]crypto.PublicKey{pk}, []crypto.Signature{sig}, m.Data, nil)
		}, crypto.IsNilHasherError},
		{"127-byte hasher", func() ([]bool, error) {
			return crypto.BatchVerifyBLSSignaturesOneMessage([]crypto.PublicKey{pk}, []crypto.Signature{sig}, m.Data, w.Hasher("size127", "m1"))
		}, crypto.IsInvalidHasherSizeError},
		{"ECDSA key at index 1", func() ([]bool, error) {
			return crypto.BatchVerifyBLSSignaturesOneMessage([]crypto.PublicKey{pk, esk.PublicKey()}, []crypto.Signature{sig, sig}, m.Data, h)
		}, crypto.IsNotBLSKeyError},
	}
	for _, c := range calls {
		got, err := c.f()
		res.Evals++
		anyTrue := false
		for _, b := range got {
			anyTrue = anyTrue || b
		}
		if err == nil || !c.want(err) || anyTrue {
			res.Violations = append(res.Violations, Violation{"C03", "InputErrors", fmt.Sprintf("%s: returned (%v, %v)", c.name, got, err)})
		}
	}
	return
}
