// Package blsx concretises the symbolic algebra of specs/bls/Algebra.tla on the real library and executes the
// cases enumerated by TLC for the BLS properties (C01-C05, C16, C17).
//
// A World assigns independent random scalars to the formal keys and real (tag, message) pairs to the formal messages.
// The hash point H(m) is computed by the independent reference of harness/ref (own KMAC128 / SP 800-185 expander,
// RFC 9380 simplified SWU + 11-isogeny + cofactor clearing in math/big) and cross-checked against what the library
// signs under the secret key 1; everything derived from it (scalar multiples, sums, negation, + torsion, encodings)
// is reference arithmetic as well.
package blsx

import (
	"crypto/sha3"
	"fmt"
	"math/big"
	"math/rand"

	crypto "github.com/onflow/crypto"
	"github.com/onflow/crypto/hash"
	"verifharness/hashx"
	"verifharness/ref"
)

// the documented signature ciphersuite: NewExpandMsgXOFKMAC128(tag) is KMAC128 with key tag || SigSuite, customizer "H2C", 128 output bytes
const SigSuite = "BLS_SIG_BLS12381G1_XOF:KMAC128_SSWU_RO_POP_"

type Violation struct {
	Property  string `json:"property"`
	Predicate string `json:"predicate"`
	Detail    string `json:"detail"`
}

// customHasher: a 128-byte hasher that is not KMAC; the first 64-byte chunk of its output is >= p as an integer
type customHasher struct{ buf []byte }

func (c *customHasher) Algorithm() hash.HashingAlgorithm { return hash.UnknownHashingAlgorithm }
func (c *customHasher) Size() int                        { return 128 }
func (c *customHasher) ComputeHash(d []byte) hash.Hash {
	out := make([]byte, 128)
	sh := sha3.NewSHAKE256()
	sh.Write([]byte("verif-custom-hasher"))
	sh.Write(d)
	sh.Read(out)
	for i := 0; i < 8; i++ {
		out[i] = 0xff // chunk 0 >= p
	}
	return out
}
func (c *customHasher) Write(p []byte) (int, error) { c.buf = append(c.buf, p...); return len(p), nil }
func (c *customHasher) SumHash() hash.Hash          { return c.ComputeHash(c.buf) }
func (c *customHasher) Reset()                      { c.buf = nil }

type sizedHasher struct {
	customHasher
	size int
}

func (s *sizedHasher) Size() int { return s.size }
func (s *sizedHasher) ComputeHash(d []byte) hash.Hash {
	return append(s.customHasher.ComputeHash(d), 0)[:s.size]
}

type MsgDef struct {
	Tag  string
	Data []byte
}

type World struct {
	Rng     *rand.Rand
	scalars map[string]*big.Int
	msgs    map[string]MsgDef
	hpoints map[string]ref.G1
	one     crypto.PrivateKey
	G2Order string // "zcash" (c1||c0) or "flow" (c0||c1): how the library writes Fp2 (finding D5), detected by probe
	// first disagreement between the library's hash-to-curve and the reference one ("" if none)
	H2CMismatch string
}

var frOne = append(make([]byte, 31), 1)

func NewWorld(seed int64) *World {
	w := &World{Rng: rand.New(rand.NewSource(seed)), scalars: map[string]*big.Int{}, msgs: map[string]MsgDef{}, hpoints: map[string]ref.G1{}}
	one, err := crypto.DecodePrivateKey(crypto.BLSBLS12381, frOne)
	if err != nil {
		panic(err)
	}
	w.one = one
	enc := one.PublicKey().Encode()
	switch {
	case string(enc) == string(ref.G2Gen.Compress(true)):
		w.G2Order = "zcash"
	case string(enc) == string(ref.G2Gen.Compress(false)):
		w.G2Order = "flow"
	default:
		w.G2Order = "unknown"
	}
	return w
}

// Scalar returns the concrete value of a formal key; special names give special scalars
func (w *World) Scalar(name string) *big.Int {
	if s, ok := w.scalars[name]; ok {
		return s
	}
	var s *big.Int
	switch name {
	case "one":
		s = big.NewInt(1)
	case "rminus1":
		s = new(big.Int).Sub(ref.R, big.NewInt(1))
	case "small":
		s = big.NewInt(int64(2 + w.Rng.Intn(1000)))
	default:
		b := make([]byte, 48)
		w.Rng.Read(b)
		s = new(big.Int).Mod(new(big.Int).SetBytes(b), ref.R)
		if s.Sign() == 0 {
			s = big.NewInt(7)
		}
	}
	w.scalars[name] = s
	return s
}

func (w *World) Msg(name string) MsgDef {
	if m, ok := w.msgs[name]; ok {
		return m
	}
	long := func(n int) string {
		b := make([]byte, n)
		for i := range b {
			b[i] = byte('a' + w.Rng.Intn(26))
		}
		return string(b)
	}
	// short, empty and long tags: tag || signature suite must reach the KMAC key whole, also beyond one or two 168-byte blocks
	tags := []string{"", "t", "verif-tag", "BLS_SIG_", "another application tag with a long name ............................................",
		long(121), long(130), long(168), long(200), long(340),
		long(8148), long(8149), long(8150), long(8192), long(9000), // tag || suite of 8192 bytes and more: the length header of the KMAC key grows
		// tags that end with (parts of) the ciphersuite strings the library appends itself
		SigSuite, "app-" + SigSuite, "BLS_POP_BLS12381G1_XOF:KMAC128_SSWU_RO_POP_", "x" + "BLS12381G1_XOF:KMAC128_SSWU_RO_POP_", "tag-POP_", long(30) + SigSuite + SigSuite}
	lens := []int{0, 1, 31, 32, 33, 100, 1000, 10000}
	m := MsgDef{Tag: tags[w.Rng.Intn(len(tags))], Data: make([]byte, lens[w.Rng.Intn(len(lens))])}
	w.Rng.Read(m.Data)
	// distinct names must denote distinct (tag, message) pairs
	m.Data = append(m.Data, []byte(name)...)
	w.msgs[name] = m
	return m
}

// prefixHasher: a 128-byte hasher all of whose outputs share their first 64 bytes (the first field element of hash_to_field)
// and differ in the rest
type prefixHasher struct{ customHasher }

func (c *prefixHasher) ComputeHash(d []byte) hash.Hash {
	out := (&customHasher{}).ComputeHash(d)
	for i := 0; i < 64; i++ {
		out[i] = byte(7*i + 1)
	}
	out[0] = 0x01
	return out
}
func (c *prefixHasher) SumHash() hash.Hash { return c.ComputeHash(c.buf) }

// Hasher returns the hasher of class cls for message name m
func (w *World) Hasher(cls string, m string) hash.Hasher {
	switch cls {
	case "kmac":
		return crypto.NewExpandMsgXOFKMAC128(w.Msg(m).Tag)
	case "custom128":
		return &customHasher{}
	case "prefix128":
		return &prefixHasher{}
	case "size127":
		return &sizedHasher{size: 127}
	case "size129":
		return &sizedHasher{size: 129}
	}
	return nil
}

// RefExpand: the 128 bytes the documented expander of class cls produces for message name m
func (w *World) RefExpand(cls, m string) []byte {
	md := w.Msg(m)
	if cls == "kmac" {
		return hashx.RefKMAC128([]byte(md.Tag+SigSuite), []byte("H2C"), md.Data, 128)
	}
	if cls == "prefix128" {
		return (&prefixHasher{}).ComputeHash(md.Data)
	}
	return (&customHasher{}).ComputeHash(md.Data)
}

// HashPoint: H(m) under hasher class cls, as a reference point: the documented hash-to-curve of the expander output,
// computed without the library.  What the library signs under the secret key 1 must be that point; a disagreement is
// recorded in H2CMismatch (reported under C01) and the reference point stays the oracle.
func (w *World) HashPoint(cls, m string) ref.G1 {
	key := cls + "/" + m
	if p, ok := w.hpoints[key]; ok {
		return p
	}
	p := ref.HashBytesToG1(w.RefExpand(cls, m))
	w.hpoints[key] = p
	sig, err := w.one.Sign(w.Msg(m).Data, w.Hasher(cls, m))
	if err != nil {
		panic(err)
	}
	if string(sig) != string(p.Compress()) && w.H2CMismatch == "" {
		w.H2CMismatch = fmt.Sprintf("Sign(sk = 1, hasher %s, tag %q, %d-byte message) = %x, the documented hash-to-curve of the expander output is %x",
			cls, w.Msg(m).Tag, len(w.Msg(m).Data), []byte(sig), p.Compress())
	}
	return p
}

func scalarBytes(s *big.Int) []byte {
	b := make([]byte, 32)
	s.FillBytes(b)
	return b
}

// KeyScalar evaluates a linear form over the formal keys, e.g. {"x1":1,"x2":-1}
func (w *World) KeyScalar(form map[string]int) *big.Int {
	s := new(big.Int)
	for k, c := range form {
		s.Add(s, new(big.Int).Mul(big.NewInt(int64(c)), w.Scalar(k)))
	}
	return s.Mod(s, ref.R)
}

// PrivateKey object for a non-zero scalar
func (w *World) SK(s *big.Int) crypto.PrivateKey {
	sk, err := crypto.DecodePrivateKey(crypto.BLSBLS12381, scalarBytes(s))
	if err != nil {
		panic(fmt.Sprintf("DecodePrivateKey(%x): %v", scalarBytes(s), err))
	}
	return sk
}

// PK object for the linear form, built in one of several ways (decoded private key, decoded public key, aggregated)
func (w *World) PK(form map[string]int, variant int) crypto.PublicKey {
	s := w.KeyScalar(form)
	if s.Sign() == 0 {
		switch variant % 6 {
		case 0:
			return crypto.IdentityBLSPublicKey()
		case 3, 4: // the public key of an aggregated private key whose scalar is zero; case 4: the inputs' public keys were computed before
			a := w.SK(w.Scalar("x1"))
			b := w.SK(new(big.Int).Sub(ref.R, w.Scalar("x1")))
			if variant%6 == 4 {
				_, _ = a.PublicKey(), b.PublicKey()
			}
			sk, err := crypto.AggregateBLSPrivateKeys([]crypto.PrivateKey{a, b})
			if err != nil {
				panic(err)
			}
			return sk.PublicKey()
		case 5: // decoded from the canonical identity encoding
			id := make([]byte, 96)
			id[0] = 0xC0
			pk, err := crypto.DecodePublicKey(crypto.BLSBLS12381, id)
			if err != nil {
				panic(err)
			}
			return pk
		case 1:
			a := w.SK(w.Scalar("x1")).PublicKey()
			b := w.SK(new(big.Int).Sub(ref.R, w.Scalar("x1"))).PublicKey()
			pk, err := crypto.AggregateBLSPublicKeys([]crypto.PublicKey{a, b})
			if err != nil {
				panic(err)
			}
			return pk
		default:
			a := w.SK(w.Scalar("x2")).PublicKey()
			pk, err := crypto.RemoveBLSPublicKeys(a, []crypto.PublicKey{a})
			if err != nil {
				panic(err)
			}
			return pk
		}
	}
	switch variant % 7 {
	case 0:
		return w.SK(s).PublicKey()
	case 6: // s = h - (-h) with h = s/2: a removal whose subtraction is a doubling
		half := new(big.Int).Mul(s, new(big.Int).ModInverse(big.NewInt(2), ref.R))
		half.Mod(half, ref.R)
		pk, err := crypto.RemoveBLSPublicKeys(w.SK(half).PublicKey(), []crypto.PublicKey{w.SK(new(big.Int).Sub(ref.R, half)).PublicKey()})
		if err != nil {
			panic(err)
		}
		return pk
	case 4, 5: // the public key of an aggregated private key; case 5: the inputs' public keys were computed before
		a := w.Scalar("split")
		b := new(big.Int).Mod(new(big.Int).Sub(s, a), ref.R)
		if b.Sign() == 0 {
			return w.SK(s).PublicKey()
		}
		ka, kb := w.SK(a), w.SK(b)
		if variant%7 == 5 {
			_, _ = ka.PublicKey(), kb.PublicKey()
		}
		sk, err := crypto.AggregateBLSPrivateKeys([]crypto.PrivateKey{ka, kb})
		if err != nil {
			panic(err)
		}
		return sk.PublicKey()
	case 1:
		pk, err := crypto.DecodePublicKey(crypto.BLSBLS12381, w.SK(s).PublicKey().Encode())
		if err != nil {
			panic(err)
		}
		return pk
	case 2: // aggregated from two shares of the scalar
		a := w.Scalar("split")
		b := new(big.Int).Mod(new(big.Int).Sub(s, a), ref.R)
		if b.Sign() == 0 {
			return w.SK(s).PublicKey()
		}
		pk, err := crypto.AggregateBLSPublicKeys([]crypto.PublicKey{w.SK(a).PublicKey(), w.SK(b).PublicKey()})
		if err != nil {
			panic(err)
		}
		return pk
	default: // obtained by removing a key from an aggregate: a non-affine internal representation
		a := w.Scalar("split")
		sum := new(big.Int).Mod(new(big.Int).Add(s, a), ref.R)
		if sum.Sign() == 0 {
			return w.SK(s).PublicKey()
		}
		pk, err := crypto.RemoveBLSPublicKeys(w.SK(sum).PublicKey(), []crypto.PublicKey{w.SK(a).PublicKey()})
		if err != nil {
			panic(err)
		}
		return pk
	}
}

// BadEncoding builds a 48-byte-or-not string of the given non-canonical class from a valid encoding
func (w *World) BadEncoding(cls string, valid []byte) []byte {
	b := append([]byte(nil), valid...)
	switch cls {
	case "len0":
		return []byte{}
	case "len1":
		return b[:1]
	case "len47":
		return b[:47]
	case "len49":
		return append(b, 0)
	case "len96":
		return append(b, b...)
	case "len200":
		return append(b, make([]byte, 152)...)
	case "uncompressed":
		b[0] &= 0x7f
		return b
	case "xgep": // x >= p, flags kept; x - p is the abscissa of a curve point, so that x >= p is the ONLY reason to refuse the string
		pb := make([]byte, 48)
		// x - p of several magnitudes: tiny, and just below / above each 64-bit limb boundary (carries between limbs of x)
		limb := w.Rng.Intn(6)
		kk := big.NewInt(int64(w.Rng.Intn(1000)))
		if limb > 0 {
			kk.Lsh(big.NewInt(1), uint(64*limb))
			switch w.Rng.Intn(3) {
			case 0:
				kk.Sub(kk, big.NewInt(int64(1+w.Rng.Intn(1<<20)))) // just below the boundary: low limbs all ones
			case 1:
				kk.Add(kk, big.NewInt(int64(w.Rng.Intn(1<<20))))
			default:
				kk.Sub(kk, new(big.Int).Lsh(big.NewInt(int64(1+w.Rng.Intn(15))), uint(64*limb-4))) // 0xF000... in the top limb below
			}
		}
		room := new(big.Int).Sub(new(big.Int).Lsh(big.NewInt(1), 381), ref.P)
		if kk.Cmp(room) >= 0 {
			kk.Mod(kk, room)
		}
		for {
			if _, ok := ref.FpSqrt(ref.FpAdd(ref.FpMul(ref.FpMul(kk, kk), kk), big.NewInt(4))); ok {
				break
			}
			kk.Add(kk, big.NewInt(1))
		}
		x := new(big.Int).Add(ref.P, kk)
		x.FillBytes(pb)
		pb[0] |= 0x80 | (b[0] & 0x20)
		return pb
	case "nonresidue":
		for {
			x := new(big.Int).Mod(new(big.Int).SetBytes(w.randBytes(48)), ref.P)
			if _, ok := ref.FpSqrt(ref.FpAdd(ref.FpMul(ref.FpMul(x, x), x), big.NewInt(4))); !ok {
				pb := make([]byte, 48)
				x.FillBytes(pb)
				pb[0] |= 0x80 | byte(w.Rng.Intn(2))<<5
				return pb
			}
		}
	case "inf+signbit":
		pb := make([]byte, 48)
		pb[0] = 0xe0
		return pb
	case "inf+xbits":
		pb := make([]byte, 48)
		pb[0] = 0xc0 | byte(1+w.Rng.Intn(31))
		return pb
	case "inf+lastbyte":
		pb := make([]byte, 48)
		pb[0] = 0xc0
		pb[47] = byte(1 + w.Rng.Intn(255))
		return pb
	case "inf+midbyte":
		pb := make([]byte, 48)
		pb[0] = 0xc0
		pb[1+w.Rng.Intn(46)] = byte(1 + w.Rng.Intn(255))
		return pb
	}
	panic("unknown encoding class " + cls)
}

func (w *World) randBytes(n int) []byte {
	b := make([]byte, n)
	w.Rng.Read(b)
	return b
}

// Foreign point of G1 (the atom D of the algebra) and the order-3 torsion point T
func (w *World) D() ref.G1 { return ref.G1Gen.Mul(w.Scalar("foreignD")) }
func (w *World) T() ref.G1 { return ref.Order3E1(w.Rng) }
