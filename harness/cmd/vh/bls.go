package main

import (
	"encoding/json"
	"flag"
	"fmt"
	"os"

	"verifharness/blsx"
	"verifharness/ref"
)

func init() { commands["bls-run"] = blsRun }

type blsJob struct {
	Kind string          `json:"kind"`
	Seed int64           `json:"seed"`
	Case json.RawMessage `json:"case"`
}

func blsRun(args []string) int {
	fs := flag.NewFlagSet("bls-run", flag.ExitOnError)
	in := fs.String("in", "", "")
	out := fs.String("out", "", "")
	fs.Parse(args)
	if err := ref.SelfTest(); err != nil {
		fmt.Fprintln(os.Stderr, err)
		return 2
	}
	if err := ref.SelfTestH2C(); err != nil {
		fmt.Fprintln(os.Stderr, err)
		return 2
	}
	var jobs []blsJob
	if err := readLines(*in, func(b []byte) error {
		var j blsJob
		if err := json.Unmarshal(b, &j); err != nil {
			return err
		}
		jobs = append(jobs, j)
		return nil
	}); err != nil {
		fmt.Fprintln(os.Stderr, err)
		return 2
	}
	res := make([]blsx.Result, len(jobs))
	bad := false
	parallel(len(jobs), func(i int) {
		j := jobs[i]
		switch j.Kind {
		case "verify":
			var c blsx.VerifyCase
			if err := json.Unmarshal(j.Case, &c); err != nil {
				bad = true
				return
			}
			res[i] = blsx.RunVerify(c)
		case "verify-sweep":
			res[i] = blsx.VerifySweep(j.Seed)
		default:
			if f, ok := blsx.Runners[j.Kind]; ok {
				res[i] = f(j.Case, j.Seed)
			} else {
				bad = true
			}
		}
	})
	if bad {
		fmt.Fprintln(os.Stderr, "bad job")
		return 2
	}
	if err := writeJSONLines(*out, res); err != nil {
		fmt.Fprintln(os.Stderr, err)
		return 2
	}
	return 0
}
