package main

import (
	"flag"
	"fmt"
	"os"

	"verifharness/concx"
)

func init() {
	commands["pure-conc"] = func(args []string) int {
		fs := flag.NewFlagSet("pure-conc", flag.ExitOnError)
		out := fs.String("out", "", "")
		runs := fs.Int("runs", 10, "")
		seed := fs.Int64("seed", 1, "")
		g := fs.Int("g", 8, "")
		per := fs.Int("per", 30, "")
		fs.Parse(args)
		var all []concx.Event
		for r := 0; r < *runs; r++ {
			all = append(all, concx.Run(*seed*1009+int64(r), *g, *per, false)...)
		}
		if err := writeJSONLines(*out, all); err != nil {
			fmt.Fprintln(os.Stderr, err)
			return 2
		}
		return 0
	}
}
