package main

import (
	"bufio"
	"encoding/json"
	"flag"
	"fmt"
	"os"
	"path/filepath"
	"runtime"
	"strconv"
	"strings"
	"sync"

	"verifharness/dkgsim"
)

func init() {
	commands["dkg-replay"] = dkgReplay
	commands["dkg-random"] = dkgRandom
}

type outLine struct {
	Result dkgsim.Result `json:"result"`
	Script dkgsim.Script `json:"script"`
}

func writeLines(path string, ch <-chan outLine, done chan<- struct{}) {
	f, err := os.Create(path)
	if err != nil {
		panic(err)
	}
	w := bufio.NewWriterSize(f, 1<<20)
	enc := json.NewEncoder(w)
	for l := range ch {
		if err := enc.Encode(l); err != nil {
			panic(err)
		}
	}
	w.Flush()
	f.Close()
	done <- struct{}{}
}

// dkg-replay: scripts (ndjson) -> real objects -> results (ndjson, same order not guaranteed)
func dkgReplay(args []string) int {
	fs := flag.NewFlagSet("dkg-replay", flag.ExitOnError)
	in := fs.String("in", "", "scripts, one JSON object per line")
	out := fs.String("out", "", "results, one JSON object per line")
	fs.Parse(args)
	f, err := os.Open(*in)
	if err != nil {
		fmt.Fprintln(os.Stderr, err)
		return 2
	}
	defer f.Close()
	var scripts []dkgsim.Script
	sc := bufio.NewScanner(f)
	sc.Buffer(make([]byte, 1<<20), 1<<26)
	for sc.Scan() {
		if len(strings.TrimSpace(sc.Text())) == 0 {
			continue
		}
		var s dkgsim.Script
		if err := json.Unmarshal(sc.Bytes(), &s); err != nil {
			fmt.Fprintln(os.Stderr, "bad script:", err)
			return 2
		}
		scripts = append(scripts, s)
	}
	ch := make(chan outLine, 64)
	done := make(chan struct{})
	go writeLines(*out, ch, done)
	jobs := make(chan dkgsim.Script)
	var wg sync.WaitGroup
	for w := 0; w < runtime.NumCPU(); w++ {
		wg.Add(1)
		go func() {
			defer wg.Done()
			for s := range jobs {
				ch <- outLine{dkgsim.Run(s), s}
			}
		}()
	}
	for _, s := range scripts {
		jobs <- s
	}
	close(jobs)
	wg.Wait()
	close(ch)
	<-done
	return 0
}

func parseInts(s string) []int {
	out := []int{}
	for _, x := range strings.Split(s, ",") {
		if x == "" {
			continue
		}
		v, err := strconv.Atoi(x)
		if err != nil {
			panic(err)
		}
		out = append(out, v)
	}
	return out
}

// dkg-random: online randomised Byzantine runs on the real objects
func dkgRandom(args []string) int {
	fs := flag.NewFlagSet("dkg-random", flag.ExitOnError)
	proto := fs.String("proto", "qual", "qual | jf")
	n := fs.Int("n", 5, "")
	t := fs.Int("t", 2, "")
	dealer := fs.Int("dealer", 0, "")
	byz := fs.String("byz", "0", "comma separated")
	count := fs.Int("count", 100, "")
	seed := fs.Int64("seed", 1, "")
	maxbc := fs.Int("maxbc", 3, "")
	slack := fs.Int("slack", 1, "")
	prefix := fs.String("prefix", "r", "")
	grid := fs.Bool("grid", false, "systematic strategies of the first Byzantine participant instead of random scripts")
	stride := fs.Int("stride", 1, "grid mode: take every stride-th strategy, offset by the seed")
	out := fs.String("out", "", "")
	fs.Parse(args)
	ch := make(chan outLine, 64)
	done := make(chan struct{})
	go writeLines(*out, ch, done)
	jobs := make(chan int)
	var wg sync.WaitGroup
	for w := 0; w < runtime.NumCPU(); w++ {
		wg.Add(1)
		go func() {
			defer wg.Done()
			for i := range jobs {
				cfg := dkgsim.RandomConfig{ID: fmt.Sprintf("%s-%d", *prefix, i), Proto: *proto, N: *n, T: *t, Dealer: *dealer,
					Byz: parseInts(*byz), Seed: *seed*1000003 + int64(i), MaxBc: *maxbc, Slack: *slack, Grid: -1}
				if *grid {
					cfg.Grid = (i*(*stride) + int(*seed)%(*stride)) % (3 * dkgsim.GridStrategies)
					cfg.Seed = cfg.Seed*5 + 1 // the other Byzantine participants follow the subtle random profile
				}
				r, s := dkgsim.RunRandom(cfg)
				ch <- outLine{r, s}
			}
		}()
	}
	for i := 0; i < *count; i++ {
		jobs <- i
	}
	close(jobs)
	wg.Wait()
	close(ch)
	<-done
	return 0
}

func init() { commands["fvss-replay"] = fvssReplay }

// fvss-replay: cases enumerated by TLC on specs/fvss/FVSS.tla -> real plain Feldman VSS objects
func fvssReplay(args []string) int {
	fs := flag.NewFlagSet("fvss-replay", flag.ExitOnError)
	in := fs.String("in", "", "")
	out := fs.String("out", "", "")
	fs.Parse(args)
	f, err := os.Open(*in)
	if err != nil {
		fmt.Fprintln(os.Stderr, err)
		return 2
	}
	defer f.Close()
	var cases []dkgsim.FVSSCase
	sc := bufio.NewScanner(f)
	sc.Buffer(make([]byte, 1<<20), 1<<26)
	for sc.Scan() {
		var c dkgsim.FVSSCase
		if err := json.Unmarshal(sc.Bytes(), &c); err != nil {
			fmt.Fprintln(os.Stderr, "bad case:", err)
			return 2
		}
		cases = append(cases, c)
	}
	results := make([]dkgsim.FVSSResult, len(cases))
	jobs := make(chan int)
	var wg sync.WaitGroup
	for w := 0; w < runtime.NumCPU(); w++ {
		wg.Add(1)
		go func() {
			defer wg.Done()
			for i := range jobs {
				results[i] = dkgsim.RunFVSS(cases[i])
			}
		}()
	}
	for i := range cases {
		jobs <- i
	}
	close(jobs)
	wg.Wait()
	o, err := os.Create(*out)
	if err != nil {
		fmt.Fprintln(os.Stderr, err)
		return 2
	}
	w := bufio.NewWriter(o)
	enc := json.NewEncoder(w)
	for _, r := range results {
		enc.Encode(r)
	}
	w.Flush()
	o.Close()
	return 0
}

func init() { commands["api-replay"] = apiReplay }

// api-replay: call sequences enumerated by TLC on specs/dkg/DKGApi.tla -> real DKG instances
func apiReplay(args []string) int {
	fs := flag.NewFlagSet("api-replay", flag.ExitOnError)
	in := fs.String("in", "", "")
	out := fs.String("out", "", "")
	meta := fs.Int("meta-sample", 1, "metamorphic re-runs (floods, insertions) on one case in N (long cases always)")
	fs.Parse(args)
	dkgsim.MetaSample = uint32(*meta)
	f, err := os.Open(*in)
	if err != nil {
		fmt.Fprintln(os.Stderr, err)
		return 2
	}
	defer f.Close()
	var cases []dkgsim.APICase
	sc := bufio.NewScanner(f)
	sc.Buffer(make([]byte, 1<<20), 1<<26)
	for sc.Scan() {
		var c dkgsim.APICase
		if err := json.Unmarshal(sc.Bytes(), &c); err != nil {
			fmt.Fprintln(os.Stderr, "bad case:", err)
			return 2
		}
		cases = append(cases, c)
	}
	results := make([]dkgsim.APIResult, len(cases))
	jobs := make(chan int)
	var wg sync.WaitGroup
	for w := 0; w < runtime.NumCPU(); w++ {
		wg.Add(1)
		go func() {
			defer wg.Done()
			for i := range jobs {
				results[i] = dkgsim.RunAPI(cases[i])
			}
		}()
	}
	for i := range cases {
		jobs <- i
	}
	close(jobs)
	wg.Wait()
	o, err := os.Create(*out)
	if err != nil {
		fmt.Fprintln(os.Stderr, err)
		return 2
	}
	w := bufio.NewWriter(o)
	enc := json.NewEncoder(w)
	for _, r := range results {
		// keep the output small: the case is only echoed when something is to be reported
		if len(r.Violations) == 0 && len(r.Notes) == 0 {
			r.Case = dkgsim.APICase{ID: r.Case.ID, Proto: r.Case.Proto, Me: r.Case.Me}
		}
		enc.Encode(r)
	}
	w.Flush()
	o.Close()
	return 0
}

func init() { commands["dkg-abstract"] = dkgAbstract }

// dkg-abstract: raw traces of the repository's own DKG tests (hook verifTraceDKG) -> abstract per-instance traces
func dkgAbstract(args []string) int {
	fs := flag.NewFlagSet("dkg-abstract", flag.ExitOnError)
	dir := fs.String("dir", "", "")
	out := fs.String("out", "", "output directory: one <kind>-<n>-<t>.ndjson per configuration")
	fs.Parse(args)
	trs, err := dkgsim.AbstractRepoTraces(*dir)
	if err != nil {
		fmt.Fprintln(os.Stderr, err)
		return 2
	}
	for key, tr := range trs {
		if err := writeJSONLines(filepath.Join(*out, key+".ndjson"), tr.Events); err != nil {
			fmt.Fprintln(os.Stderr, err)
			return 2
		}
	}
	return 0
}

func init() { commands["dkg-big"] = dkgBig }

// dkg-big --in cases.ndjson --out results.ndjson: all-honest runs at the edges of the size / threshold ranges
func dkgBig(args []string) int {
	fs := flag.NewFlagSet("dkg-big", flag.ExitOnError)
	in := fs.String("in", "", "")
	out := fs.String("out", "", "")
	fs.Parse(args)
	var cases []dkgsim.BigCase
	if err := readLines(*in, func(b []byte) error {
		var c dkgsim.BigCase
		if err := json.Unmarshal(b, &c); err != nil {
			return err
		}
		cases = append(cases, c)
		return nil
	}); err != nil {
		fmt.Fprintln(os.Stderr, err)
		return 2
	}
	res := make([]dkgsim.BigResult, len(cases))
	parallel(len(cases), func(i int) { res[i] = dkgsim.RunBig(cases[i]) })
	if err := writeJSONLines(*out, res); err != nil {
		fmt.Fprintln(os.Stderr, err)
		return 2
	}
	return 0
}

func init() { commands["dkg-refdeal"] = dkgRefDeal }

// dkg-refdeal --in cases.ndjson --out results.ndjson: a reference (harness-implemented, protocol-following) dealer with shaped polynomials
func dkgRefDeal(args []string) int {
	fs := flag.NewFlagSet("dkg-refdeal", flag.ExitOnError)
	in := fs.String("in", "", "")
	out := fs.String("out", "", "")
	fs.Parse(args)
	var cases []dkgsim.RefDealCase
	if err := readLines(*in, func(b []byte) error {
		var c dkgsim.RefDealCase
		if err := json.Unmarshal(b, &c); err != nil {
			return err
		}
		cases = append(cases, c)
		return nil
	}); err != nil {
		fmt.Fprintln(os.Stderr, err)
		return 2
	}
	res := make([]dkgsim.RefDealResult, len(cases))
	parallel(len(cases), func(i int) { res[i] = dkgsim.RunRefDeal(cases[i]) })
	if err := writeJSONLines(*out, res); err != nil {
		fmt.Fprintln(os.Stderr, err)
		return 2
	}
	return 0
}
