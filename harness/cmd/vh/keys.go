package main

import (
	"encoding/json"

	"verifharness/blsx"
	"verifharness/keyx"
)

func init() {
	wrap := func(f func(json.RawMessage, int64) keyx.Result) func(json.RawMessage, int64) blsx.Result {
		return func(c json.RawMessage, seed int64) blsx.Result {
			r := f(c, seed)
			out := blsx.Result{ID: r.ID, Evals: r.Evals}
			for _, v := range r.Violations {
				out.Violations = append(out.Violations, blsx.Violation{Property: v.Property, Predicate: v.Predicate, Detail: v.Detail})
			}
			if out.Violations == nil {
				out.Violations = []blsx.Violation{}
			}
			return out
		}
	}
	blsx.Runners["ecdsa"] = wrap(keyx.RunECDSA)
	blsx.Runners["keygen"] = wrap(keyx.RunKeyGen)
	blsx.Runners["keygen-leading-zeros"] = wrap(func(c json.RawMessage, seed int64) keyx.Result { return keyx.RunLeadingZeros(seed, false) })
	blsx.Runners["keygen-structured-scalars"] = wrap(func(c json.RawMessage, seed int64) keyx.Result { return keyx.RunStructuredScalars(seed) })
	blsx.Runners["keygen-after-noise"] = wrap(func(c json.RawMessage, seed int64) keyx.Result { return keyx.RunKeyGenAfterNoise(seed) })
	blsx.Runners["keygen-leading-zeros-deep"] = wrap(func(c json.RawMessage, seed int64) keyx.Result { return keyx.RunLeadingZeros(seed, true) })
}
