package main

import (
	"flag"
	"os"

	"verifharness/transx"
)

func init() {
	commands["transcript"] = func(args []string) int {
		fs := flag.NewFlagSet("transcript", flag.ExitOnError)
		seed := fs.Int64("seed", 1, "")
		nobls := fs.Bool("nobls", false, "only the sections that do not need cgo")
		fs.Parse(args)
		transx.Write(os.Stdout, *seed, !*nobls)
		return 0
	}
}
