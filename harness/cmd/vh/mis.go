package main

import (
	"encoding/json"

	"verifharness/blsx"
	"verifharness/misx"
)

func init() {
	blsx.Runners["misuse"] = func(c json.RawMessage, seed int64) blsx.Result {
		r := misx.Run(c, seed)
		out := blsx.Result{ID: r.ID, Evals: r.Evals, Violations: []blsx.Violation{}}
		for _, v := range r.Violations {
			out.Violations = append(out.Violations, blsx.Violation{Property: v.Property, Predicate: v.Predicate + "|" + v.Key, Detail: v.Detail})
		}
		return out
	}
}
