package main

import (
	"bufio"
	"encoding/json"
	"flag"
	"fmt"
	"os"
	"runtime"
	"sync"

	"verifharness/ref"
	"verifharness/thresh"
)

func init() {
	commands["thresh-math"] = threshMath
	commands["thresh-seq"] = threshSeq
	commands["thresh-conc"] = threshConc
}

func readLines(path string, f func([]byte) error) error {
	fh, err := os.Open(path)
	if err != nil {
		return err
	}
	defer fh.Close()
	sc := bufio.NewScanner(fh)
	sc.Buffer(make([]byte, 1<<20), 1<<26)
	for sc.Scan() {
		if len(sc.Bytes()) == 0 {
			continue
		}
		if err := f(sc.Bytes()); err != nil {
			return err
		}
	}
	return sc.Err()
}

func writeJSONLines[T any](path string, items []T) error {
	o, err := os.Create(path)
	if err != nil {
		return err
	}
	w := bufio.NewWriterSize(o, 1<<20)
	enc := json.NewEncoder(w)
	for _, r := range items {
		if err := enc.Encode(r); err != nil {
			return err
		}
	}
	w.Flush()
	return o.Close()
}

func parallel(n int, f func(i int)) {
	jobs := make(chan int)
	var wg sync.WaitGroup
	for w := 0; w < runtime.NumCPU(); w++ {
		wg.Add(1)
		go func() {
			defer wg.Done()
			for i := range jobs {
				f(i)
			}
		}()
	}
	for i := 0; i < n; i++ {
		jobs <- i
	}
	close(jobs)
	wg.Wait()
}

func threshMath(args []string) int {
	fs := flag.NewFlagSet("thresh-math", flag.ExitOnError)
	in := fs.String("in", "", "")
	out := fs.String("out", "", "")
	fs.Parse(args)
	if err := ref.SelfTest(); err != nil {
		fmt.Fprintln(os.Stderr, err)
		return 2
	}
	var cases []thresh.MathCase
	if err := readLines(*in, func(b []byte) error {
		var c thresh.MathCase
		if err := json.Unmarshal(b, &c); err != nil {
			return err
		}
		cases = append(cases, c)
		return nil
	}); err != nil {
		fmt.Fprintln(os.Stderr, err)
		return 2
	}
	res := make([]thresh.MathResult, len(cases))
	parallel(len(cases), func(i int) { res[i] = thresh.RunMath(cases[i]) })
	if err := writeJSONLines(*out, res); err != nil {
		fmt.Fprintln(os.Stderr, err)
		return 2
	}
	return 0
}

func threshSeq(args []string) int {
	fs := flag.NewFlagSet("thresh-seq", flag.ExitOnError)
	in := fs.String("in", "", "")
	out := fs.String("out", "", "")
	fs.Parse(args)
	var cases []thresh.SeqCase
	if err := readLines(*in, func(b []byte) error {
		var c thresh.SeqCase
		if err := json.Unmarshal(b, &c); err != nil {
			return err
		}
		cases = append(cases, c)
		return nil
	}); err != nil {
		fmt.Fprintln(os.Stderr, err)
		return 2
	}
	// a handful of key sets per (n, t), shared read-only by all cases
	type key struct{ n, t, s int }
	groups := map[key]*thresh.Group{}
	truths := map[key][]byte{}
	for _, c := range cases {
		k := key{c.N, c.T, int(c.Seed % 3)}
		if _, ok := groups[k]; !ok {
			g, err := thresh.NewGroup(c.N, c.T, int64(1000+k.s))
			if err != nil {
				fmt.Fprintln(os.Stderr, err)
				return 2
			}
			groups[k] = g
			truths[k] = g.Truth()
		}
	}
	res := make([]thresh.SeqResult, len(cases))
	parallel(len(cases), func(i int) {
		k := key{cases[i].N, cases[i].T, int(cases[i].Seed % 3)}
		res[i] = thresh.RunSeq(cases[i], groups[k], truths[k])
	})
	if err := writeJSONLines(*out, res); err != nil {
		fmt.Fprintln(os.Stderr, err)
		return 2
	}
	return 0
}

func threshConc(args []string) int {
	fs := flag.NewFlagSet("thresh-conc", flag.ExitOnError)
	out := fs.String("out", "", "")
	count := fs.Int("count", 100, "")
	seed := fs.Int64("seed", 1, "")
	n := fs.Int("n", 4, "")
	t := fs.Int("t", 1, "")
	gor := fs.Int("g", 4, "")
	ops := fs.Int("ops", 3, "")
	chaos := fs.Bool("chaos", false, "")
	boundary := fs.Bool("boundary", false, "short histories: exactly the concurrent adds that cross the t+1 boundary")
	fs.Parse(args)
	g, err := thresh.NewGroup(*n, *t, *seed)
	if err != nil {
		fmt.Fprintln(os.Stderr, err)
		return 2
	}
	truth := g.Truth()
	hs := make([]thresh.History, *count)
	// histories one after the other: each one already uses several goroutines; a few in parallel to add scheduling noise
	sem := make(chan struct{}, 4)
	var wg sync.WaitGroup
	for i := 0; i < *count; i++ {
		wg.Add(1)
		sem <- struct{}{}
		go func(i int) {
			defer wg.Done()
			var ch func()
			if *chaos {
				ch = thresh.Yield
			}
			hs[i] = thresh.Record(g, truth, fmt.Sprintf("h-%d-%d-%d-%d", *n, *t, *seed, i), *seed*100003+int64(i), *gor, *ops, ch, *boundary)
			<-sem
		}(i)
	}
	wg.Wait()
	if err := writeJSONLines(*out, hs); err != nil {
		fmt.Fprintln(os.Stderr, err)
		return 2
	}
	return 0
}
