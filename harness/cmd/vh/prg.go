package main

import (
	"encoding/json"
	"flag"
	"fmt"
	"os"
	"sync"

	"verifharness/prgx"
)

func init() {
	commands["prg-stream"] = prgStream
	commands["prg-sampling"] = prgSampling
}

func prgStream(args []string) int {
	fs := flag.NewFlagSet("prg-stream", flag.ExitOnError)
	in := fs.String("in", "", "")
	out := fs.String("out", "", "")
	seed := fs.Int64("seed", 1, "")
	fs.Parse(args)
	var cases []prgx.StreamCase
	if err := readLines(*in, func(b []byte) error {
		var c prgx.StreamCase
		if err := json.Unmarshal(b, &c); err != nil {
			return err
		}
		cases = append(cases, c)
		return nil
	}); err != nil {
		fmt.Fprintln(os.Stderr, err)
		return 2
	}
	res := make([]prgx.Result, len(cases)+1)
	parallel(len(cases), func(i int) { res[i] = prgx.RunStream(cases[i]) })
	res[len(cases)] = prgx.RunStreamArgs(*seed)
	if err := writeJSONLines(*out, res); err != nil {
		fmt.Fprintln(os.Stderr, err)
		return 2
	}
	return 0
}

type samplingOut struct {
	ID         string           `json:"id"`
	Evals      int              `json:"evals"`
	Violations []prgx.Violation `json:"violations"`
}

func prgSampling(args []string) int {
	fs := flag.NewFlagSet("prg-sampling", flag.ExitOnError)
	in := fs.String("in", "", "")
	out := fs.String("out", "", "")
	seed := fs.Int64("seed", 1, "")
	exhHi := fs.Uint64("exh-hi", 4096, "real UintN on every one-attempt tape for every n <= exh-hi")
	per := fs.Int("per", 20, "tapes per structured large n")
	fs.Parse(args)
	var cases []prgx.SamplingCase
	if err := readLines(*in, func(b []byte) error {
		var c prgx.SamplingCase
		if err := json.Unmarshal(b, &c); err != nil {
			return err
		}
		cases = append(cases, c)
		return nil
	}); err != nil {
		fmt.Fprintln(os.Stderr, err)
		return 2
	}
	// a sampler that panics on valid arguments gives no result at all: reported as a finding of the phase, not fatal to the run
	guard := func(phase string, f func() ([]prgx.Violation, int)) (v []prgx.Violation, ev int) {
		defer func() {
			if r := recover(); r != nil {
				v = append(v, prgx.Violation{Property: "C15", Predicate: "SamplerPanics", Detail: fmt.Sprintf("%s: a sampler panicked on valid arguments: %v", phase, r)})
			}
		}()
		return f()
	}
	res := make([]samplingOut, len(cases))
	parallel(len(cases), func(i int) {
		defer func() {
			if r := recover(); r != nil {
				res[i] = samplingOut{fmt.Sprintf("%s-%d-%d", cases[i].Kind, cases[i].N, cases[i].M), 0, []prgx.Violation{{Property: "C15", Predicate: "SamplerPanics", Detail: fmt.Sprintf("case %s n=%d m=%d: a sampler panicked on valid arguments: %v", cases[i].Kind, cases[i].N, cases[i].M, r)}}}
			}
		}()
		r, ev := prgx.RunSampling(cases[i])
		res[i] = samplingOut{r.ID, ev, r.Violations}
		// the Go transcription used beyond the tables is itself validated against the TLC tables
		if cases[i].Kind == "uintn" {
			for chunk, want := range cases[i].Table {
				sz, acc, val := prgx.SpecAttempt(uint64(cases[i].N), uint64(chunk))
				if sz != cases[i].Size || acc != (want >= 0) || (acc && int(val) != want) {
					res[i].Violations = append(res[i].Violations, prgx.Violation{Property: "HARNESS", Predicate: "SpecTranscription",
						Detail: fmt.Sprintf("n=%d chunk=%d", cases[i].N, chunk)})
					break
				}
			}
		}
	})
	// exhaustive one-attempt tapes on the real code, in slices
	const slice = 64
	var mu sync.Mutex
	nslices := int((*exhHi + slice - 1) / slice)
	ex := make([]samplingOut, nslices)
	parallel(nslices, func(i int) {
		lo := uint64(i*slice + 1)
		hi := lo + slice - 1
		if hi > *exhHi {
			hi = *exhHi
		}
		v, ev := guard(fmt.Sprintf("UintN on every one-attempt tape, n = %d..%d", lo, hi), func() ([]prgx.Violation, int) { return prgx.ExhaustiveUintN(lo, hi) })
		mu.Lock()
		ex[i] = samplingOut{fmt.Sprintf("exhaustive-uintn-%d-%d", lo, hi), ev, v}
		mu.Unlock()
	})
	res = append(res, ex...)
	// structured large n around the byte / bit boundaries, exhaustively on two-byte chunks where they fit
	var structured []uint64
	for k := uint(8); k <= 16; k++ {
		structured = append(structured, (1<<k)-1, 1<<k, (1<<k)+1)
	}
	st := make([]samplingOut, len(structured))
	parallel(len(structured), func(i int) {
		v, ev := guard(fmt.Sprintf("UintN on every one-attempt tape, n = %d", structured[i]), func() ([]prgx.Violation, int) { return prgx.ExhaustiveUintN(structured[i], structured[i]) })
		st[i] = samplingOut{fmt.Sprintf("exhaustive-uintn-%d", structured[i]), ev, v}
	})
	res = append(res, st...)
	v, ev := guard("sampled large n", func() ([]prgx.Violation, int) { return prgx.SampledLargeN(*seed, *per) })
	res = append(res, samplingOut{"sampled-large-n", ev, v})
	v, ev = guard("rejection runs", func() ([]prgx.Violation, int) { return prgx.RejectionRuns(*seed) })
	res = append(res, samplingOut{"rejection-runs", ev, v})
	v, ev = guard("argument validation", func() ([]prgx.Violation, int) { return prgx.SamplingArgs(*seed), 20 })
	res = append(res, samplingOut{"arguments", ev, v})
	v, ev = guard("UintN sequences on one generator", func() ([]prgx.Violation, int) { return prgx.UintNSequences(*seed, 10*(*per)) })
	res = append(res, samplingOut{"uintn-sequences", ev, v})
	v, ev = guard("samplers on byte tapes", func() ([]prgx.Violation, int) { return prgx.SamplersOnTapes(*seed, 1+(*per)/10) })
	res = append(res, samplingOut{"samplers-on-tapes", ev, v})
	// validity of every sampler on a grid of (n, m), many seeded generators
	v, ev = prgx.ValidityGrid(*seed, *per)
	res = append(res, samplingOut{"validity-grid", ev, v})
	// algorithm-agnostic exact counting over the trie of source bytes
	jobs := []prgx.ExploreJob{{"perm", 2, 2, 2}, {"perm", 3, 3, 2}, {"shuffle", 3, 3, 2}, {"subperm", 3, 1, 2}, {"subperm", 3, 2, 2}, {"subperm", 3, 3, 2}}
	for _, n := range []int{2, 3, 4, 5, 7, 8, 9, 16, 17, 33, 100} {
		jobs = append(jobs, prgx.ExploreJob{"samples", n, 1, 2}, prgx.ExploreJob{"samples", n, 2, 2}, prgx.ExploreJob{"subperm", n, 1, 2}, prgx.ExploreJob{"subperm", n, 2, 2})
	}
	if *exhHi > 4096 { // thorough tier: three source bytes
		for _, n := range []int{3, 4, 5, 6, 9, 17, 48} {
			jobs = append(jobs, prgx.ExploreJob{"samples", n, 3, 3}, prgx.ExploreJob{"subperm", n, 3, 3})
		}
		jobs = append(jobs, prgx.ExploreJob{"perm", 4, 4, 3}, prgx.ExploreJob{"shuffle", 4, 4, 3}, prgx.ExploreJob{"subperm", 4, 2, 3})
	}
	ej := make([]samplingOut, len(jobs))
	parallel(len(jobs), func(i int) {
		v, ev := guard(fmt.Sprintf("exact counting %v", jobs[i]), func() ([]prgx.Violation, int) { return prgx.RunExplore(jobs[i]) })
		ej[i] = samplingOut{fmt.Sprintf("explore-%s-%d-%d-depth%d", jobs[i].Kind, jobs[i].N, jobs[i].M, jobs[i].Depth), ev, v}
	})
	res = append(res, ej...)
	// definitional comparisons apply only to an implementation that follows the transcribed algorithm where exact counting can tell
	if prgx.MappingMismatches > 0 {
		for i := range res {
			for j := range res[i].Violations {
				if p := res[i].Violations[j].Predicate; p == "UintNDefinition" || p == "UintNRejection" || res[i].ID == "samplers-on-tapes" {
					res[i].Violations[j].Property = "NOTE"
				}
			}
		}
	}
	for i := range res {
		if res[i].Violations == nil {
			res[i].Violations = []prgx.Violation{}
		}
	}
	if err := writeJSONLines(*out, res); err != nil {
		fmt.Fprintln(os.Stderr, err)
		return 2
	}
	return 0
}
