package main

import (
	"encoding/json"
	"flag"
	"fmt"
	"os"

	"verifharness/hashx"
)

func init() { commands["hash-run"] = hashRun }

type hashJob struct {
	Kind     string      `json:"kind"` // history | sweep | kmac
	Case     hashx.HCase `json:"case"`
	Algo     string      `json:"algo"`
	MaxLen   int         `json:"maxlen"`
	Three    int         `json:"three"`
	Boundary []int       `json:"boundary"`
	Dense    bool        `json:"dense"`
	Seed     int64       `json:"seed"`
}

func hashRun(args []string) int {
	fs := flag.NewFlagSet("hash-run", flag.ExitOnError)
	in := fs.String("in", "", "")
	out := fs.String("out", "", "")
	fs.Parse(args)
	var jobs []hashJob
	if err := readLines(*in, func(b []byte) error {
		var j hashJob
		if err := json.Unmarshal(b, &j); err != nil {
			return err
		}
		jobs = append(jobs, j)
		return nil
	}); err != nil {
		fmt.Fprintln(os.Stderr, err)
		return 2
	}
	res := make([]hashx.Result, len(jobs))
	parallel(len(jobs), func(i int) {
		j := jobs[i]
		switch j.Kind {
		case "history":
			res[i] = hashx.RunHistory(j.Case)
		case "sweep":
			res[i] = hashx.Sweep(j.Algo, j.MaxLen, j.Three, j.Seed)
		case "kmac":
			res[i] = hashx.KmacGrid(j.Boundary, j.Seed, j.Dense)
		}
	})
	if err := writeJSONLines(*out, res); err != nil {
		fmt.Fprintln(os.Stderr, err)
		return 2
	}
	return 0
}
