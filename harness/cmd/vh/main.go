// vh: the Go side of the verification harness. One binary, sub-commands per spec family.
package main

import (
	"fmt"
	"os"
)

var commands = map[string]func(args []string) int{}

func main() {
	if len(os.Args) < 2 {
		fmt.Fprintln(os.Stderr, "usage: vh <command> [flags]")
		os.Exit(2)
	}
	f, ok := commands[os.Args[1]]
	if !ok {
		fmt.Fprintln(os.Stderr, "unknown command", os.Args[1])
		os.Exit(2)
	}
	os.Exit(f(os.Args[2:]))
}
