// Package prgx executes cases of specs/prg (ChaChaPRG, Sampling) on the real random package (C14, C15).
package prgx

import (
	"bytes"
	"encoding/json"
	"fmt"
	"math"
	"math/rand"
	"strconv"
	"sync/atomic"

	"github.com/onflow/crypto/random"
	"verifharness/ref"
)

type Violation struct {
	Property  string `json:"property"`
	Predicate string `json:"predicate"`
	Detail    string `json:"detail"`
}

// ---------------- C14

type StreamPos struct {
	B uint64 `json:"b"` // 64-byte blocks
	O uint64 `json:"o"` // offset inside the block
}

// UnmarshalJSON: the specification writes the blocks at the end of the stream as negative numbers (-1 = block 2^32 - 1)
func (p *StreamPos) UnmarshalJSON(data []byte) error {
	var raw struct {
		B int64  `json:"b"`
		O uint64 `json:"o"`
	}
	if err := json.Unmarshal(data, &raw); err != nil {
		return err
	}
	p.O = raw.O
	if raw.B < 0 {
		p.B = uint64(int64(1)<<32 + raw.B)
	} else {
		p.B = uint64(raw.B)
	}
	return nil
}

type StreamOp struct {
	Op   string    `json:"op"`
	G    int       `json:"g"`
	K    int       `json:"k"`
	From StreamPos `json:"from"`
	Path string    `json:"path"`
}

type StreamCase struct {
	ID   string     `json:"id"`
	Seed int64      `json:"seed"`
	Hist []StreamOp `json:"hist"`
}

type Result struct {
	ID         string      `json:"id"`
	Violations []Violation `json:"violations"`
}

func RunStream(c StreamCase) (res Result) {
	res.ID = c.ID
	res.Violations = []Violation{}
	add := func(pred, detail string) {
		res.Violations = append(res.Violations, Violation{"C14", pred, fmt.Sprintf("%s [case %s seed %d ops %v]", detail, c.ID, c.Seed, c.Hist)})
	}
	defer func() {
		if r := recover(); r != nil {
			res.Violations = append(res.Violations, Violation{"C09", "NoPanic", fmt.Sprintf("chacha PRG ops %v: panic: %v", c.Hist, r)})
		}
	}()
	rng := rand.New(rand.NewSource(c.Seed))
	key := make([]byte, 32)
	rng.Read(key)
	cust := make([]byte, rng.Intn(13))
	rng.Read(cust)
	nonce := make([]byte, 12)
	copy(nonce, cust)
	g0, err := random.NewChacha20PRG(key, cust)
	if err != nil {
		add("Constructor", err.Error())
		return
	}
	gens := []random.Rand{g0}
	var kept [][]byte // the slices Store() returned, kept as they are (not copied)
	for i, op := range c.Hist {
		switch op.Op {
		case "store":
			kept = append(kept, gens[op.G-1].Store())
		case "restore":
			buf := append([]byte(nil), kept[op.K-1]...) // the caller's buffer, reused after the call
			g2, err := random.RestoreChacha20PRG(buf)
			if err != nil {
				add("Restore", err.Error())
				return
			}
			for j := range buf {
				buf[j] = 0xEE
			}
			gens = append(gens, g2)
		case "read":
			buf := make([]byte, op.K)
			for j := range buf { // the output must not depend on what the buffer held
				buf[j] = byte(rng.Intn(256))
			}
			gens[op.G-1].Read(buf)
			from := op.From.B*64 + op.From.O
			want := ref.ChaChaStream(key, nonce, from, op.K)
			if !bytes.Equal(buf, want) {
				add("KeystreamRFC8439", fmt.Sprintf("op %d: Read(%d) on generator %d is not keystream[%d,%d)", i, op.K, op.G, from, from+uint64(op.K)))
				return
			}
		case "craft": // a state written by hand: seed || zero-padded customizer || little-endian byte counter
			st := append(append([]byte{}, key...), nonce...)
			cnt := op.From.B*64 + op.From.O
			for b := 0; b < 8; b++ {
				st = append(st, byte(cnt>>(8*uint(b))))
			}
			g2, err := random.RestoreChacha20PRG(st)
			if err != nil {
				add("Restore", err.Error())
				return
			}
			if !bytes.Equal(g2.Store(), st) {
				add("StoreLayout", fmt.Sprintf("op %d: Store() after restoring %x gives %x", i, st, g2.Store()))
			}
			gens[0] = g2
		case "fork":
			st := gens[op.G-1].Store()
			if len(st) != 52 || !bytes.Equal(st[:32], key) || !bytes.Equal(st[32:44], nonce) {
				add("StoreLayout", fmt.Sprintf("op %d: Store() = %x", i, st))
			}
			buf := append([]byte(nil), st...)
			g2, err := random.RestoreChacha20PRG(buf)
			if err != nil {
				add("Restore", err.Error())
				return
			}
			for j := range buf {
				buf[j] = 0xEE
			}
			gens = append(gens, g2)
		}
	}
	// whatever is derived from the stream continues identically after Store/Restore (not for generators placed in the last blocks
	// of the stream: the draws below would run beyond its end)
	for _, op := range c.Hist {
		if op.Op == "craft" && op.From.B >= 1<<32-8 {
			return
		}
	}
	for gi, g := range gens {
		st := g.Store()
		g2, err := random.RestoreChacha20PRG(st)
		if err != nil {
			add("Restore", err.Error())
			return
		}
		for k := 0; k < 4; k++ {
			n := uint64(1 + rng.Intn(100000))
			if a, b := g.UintN(n), g2.UintN(n); a != b {
				add("DerivedOutputsResume", fmt.Sprintf("generator %d: UintN(%d) %d vs %d after restore", gi+1, n, a, b))
			}
		}
		p1, _ := g.Permutation(9)
		p2, _ := g2.Permutation(9)
		if fmt.Sprint(p1) != fmt.Sprint(p2) {
			add("DerivedOutputsResume", fmt.Sprintf("generator %d: Permutation differs after restore", gi+1))
		}
		s1, _ := g.SubPermutation(12, 5)
		s2, _ := g2.SubPermutation(12, 5)
		if fmt.Sprint(s1) != fmt.Sprint(s2) {
			add("DerivedOutputsResume", fmt.Sprintf("generator %d: SubPermutation differs after restore", gi+1))
		}
	}
	return
}

// constructor / restore argument classes (C14: "invalid seed, customizer or state lengths are rejected with an error")
func RunStreamArgs(seed int64) (res Result) {
	res.ID = "args"
	res.Violations = []Violation{}
	add := func(detail string) {
		res.Violations = append(res.Violations, Violation{"C14", "ArgumentLengths", detail})
	}
	defer func() {
		if r := recover(); r != nil {
			res.Violations = append(res.Violations, Violation{"C09", "NoPanic", fmt.Sprintf("chacha constructors: panic: %v", r)})
		}
	}()
	for sl := 0; sl <= 70; sl++ {
		for cl := 0; cl <= 70; cl++ { // 24 and 32 included: nonce sizes of other ChaCha variants
			_, err := random.NewChacha20PRG(make([]byte, sl), make([]byte, cl))
			if (err == nil) != (sl == 32 && cl <= 12) {
				add(fmt.Sprintf("NewChacha20PRG(seed len %d, customizer len %d): err=%v", sl, cl, err))
			}
		}
	}
	if _, err := random.NewChacha20PRG(nil, nil); err == nil {
		add("NewChacha20PRG(nil, nil) accepted")
	}
	for l := 0; l <= 110; l++ {
		_, err := random.RestoreChacha20PRG(make([]byte, l))
		if (err == nil) != (l == 52) {
			add(fmt.Sprintf("RestoreChacha20PRG(len %d): err=%v", l, err))
		}
	}
	// large reads (whole buffers of thousands of blocks, not multiples of 64), then Store / Restore: the stream and the counter
	rng := rand.New(rand.NewSource(seed))
	key := make([]byte, 32)
	rng.Read(key)
	nonce := make([]byte, 12)
	g, err := random.NewChacha20PRG(key, nil)
	if err != nil {
		add("NewChacha20PRG: " + err.Error())
		return
	}
	pos := uint64(0)
	for _, k := range []int{1000, 4096, 65536, 100001, 7, 64, 300000 + rng.Intn(1000)} {
		buf := make([]byte, k)
		for i := range buf {
			buf[i] = 0xA5 // a dirty buffer: Read must overwrite, not xor into it
		}
		g.Read(buf)
		if !bytes.Equal(buf, ref.ChaChaStream(key, nonce, pos, k)) {
			res.Violations = append(res.Violations, Violation{"C14", "KeystreamRFC8439", fmt.Sprintf("Read(%d) at offset %d is not the keystream", k, pos)})
			return
		}
		pos += uint64(k)
		g2, err := random.RestoreChacha20PRG(g.Store())
		if err != nil {
			add("Restore: " + err.Error())
			return
		}
		a, b := make([]byte, 150), make([]byte, 150)
		g2.Read(a)
		if !bytes.Equal(a, ref.ChaChaStream(key, nonce, pos, 150)) {
			res.Violations = append(res.Violations, Violation{"C14", "RestoreResumes", fmt.Sprintf("a generator restored after %d output bytes (last read %d) does not continue the stream", pos, k)})
			return
		}
		g.Read(b)
		pos += 150
		if !bytes.Equal(a, b) {
			res.Violations = append(res.Violations, Violation{"C14", "RestoreResumes", fmt.Sprintf("original and restored generator disagree after %d bytes", pos)})
			return
		}
	}
	return
}

// ---------------- C15

// tapeRand feeds the sampling helpers from an explicit byte tape; reading past the end yields zeros and is recorded
type tape struct {
	data     []byte
	pos      int
	overrun  bool
	requests []int
}

func (t *tape) read(b []byte) {
	t.requests = append(t.requests, len(b))
	for i := range b {
		if t.pos < len(t.data) {
			b[i] = t.data[t.pos]
		} else {
			b[i] = 0
			t.overrun = true
		}
		t.pos++
	}
}

type SamplingCase struct {
	Kind  string `json:"kind"`
	N     int    `json:"n"`
	M     int    `json:"m"`
	Size  int    `json:"size"`
	Mask  int    `json:"mask"`
	Table []int  `json:"table"`
	Rows  []struct {
		D   []int `json:"d"`
		Out []int `json:"out"`
	} `json:"rows"`
}

func RunSampling(c SamplingCase) (res Result, evals int) {
	res.ID = fmt.Sprintf("%s-%d-%d", c.Kind, c.N, c.M)
	res.Violations = []Violation{}
	add := func(pred, detail string) {
		if len(res.Violations) < 5 {
			res.Violations = append(res.Violations, Violation{"C15", pred, detail})
		}
	}
	defer func() {
		if r := recover(); r != nil {
			res.Violations = append(res.Violations, Violation{"C09", "NoPanic", fmt.Sprintf("sampling %s n=%d m=%d: panic: %v", c.Kind, c.N, c.M, r)})
		}
	}()
	switch c.Kind {
	case "uintn":
		// every one-attempt tape: chunk c, then zeros (always accepted)
		for chunk, want := range c.Table {
			t := &tape{data: leBytes(chunk, c.Size)}
			r := random.NewVerifRand(t.read)
			got := r.UintN(uint64(c.N))
			evals++
			if want >= 0 {
				if int(got) != want || t.pos != c.Size {
					add("UintNDefinition", fmt.Sprintf("UintN(%d) on chunk %d returned %d after %d bytes; the specification gives %d after %d", c.N, chunk, got, t.pos, want, c.Size))
				}
			} else {
				// rejected: exactly `size` more bytes are consumed, the zero chunk is accepted with value 0
				if got != 0 || t.pos != 2*c.Size {
					add("UintNRejection", fmt.Sprintf("UintN(%d) on rejected chunk %d returned %d after %d bytes", c.N, chunk, got, t.pos))
				}
			}
			if int(got) >= c.N {
				add("InRange", fmt.Sprintf("UintN(%d) = %d", c.N, got))
			}
		}
	case "perm":
		subMismatch := map[int]bool{}
		for _, row := range c.Rows {
			t := &tape{data: drawBytes(row.D, func(i int) int { return i + 1 })}
			r := random.NewVerifRand(t.read)
			got, err := r.Permutation(c.N)
			evals++
			if err != nil || fmt.Sprint(got) != fmt.Sprint(row.Out) || t.overrun || t.pos != len(t.data) {
				add("PermutationDefinition", fmt.Sprintf("Permutation(%d) on draws %v gave %v (err %v, tape %d/%d), the specification gives %v", c.N, row.D, got, err, t.pos, len(t.data), row.Out))
			}
			// SubPermutation(n, m) is the prefix of the same permutation
			for m := 0; m <= c.N; m++ {
				t2 := &tape{data: drawBytes(row.D, func(i int) int { return i + 1 })}
				sub, err := random.NewVerifRand(t2.read).SubPermutation(c.N, m)
				evals++
				if err != nil || len(sub) != m || !distinctInRange(sub, c.N) {
					add("SubPermutationValid", fmt.Sprintf("SubPermutation(%d,%d) on draws %v gave %v (err %v)", c.N, m, row.D, sub, err))
				} else if fmt.Sprint(sub) != fmt.Sprint(row.Out[:m]) && !subMismatch[m] {
					// not the prefix of Permutation(n) on the same draws: the documentation only promises "the m first elements of a
					// permutation", so another exactly uniform algorithm is allowed: decide by exact counting over the source bytes
					subMismatch[m] = true
					v, ev, decided := RunExploreDecided(ExploreJob{"subperm", c.N, m, 3})
					evals += ev
					if len(v) > 0 {
						res.Violations = append(res.Violations, v...)
					} else if !decided {
						add("SubPermutationDefinition", fmt.Sprintf("SubPermutation(%d,%d) on draws %v gave %v, not the prefix %v of the permutation, and it consumes more source bytes than exact counting covers", c.N, m, row.D, sub, row.Out[:m]))
					}
				}
			}
		}
	case "samples":
		for _, row := range c.Rows {
			arr := make([]int, c.N)
			for i := range arr {
				arr[i] = i
			}
			var swaps [][2]int
			swap := func(i, j int) {
				swaps = append(swaps, [2]int{i, j})
				if i < 0 || j < 0 || i >= c.N || j >= c.N {
					add("SwapInRange", fmt.Sprintf("Samples(%d,%d): swap(%d,%d)", c.N, c.M, i, j))
					return
				}
				arr[i], arr[j] = arr[j], arr[i]
			}
			t := &tape{data: drawBytes(row.D, func(i int) int { return c.N - i })}
			err := random.NewVerifRand(t.read).Samples(c.N, c.M, swap)
			evals++
			if err != nil || fmt.Sprint(arr) != fmt.Sprint(row.Out) || t.overrun || t.pos != len(t.data) || len(swaps) != c.M {
				add("SamplesDefinition", fmt.Sprintf("Samples(%d,%d) on draws %v gave %v with swaps %v (err %v), the specification gives %v", c.N, c.M, row.D, arr, swaps, err, row.Out))
			}
			if c.M == c.N { // Shuffle(n) = Samples(n, n)
				arr2 := make([]int, c.N)
				for i := range arr2 {
					arr2[i] = i
				}
				t2 := &tape{data: drawBytes(row.D, func(i int) int { return c.N - i })}
				err := random.NewVerifRand(t2.read).Shuffle(c.N, func(i, j int) { arr2[i], arr2[j] = arr2[j], arr2[i] })
				evals++
				if err != nil || fmt.Sprint(arr2) != fmt.Sprint(row.Out) {
					add("ShuffleDefinition", fmt.Sprintf("Shuffle(%d) on draws %v gave %v", c.N, row.D, arr2))
				}
			}
		}
	}
	return
}

func leBytes(v, size int) []byte {
	b := make([]byte, size)
	for i := 0; i < size; i++ {
		b[i] = byte(v >> (8 * i))
	}
	return b
}

// the tape that makes the k-th UintN(bound(k)) call return d[k]: one byte per call with bound > 1 (bounds <= 256)
func drawBytes(d []int, bound func(i int) int) []byte {
	var out []byte
	for i, x := range d {
		if bound(i) > 1 {
			out = append(out, byte(x))
		}
	}
	return out
}

// Spec transcription of one attempt (Sampling.tla: Size, Mask, Attempt), used beyond the tables emitted by TLC
// and itself validated against those tables.
func SpecAttempt(n uint64, chunk uint64) (size int, acc bool, val uint64) {
	max := n - 1
	for x := max; x != 0; x /= 256 {
		size++
	}
	mask := uint64(0)
	for max > mask {
		mask = 2*mask + 1
	}
	if mask == ^uint64(0) {
		val = chunk
	} else {
		val = chunk % (mask + 1)
	}
	return size, val <= max, val
}

// ExhaustiveUintN runs the real UintN(n) on EVERY one-attempt tape (all chunks of `size` bytes) for every n in [lo, hi]
// (size <= 2), compares with the specification and counts the preimages of every value: exact uniformity on the real code.
// MappingMismatches counts the one-attempt source prefixes on which the real UintN, while in range and exactly uniform, does not
// follow the transcription of today's algorithm.  When it is not zero the implementation uses another (uniform) mapping, and the
// checks that can only compare with that transcription (large n, sequences) do not apply: their findings become notes.
var MappingMismatches int64

func ExhaustiveUintN(lo, hi uint64) (viol []Violation, evals int) {
	for n := lo; n <= hi; n++ {
		size, _, _ := SpecAttempt(n, 0)
		if size > 2 {
			break
		}
		// every source prefix of `size` bytes: the real UintN either returns having consumed at most these bytes, or asks for more
		// (a rejected attempt).  The property (C15) is judged on what it returns: in range, and every value produced by the same
		// number of prefixes (exact uniformity, whatever the mapping from bytes to values is).  Agreement with the transcription of
		// today's algorithm (little-endian, mask, reject) is recorded, and is only decisive when counting cannot decide.
		total := 1 << (8 * uint(size))
		counts := make([]int, n)
		finished, mismatches := 0, 0
		firstMismatch := ""
		data := make([]byte, size)
		nn := n
		f := func(r random.Rand) string { return strconv.FormatUint(r.UintN(nn), 10) }
		for chunk := 0; chunk < total; chunk++ {
			for i := 0; i < size; i++ {
				data[i] = byte(chunk >> (8 * i))
			}
			out, consumed, more := runAbort(data, f)
			evals++
			_, acc, val := SpecAttempt(n, uint64(chunk))
			if more {
				if acc {
					mismatches++
					if firstMismatch == "" {
						firstMismatch = fmt.Sprintf("UintN(%d) asks for more than %d source bytes on chunk %d, which the specification accepts as %d", n, size, chunk, val)
					}
				}
				continue
			}
			got, _ := strconv.ParseUint(out, 10, 64)
			if got >= n {
				viol = append(viol, Violation{"C15", "InRange", fmt.Sprintf("UintN(%d) = %d on chunk %d", n, got, chunk)})
				return
			}
			finished++
			counts[got]++
			if !acc || got != val || consumed != size {
				mismatches++
				if firstMismatch == "" {
					firstMismatch = fmt.Sprintf("UintN(%d) on chunk %d: %d after %d bytes, specification: accepted=%v value %d after %d bytes", n, chunk, got, consumed, acc, val, size)
				}
			}
		}
		if finished == 0 {
			viol = append(viol, Violation{"C15", "UintNDefinition", fmt.Sprintf("UintN(%d) never returns within %d source bytes: exact counting cannot decide, and the specification is not followed (%s)", n, size, firstMismatch)})
			return
		}
		for v := uint64(0); v < n; v++ {
			if counts[v] != counts[0] || counts[v] == 0 {
				viol = append(viol, Violation{"C15", "ExactUniformity", fmt.Sprintf("UintN(%d): among all %d-byte source prefixes value 0 is produced by %d and value %d by %d%s", n, size, counts[0], v, counts[v],
					map[bool]string{true: "; " + firstMismatch, false: ""}[firstMismatch != ""])})
				return
			}
		}
		atomic.AddInt64(&MappingMismatches, int64(mismatches)) // a different, exactly uniform mapping is not a violation
	}
	return
}

// RejectionRuns: tapes that make UintN(n) reject R consecutive attempts before an accepted one, for R up to 40:
// the loop "repeat until accepted" must return the value of the first accepted chunk after consuming (R+1)*size bytes
func RejectionRuns(seed int64) (viol []Violation, evals int) {
	rng := rand.New(rand.NewSource(seed))
	ns := []uint64{3, 5, 6, 7, 9, 100, 129, 255, 257, 1000, 32769, 65537, (1 << 24) + 1, (1 << 32) + 1, (1 << 40) + 3, (1 << 63) + 1}
	for _, n := range ns {
		size, _, _ := SpecAttempt(n, 0)
		// a rejected and an accepted chunk value
		var rej, acc, accVal uint64
		foundR, foundA := false, false
		for tries := 0; tries < 10000 && !(foundR && foundA); tries++ {
			c := rng.Uint64()
			if size < 8 {
				c &= (uint64(1) << (8 * uint(size))) - 1
			}
			_, a, v := SpecAttempt(n, c)
			if a && !foundA {
				acc, accVal, foundA = c, v, true
			} else if !a && !foundR {
				rej, foundR = c, true
			}
		}
		if !foundR || !foundA {
			continue
		}
		for _, R := range []int{1, 2, 3, 7, 15, 16, 17, 31, 32, 33, 40} {
			var data []byte
			for k := 0; k < R; k++ {
				data = append(data, leBytes64(rej, size)...)
			}
			data = append(data, leBytes64(acc, size)...)
			t := &tape{data: data}
			got := random.NewVerifRand(t.read).UintN(n)
			evals++
			if got != accVal || t.pos != (R+1)*size {
				viol = append(viol, Violation{"C15", "UintNRejection", fmt.Sprintf("UintN(%d) after %d rejected attempts returned %d having consumed %d bytes; the first accepted chunk gives %d after %d bytes", n, R, got, t.pos, accVal, (R+1)*size)})
				if len(viol) > 3 {
					return
				}
			}
		}
	}
	return
}

func leBytes64(v uint64, size int) []byte {
	b := make([]byte, size)
	for i := 0; i < size; i++ {
		b[i] = byte(v >> (8 * uint(i)))
	}
	return b
}

// SampledLargeN: n = 2^k, 2^k +- 1 (k up to 64) and 2^64-1 on seeded tapes: the real result equals the specification's
func SampledLargeN(seed int64, per int) (viol []Violation, evals int) {
	rng := rand.New(rand.NewSource(seed))
	var ns []uint64
	for k := uint(1); k < 64; k++ {
		ns = append(ns, 1<<k, (1<<k)+1, (1<<k)-1)
	}
	ns = append(ns, ^uint64(0), ^uint64(0)-1, 1<<63, (1<<63)+1)
	for _, n := range ns {
		if n == 0 {
			continue
		}
		for r := 0; r < per; r++ {
			data := make([]byte, 64)
			rng.Read(data)
			t := &tape{data: data}
			got := random.NewVerifRand(t.read).UintN(n)
			evals++
			// replay the specification on the same tape
			size, _, _ := SpecAttempt(n, 0)
			pos := 0
			var want uint64
			for {
				var chunk uint64
				for i := 0; i < size; i++ {
					if pos+i < len(data) { // beyond the tape the source yields zeros
						chunk |= uint64(data[pos+i]) << (8 * uint(i))
					}
				}
				pos += size
				_, acc, val := SpecAttempt(n, chunk)
				if acc {
					want = val
					break
				}
			}
			if got != want || t.pos != pos || got >= n {
				viol = append(viol, Violation{"C15", "UintNDefinition", fmt.Sprintf("UintN(%d) on tape %x: %d after %d bytes, specification %d after %d", n, data[:16], got, t.pos, want, pos)})
				if len(viol) > 3 {
					return
				}
			}
		}
	}
	return
}

// argument validation and determinism (C15: "negative or inconsistent sizes return an error, equal seeds give equal outputs")
func SamplingArgs(seed int64) (viol []Violation) {
	add := func(d string) { viol = append(viol, Violation{"C15", "ArgumentsAndDeterminism", d}) }
	key := make([]byte, 32)
	rand.New(rand.NewSource(seed)).Read(key)
	mk := func() random.Rand { g, _ := random.NewChacha20PRG(key, []byte("verif")); return g }
	g := mk()
	nop := func(i, j int) {}
	if _, err := g.Permutation(-1); err == nil {
		add("Permutation(-1) accepted")
	}
	if _, err := g.SubPermutation(5, -1); err == nil {
		add("SubPermutation(5,-1) accepted")
	}
	if _, err := g.SubPermutation(5, 6); err == nil {
		add("SubPermutation(5,6) accepted")
	}
	if _, err := g.SubPermutation(-2, -1); err == nil {
		add("SubPermutation(-2,-1) accepted")
	}
	if err := g.Shuffle(-1, nop); err == nil {
		add("Shuffle(-1) accepted")
	}
	if err := g.Samples(5, -1, nop); err == nil {
		add("Samples(5,-1) accepted")
	}
	if err := g.Samples(5, 6, nop); err == nil {
		add("Samples(5,6) accepted")
	}
	if p, err := g.Permutation(0); err != nil || len(p) != 0 {
		add("Permutation(0)")
	}
	// the whole grid of small / zero / negative sizes: an error exactly for a negative or inconsistent size
	for _, n := range []int{math.MinInt, math.MinInt + 1, math.MinInt + 5, -(1 << 62), -(1 << 32), -(1 << 31), -5, -1, 0, 1, 2, 3, 17} { // extremes: n - m must not wrap
		_, err := g.Permutation(n)
		if (err != nil) != (n < 0) {
			add(fmt.Sprintf("Permutation(%d): err=%v", n, err))
		}
		if err := g.Shuffle(n, nop); (err != nil) != (n < 0) {
			add(fmt.Sprintf("Shuffle(%d): err=%v", n, err))
		}
		for _, m := range []int{math.MinInt, -(1 << 32), -2, -1, 0, 1, 2, 4, 10, 17, 18, math.MaxInt} {
			bad := n < 0 || m < 0 || m > n
			sp, err := g.SubPermutation(n, m)
			if (err != nil) != bad || (!bad && len(sp) != m) {
				add(fmt.Sprintf("SubPermutation(%d,%d): %v, err=%v; an error is expected: %v", n, m, sp, err, bad))
			}
			if err := g.Samples(n, m, nop); (err != nil) != bad {
				add(fmt.Sprintf("Samples(%d,%d): err=%v; an error is expected: %v", n, m, err, bad))
			}
		}
	}
	if p, err := g.SubPermutation(0, 0); err != nil || len(p) != 0 {
		add("SubPermutation(0,0)")
	}
	a, b := mk(), mk()
	for k := 0; k < 50; k++ {
		n := uint64(1 + k*k*7919)
		if a.UintN(n) != b.UintN(n) {
			add("equal seeds, different UintN")
		}
	}
	pa, _ := a.Permutation(40)
	pb, _ := b.Permutation(40)
	if fmt.Sprint(pa) != fmt.Sprint(pb) {
		add("equal seeds, different Permutation")
	}
	seen := map[int]bool{}
	for _, x := range pa {
		seen[x] = true
	}
	if len(seen) != 40 {
		add("Permutation(40) is not a permutation")
	}
	return
}
