package prgx

import (
	"fmt"
	"math/rand"
	"sort"

	"github.com/onflow/crypto/random"
)

// ---------------------------------------------------------------------------------------------------------------------
// Validity on a grid of (n, m) with many seeded tapes: whatever the algorithm, Permutation / SubPermutation / Samples /
// Shuffle must return valid arrangements (C15: "always a permutation", "m distinct elements", "only swaps that leave a
// permutation").  The grid brackets the places where an implementation is likely to switch strategy: m = 0, 1, 2, 3,
// n/16 -1/0/+1, n/8, n/2, n-1, n for n at and around powers of two and a few large n.
// ---------------------------------------------------------------------------------------------------------------------

func ValidityGrid(seed int64, per int) (viol []Violation, evals int) {
	add := func(pred, d string) {
		if len(viol) < 6 {
			viol = append(viol, Violation{"C15", pred, d})
		}
	}
	rng := rand.New(rand.NewSource(seed))
	ns := []int{1, 2, 3, 8, 15, 16, 17, 31, 32, 33, 48, 63, 64, 65, 100, 160, 255, 256, 257, 1000, 4096}
	for _, n := range ns {
		mset := map[int]bool{}
		for _, m := range []int{0, 1, 2, 3, n/16 - 1, n / 16, n/16 + 1, n / 8, n / 4, n / 2, n - 1, n} {
			if m >= 0 && m <= n {
				mset[m] = true
			}
		}
		var ms []int
		for m := range mset {
			ms = append(ms, m)
		}
		sort.Ints(ms)
		reps := per
		if n >= 1000 {
			reps = per/8 + 1
		}
		for _, m := range ms {
			for r := 0; r < reps; r++ {
				key := make([]byte, 32)
				rng.Read(key)
				g, err := random.NewChacha20PRG(key, nil)
				if err != nil {
					panic(err)
				}
				evals += 2
				// a sampler that panics on valid sizes (an index computed from an out-of-range draw) is reported, not fatal to the run
				func() {
					defer func() {
						if r := recover(); r != nil {
							add("InRange", fmt.Sprintf("samplers with n = %d, m = %d, PRG seed %x: panic: %v (a draw outside its range)", n, m, key, r))
						}
					}()
					validityOne(g, n, m, key, add, &evals)
				}()
			}
		}
	}
	return
}

func validityOne(g random.Rand, n, m int, key []byte, add func(pred, d string), evalsp *int) {
	evals := 0
	defer func() { *evalsp += evals }()
	sub, err := g.SubPermutation(n, m)
	if err != nil || len(sub) != m || !distinctInRange(sub, n) {
		add("SubPermutationValid", fmt.Sprintf("SubPermutation(%d,%d) with PRG seed %x returned %v (err %v): not %d distinct elements of [0,%d)", n, m, key, clip(sub), err, m, n))
	}
	arr := make([]int, n)
	for i := range arr {
		arr[i] = i
	}
	bad := false
	swaps := 0
	err = g.Samples(n, m, func(i, j int) {
		swaps++
		if i < 0 || j < 0 || i >= n || j >= n {
			bad = true
			return
		}
		arr[i], arr[j] = arr[j], arr[i]
	})
	if err != nil || bad || !distinctInRange(arr, n) {
		add("SamplesValid", fmt.Sprintf("Samples(%d,%d) with PRG seed %x: err %v, swap out of range %v", n, m, key, err, bad))
	}
	if m == n {
		evals++
		p, err := g.Permutation(n)
		if err != nil || len(p) != n || !distinctInRange(p, n) {
			add("PermutationValid", fmt.Sprintf("Permutation(%d) with PRG seed %x returned %v (err %v)", n, key, clip(p), err))
		}
	}
	return
}

func distinctInRange(a []int, n int) bool {
	seen := make([]bool, n)
	for _, x := range a {
		if x < 0 || x >= n || seen[x] {
			return false
		}
		seen[x] = true
	}
	return true
}

func clip(a []int) []int {
	if len(a) > 24 {
		return a[:24]
	}
	return a
}

// ---------------------------------------------------------------------------------------------------------------------
// Algorithm-agnostic exact counting.  A sampler is a deterministic function of the source bytes it consumes.  ExploreTapes
// walks the trie of byte tapes: a sampler run on a tape that aborts when it asks for a byte beyond the tape either returns
// (leaf: the outcome, reached with probability 256^-consumed) or asks for more (inner node: extended by all 256 bytes),
// down to `depth` bytes.  The result is, for every outcome, the exact number of depth-byte tapes that produce it.
// For every sampler built from UintN draws (rejection is independent of the accepted value) exact uniformity makes these
// numbers equal for all outcomes, at every depth; a biased draw, a wrong bound or a lost outcome makes them differ.
// ---------------------------------------------------------------------------------------------------------------------

type needMore struct{}

type abortTape struct {
	data []byte
	pos  int
}

func (t *abortTape) read(b []byte) {
	for i := range b {
		if t.pos >= len(t.data) {
			panic(needMore{})
		}
		b[i] = t.data[t.pos]
		t.pos++
	}
}

// runAbort: outcome of f on the tape, or more = true if it asked for a byte beyond it
func runAbort(data []byte, f func(r random.Rand) string) (out string, consumed int, more bool) {
	t := &abortTape{data: data}
	defer func() {
		if p := recover(); p != nil {
			if _, ok := p.(needMore); ok {
				more = true
				return
			}
			panic(p)
		}
	}()
	out = f(random.NewVerifRand(t.read))
	return out, t.pos, false
}

// ExploreTapes returns counts[outcome] in units of tapes of exactly `depth` bytes, and the number of runs performed
func ExploreTapes(f func(r random.Rand) string, depth int) (counts map[string]uint64, runs int) {
	counts = map[string]uint64{}
	pow := func(k int) uint64 {
		v := uint64(1)
		for i := 0; i < k; i++ {
			v *= 256
		}
		return v
	}
	var rec func(prefix []byte)
	rec = func(prefix []byte) {
		out, consumed, more := runAbort(prefix, f)
		runs++
		if !more {
			_ = consumed
			counts[out] += pow(depth - len(prefix))
			return
		}
		if len(prefix) == depth {
			return // unfinished at this depth: rejected draws, not counted
		}
		next := append(append([]byte(nil), prefix...), 0)
		for v := 0; v < 256; v++ {
			next[len(prefix)] = byte(v)
			rec(next)
		}
	}
	rec(nil)
	return
}

type ExploreJob struct {
	Kind  string // perm | subperm | samples | shuffle
	N, M  int
	Depth int
}

// expected number of outcomes
func outcomesOf(j ExploreJob) uint64 {
	m := j.M
	if j.Kind == "perm" || j.Kind == "shuffle" {
		m = j.N
	}
	v := uint64(1)
	for i := 0; i < m; i++ {
		v *= uint64(j.N - i)
	}
	return v
}

// RunExplore: exact counting for one sampler call; every outcome must be valid, all n!/(n-m)! outcomes must be produced by
// the same number of tapes.
func RunExplore(j ExploreJob) (viol []Violation, evals int) {
	viol, evals, _ = RunExploreDecided(j)
	return
}

// RunExploreDecided also tells whether any run finished within the depth (otherwise there is no verdict)
func RunExploreDecided(j ExploreJob) (viol []Violation, evals int, decided bool) {
	add := func(pred, d string) {
		if len(viol) < 4 {
			viol = append(viol, Violation{"C15", pred, d})
		}
	}
	label := fmt.Sprintf("%s(%d,%d)", j.Kind, j.N, j.M)
	f := func(r random.Rand) string {
		switch j.Kind {
		case "perm":
			p, err := r.Permutation(j.N)
			if err != nil || len(p) != j.N || !distinctInRange(p, j.N) {
				return fmt.Sprintf("INVALID %v %v", p, err)
			}
			return fmt.Sprint(p)
		case "subperm":
			p, err := r.SubPermutation(j.N, j.M)
			if err != nil || len(p) != j.M || !distinctInRange(p, j.N) {
				return fmt.Sprintf("INVALID %v %v", p, err)
			}
			return fmt.Sprint(p)
		}
		arr := make([]int, j.N)
		for i := range arr {
			arr[i] = i
		}
		bad := false
		swap := func(a, b int) {
			if a < 0 || b < 0 || a >= j.N || b >= j.N {
				bad = true
				return
			}
			arr[a], arr[b] = arr[b], arr[a]
		}
		var err error
		m := j.M
		if j.Kind == "shuffle" {
			err = r.Shuffle(j.N, swap)
			m = j.N
		} else {
			err = r.Samples(j.N, j.M, swap)
		}
		if err != nil || bad || !distinctInRange(arr, j.N) {
			return fmt.Sprintf("INVALID %v %v", arr, err)
		}
		return fmt.Sprint(arr[:m]) // the ordered sample
	}
	counts, runs := ExploreTapes(f, j.Depth)
	evals = runs
	if len(counts) == 0 {
		return // nothing finishes within the depth: this sampler draws more bytes than the exploration covers, no verdict
	}
	decided = true
	var first uint64
	var firstKey string
	for k, c := range counts {
		if len(k) >= 7 && k[:7] == "INVALID" {
			add("ValidOutcome", fmt.Sprintf("%s returns an invalid arrangement on some source bytes: %s", label, k))
			return
		}
		if first == 0 {
			first, firstKey = c, k
		} else if c != first {
			add("EquallyLikely", fmt.Sprintf("%s: among all %d-byte source prefixes, outcome %s is produced by %d of them and outcome %s by %d: the outcomes are not equally likely",
				label, j.Depth, firstKey, first, k, c))
			return
		}
	}
	if uint64(len(counts)) != outcomesOf(j) {
		add("EquallyLikely", fmt.Sprintf("%s: %d distinct outcomes are produced by the %d-byte source prefixes, there are %d arrangements: some are never produced",
			label, len(counts), j.Depth, outcomesOf(j)))
	}
	return
}

// UintNSequences: MANY UintN calls with varying n on ONE generator (scratch state carried from one draw to the next): every result
// and the bytes consumed must be what the specification prescribes for that position of the tape.
func UintNSequences(seed int64, count int) (viol []Violation, evals int) {
	rng := rand.New(rand.NewSource(seed))
	var ns []uint64
	for k := uint(1); k < 64; k++ {
		ns = append(ns, 1<<k, (1<<k)+1, (1<<k)-1)
	}
	ns = append(ns, ^uint64(0), 1, 2, 3, 255, 256, 257, 1000, 65535, 65536, 65537, 1<<40+12345, 1<<56, 1<<48, 1<<32, 1<<24, 1<<16)
	for c := 0; c < count; c++ {
		data := make([]byte, 8192)
		rng.Read(data)
		t := &tape{data: data}
		r := random.NewVerifRand(t.read)
		pos := 0
		for step := 0; step < 60; step++ {
			n := ns[rng.Intn(len(ns))]
			if step%3 == 2 { // a power of 256 right after a draw that pulled more bytes
				n = uint64(1) << (8 * uint(1+rng.Intn(7)))
			}
			got := r.UintN(n)
			evals++
			size, _, _ := SpecAttempt(n, 0)
			var want uint64
			for {
				var chunk uint64
				for i := 0; i < size; i++ {
					if pos+i < len(data) {
						chunk |= uint64(data[pos+i]) << (8 * uint(i))
					}
				}
				pos += size
				_, acc, val := SpecAttempt(n, chunk)
				if acc {
					want = val
					break
				}
			}
			if got != want || t.pos != pos || got >= n {
				viol = append(viol, Violation{"C15", "UintNDefinition", fmt.Sprintf("draw %d of a sequence on one generator: UintN(%d) = %d after %d source bytes, the specification gives %d after %d [seed %d, sequence %d]", step, n, got, t.pos, want, pos, seed, c)})
				return
			}
		}
	}
	return
}

// specUintNOnTape replays the transcription of UintN on a byte tape from position *pos (zeros beyond the tape)
func specUintNOnTape(n uint64, data []byte, pos *int) uint64 {
	size, _, _ := SpecAttempt(n, 0)
	for {
		var chunk uint64
		for i := 0; i < size; i++ {
			if *pos+i < len(data) {
				chunk |= uint64(data[*pos+i]) << (8 * uint(i))
			}
		}
		*pos += size
		if _, acc, val := SpecAttempt(n, chunk); acc {
			return val
		}
	}
}

// SamplersOnTapes: Samples, Shuffle and Permutation at populations that cross the byte and bit boundaries of their draws on the
// way down (512, 256, 65536, ...): the swap sequence / the permutation must be the documented Fisher-Yates over UintN draws
// (Samples: swap(i, i + UintN(n-i)); Permutation: inside-out with UintN(i+1)), on random byte tapes.
func SamplersOnTapes(seed int64, count int) (viol []Violation, evals int) {
	rng := rand.New(rand.NewSource(seed))
	add := func(pred, d string) {
		if len(viol) < 4 {
			viol = append(viol, Violation{"C15", pred, d})
		}
	}
	type nm struct{ n, m int }
	shapes := []nm{{513, 3}, {514, 300}, {600, 600}, {257, 3}, {258, 258}, {300, 60}, {65537, 3}, {65600, 200}, {1025, 1025}, {16, 16}, {129, 129}}
	for _, sh := range shapes {
		for c := 0; c < count; c++ {
			data := make([]byte, 4*sh.m+64)
			rng.Read(data)
			// Samples
			t := &tape{data: data}
			var swaps [][2]int
			err := random.NewVerifRand(t.read).Samples(sh.n, sh.m, func(i, j int) { swaps = append(swaps, [2]int{i, j}) })
			evals++
			pos := 0
			ok := err == nil && len(swaps) == sh.m
			for i := 0; ok && i < sh.m; i++ {
				j := i + int(specUintNOnTape(uint64(sh.n-i), data, &pos))
				if swaps[i] != [2]int{i, j} {
					add("SamplesDefinition", fmt.Sprintf("Samples(%d,%d): swap #%d is %v, Fisher-Yates over the source bytes gives (%d,%d) [seed %d]", sh.n, sh.m, i, swaps[i], i, j, seed))
					ok = false
				}
			}
			if ok && t.pos != pos {
				add("SamplesDefinition", fmt.Sprintf("Samples(%d,%d) consumed %d source bytes, the draws need %d [seed %d]", sh.n, sh.m, t.pos, pos, seed))
			}
			if err != nil {
				add("SamplesDefinition", fmt.Sprintf("Samples(%d,%d): %v", sh.n, sh.m, err))
			}
			if sh.m != sh.n || sh.n > 1100 {
				continue
			}
			// Shuffle(n) is Samples(n, n); Permutation(n) is the inside-out variant with UintN(i+1)
			t2 := &tape{data: data}
			var sw2 [][2]int
			random.NewVerifRand(t2.read).Shuffle(sh.n, func(i, j int) { sw2 = append(sw2, [2]int{i, j}) })
			if fmt.Sprint(sw2) != fmt.Sprint(swaps) {
				add("ShuffleDefinition", fmt.Sprintf("Shuffle(%d) and Samples(%d,%d) differ on the same source bytes [seed %d]", sh.n, sh.n, sh.n, seed))
			}
			t3 := &tape{data: data}
			perm, err := random.NewVerifRand(t3.read).Permutation(sh.n)
			evals++
			want := make([]int, sh.n)
			pos = 0
			for i := 0; i < sh.n; i++ {
				j := int(specUintNOnTape(uint64(i+1), data, &pos))
				want[i] = want[j]
				want[j] = i
			}
			if err != nil || fmt.Sprint(perm) != fmt.Sprint(want) {
				add("PermutationDefinition", fmt.Sprintf("Permutation(%d) is not the inside-out Fisher-Yates over the source bytes [seed %d]", sh.n, seed))
			}
		}
	}
	return
}
