// Package hashx executes histories of specs/hash/Hasher.tla and systematic length / split sweeps on the real
// hash package against independent references (C13): stdlib crypto/sha3, crypto/sha256, crypto/sha512,
// x/crypto legacy Keccak, and KMAC128 built from SP 800-185 over stdlib cSHAKE128.
package hashx

import (
	"bytes"
	"crypto/sha256"
	"crypto/sha3"
	"crypto/sha512"
	"fmt"
	"math/rand"

	"github.com/onflow/crypto/hash"
	xsha3 "golang.org/x/crypto/sha3"
)

type Violation struct {
	Property  string `json:"property"`
	Predicate string `json:"predicate"`
	Detail    string `json:"detail"`
}

// pat: a position-dependent pattern.  The slice starts at an address that is misaligned by (3*seed) mod 8 bytes (word-wise
// absorption paths see unaligned input), aligned when seed is a multiple of 8.
func pat(seed, n int) []byte {
	off := (seed * 3) & 7
	buf := make([]byte, n+8)
	b := buf[off : off+n : off+n]
	for i := range b {
		b[i] = byte((i*131 + (i>>8)*7 + seed*29 + 1) & 0xff)
	}
	return b
}

// ---------------- references

func leftEncode(v uint64) []byte {
	n := 1
	for x := v; x > 255; x >>= 8 {
		n++
	}
	out := []byte{byte(n)}
	for i := n - 1; i >= 0; i-- {
		out = append(out, byte(v>>(8*uint(i))))
	}
	return out
}

func rightEncode(v uint64) []byte {
	n := 1
	for x := v; x > 255; x >>= 8 {
		n++
	}
	var out []byte
	for i := n - 1; i >= 0; i-- {
		out = append(out, byte(v>>(8*uint(i))))
	}
	return append(out, byte(n))
}

// RefKMAC128 per NIST SP 800-185 section 4
func RefKMAC128(key, customizer, data []byte, outLen int) []byte {
	c := sha3.NewCSHAKE128([]byte("KMAC"), customizer)
	x := append(leftEncode(168), leftEncode(uint64(len(key))*8)...)
	x = append(x, key...)
	for len(x)%168 != 0 {
		x = append(x, 0)
	}
	c.Write(x)
	c.Write(data)
	c.Write(rightEncode(uint64(outLen) * 8))
	out := make([]byte, outLen)
	c.Read(out)
	return out
}

type Algo struct {
	Name string
	New  func() hash.Hasher
	Ref  func([]byte) []byte
	Rate int
}

func Algos(class string, rate int, rng *rand.Rand) []Algo {
	switch class {
	case "sponge":
		if rate == 104 {
			return []Algo{{"SHA3_384", hash.NewSHA3_384, func(b []byte) []byte { s := sha3.Sum384(b); return s[:] }, 104}}
		}
		return []Algo{
			{"SHA3_256", hash.NewSHA3_256, func(b []byte) []byte { s := sha3.Sum256(b); return s[:] }, 136},
			{"Keccak_256", hash.NewKeccak_256, func(b []byte) []byte { h := xsha3.NewLegacyKeccak256(); h.Write(b); return h.Sum(nil) }, 136},
		}
	case "sha2":
		return []Algo{
			{"SHA2_256", hash.NewSHA2_256, func(b []byte) []byte { s := sha256.Sum256(b); return s[:] }, 64},
			{"SHA2_384", hash.NewSHA2_384, func(b []byte) []byte { s := sha512.Sum384(b); return s[:] }, 128},
		}
	default: // kmac: a seeded parameter choice per history
		kl := []int{16, 17, 32, 100, 162, 163, 164, 168, 200, 330, 331, 332, 400}[rng.Intn(13)]
		cl := []int{0, 1, 5, 100, 167, 168, 169, 300}[rng.Intn(8)]
		ol := []int{0, 1, 16, 32, 128, 167, 168, 169, 336, 1000}[rng.Intn(10)]
		key, cust := pat(7+kl, kl), pat(11+cl, cl)
		return []Algo{{fmt.Sprintf("KMAC128(key %d, customizer %d, out %d)", kl, cl, ol),
			func() hash.Hasher {
				h, err := hash.NewKMAC_128(key, cust, ol)
				if err != nil {
					panic(err)
				}
				return h
			},
			func(b []byte) []byte { return RefKMAC128(key, cust, b, ol) }, 168}}
	}
}

// ---------------- histories enumerated by TLC

type HOp struct {
	Op     string `json:"op"`
	K      int    `json:"k"`
	Expect int    `json:"expect"`
}

type HCase struct {
	ID    string `json:"id"`
	Class string `json:"class"`
	Rate  int    `json:"rate"`
	Seed  int64  `json:"seed"`
	Hist  []HOp  `json:"hist"`
}

type Result struct {
	ID         string      `json:"id"`
	Evals      int         `json:"evals"`
	Violations []Violation `json:"violations"`
}

func RunHistory(c HCase) (res Result) {
	res.ID = c.ID
	res.Violations = []Violation{}
	defer func() {
		if r := recover(); r != nil {
			res.Violations = append(res.Violations, Violation{"C09", "NoPanic", fmt.Sprintf("hasher history %v: panic: %v", c.Hist, r)})
		}
	}()
	rng := rand.New(rand.NewSource(c.Seed))
	for _, a := range Algos(c.Class, c.Rate, rng) {
		h := a.New()
		stream := pat(1+7*int(c.Seed&1), 4096) // misaligned by 3 bytes, or aligned
		other := pat(2+6*int((c.Seed>>1)&1), 4096)
		pos := 0
		type kept struct {
			got  []byte // the slice the library returned (kept, not copied)
			want []byte
			at   int
		}
		var returned []kept
		defer func(name string) {
			// a digest handed out earlier must not change when the hasher is used again
			for _, k := range returned {
				if !bytes.Equal(k.got, k.want) {
					res.Violations = append(res.Violations, Violation{"C13", "ReturnedDigestStable",
						fmt.Sprintf("%s: the digest returned by op %d was modified by later operations on the same hasher (history %v)", name, k.at, c.Hist)})
					break
				}
			}
		}(a.Name)
		for i, op := range c.Hist {
			switch op.Op {
			case "Reset":
				h.Reset()
				pos = 0
			case "Write":
				if op.Expect == -2 { // outside the documented use (finalised sponge): taken, not judged
					h.Write(stream[pos : pos+op.K])
					returned = nil
					continue
				}
				n, err := h.Write(stream[pos : pos+op.K])
				if n != op.K || err != nil {
					res.Violations = append(res.Violations, Violation{"C13", "WriteReturn", fmt.Sprintf("%s: Write(%d bytes) = (%d, %v)", a.Name, op.K, n, err)})
				}
				pos += op.K
			case "SumHash":
				if op.Expect == -2 { // a second SumHash on a finalised sponge: taken, not judged
					h.SumHash()
					returned = nil
					continue
				}
				got := h.SumHash()
				res.Evals++
				returned = append(returned, kept{got, a.Ref(stream[:op.Expect]), i})
				if !bytes.Equal(got, a.Ref(stream[:op.Expect])) {
					res.Violations = append(res.Violations, Violation{"C13", "StreamDigest",
						fmt.Sprintf("%s: op %d SumHash is not the digest of the %d bytes written since the last reset (history %v)", a.Name, i, op.Expect, c.Hist)})
					return
				}
			case "ComputeHash":
				got := h.ComputeHash(other[:op.K])
				res.Evals++
				returned = append(returned, kept{got, a.Ref(other[:op.K]), i})
				if !bytes.Equal(got, a.Ref(other[:op.K])) {
					res.Violations = append(res.Violations, Violation{"C13", "ComputeHashIndependent",
						fmt.Sprintf("%s: op %d ComputeHash(%d bytes) is not the digest of its argument (history %v)", a.Name, i, op.K, c.Hist)})
					return
				}
				if c.Class != "kmac" {
					pos = op.K // not used afterwards: the model finalises
				}
			}
		}
	}
	return
}

// ---------------- systematic sweeps (every length, every 2-split; sampled 3-splits)

func Sweep(algo string, maxLen int, threeSplits int, seed int64) (res Result) {
	res.ID = "sweep-" + algo
	res.Violations = []Violation{}
	defer func() {
		if r := recover(); r != nil {
			res.Violations = append(res.Violations, Violation{"C09", "NoPanic", fmt.Sprintf("hash sweep %s: panic: %v", algo, r)})
		}
	}()
	rng := rand.New(rand.NewSource(seed))
	var a Algo
	for _, cls := range []string{"sponge", "sha2"} {
		for _, rate := range []int{136, 104} {
			for _, x := range Algos(cls, rate, rng) {
				if x.Name == algo {
					a = x
				}
			}
		}
	}
	if a.New == nil {
		panic("unknown algorithm " + algo)
	}
	data := pat(3, maxLen+1)
	add := func(pred, d string) {
		if len(res.Violations) < 4 {
			res.Violations = append(res.Violations, Violation{"C13", pred, a.Name + ": " + d})
		}
	}
	h := a.New() // one object reused across the sweep: Reset must restore the initial behaviour
	for n := 0; n <= maxLen; n++ {
		want := a.Ref(data[:n])
		fresh := a.New() // never-reset object, single write
		fresh.Write(data[:n])
		res.Evals++
		if !bytes.Equal(fresh.SumHash(), want) {
			add("FreshObject", fmt.Sprintf("length %d written to a never-reset object", n))
		}
		if !bytes.Equal(a.New().ComputeHash(data[:n]), want) {
			add("ComputeHash", fmt.Sprintf("length %d", n))
		}
		for s := 0; s <= n; s++ {
			h.Reset()
			h.Write(data[:s])
			h.Write(data[s:n])
			res.Evals++
			if !bytes.Equal(h.SumHash(), want) {
				add("SplitIndependence", fmt.Sprintf("length %d split at %d", n, s))
			}
		}
		// ComputeHash on a dirty object
		h.Reset()
		h.Write(data[:rng.Intn(maxLen+1)])
		res.Evals++
		if !bytes.Equal(h.ComputeHash(data[:n]), want) {
			add("ComputeHashIndependent", fmt.Sprintf("length %d after unrelated writes", n))
		}
	}
	for k := 0; k < threeSplits; k++ {
		n := rng.Intn(maxLen + 1)
		s1 := rng.Intn(n + 1)
		s2 := s1 + rng.Intn(n-s1+1)
		h.Reset()
		h.Write(data[:s1])
		h.Write(data[s1:s2])
		h.Write(data[s2:n])
		res.Evals++
		if !bytes.Equal(h.SumHash(), a.Ref(data[:n])) {
			add("SplitIndependence", fmt.Sprintf("length %d split at %d,%d", n, s1, s2))
		}
	}
	// longer inputs (several fast-path blocks)
	for k := 0; k < 40; k++ {
		n := 1000 + rng.Intn(60000)
		big := pat(5+k, n)
		s := rng.Intn(n + 1)
		h.Reset()
		h.Write(big[:s])
		h.Write(big[s:])
		res.Evals++
		if !bytes.Equal(h.SumHash(), a.Ref(big)) {
			add("LongInput", fmt.Sprintf("length %d split at %d", n, s))
		}
	}
	// one-shot helpers
	switch algo {
	case "SHA3_256":
		for n := 0; n <= maxLen; n++ {
			var out [32]byte
			hash.ComputeSHA3_256(&out, data[:n])
			res.Evals++
			if !bytes.Equal(out[:], a.Ref(data[:n])) {
				add("OneShotHelper", fmt.Sprintf("ComputeSHA3_256 length %d", n))
			}
		}
	case "SHA2_256":
		for n := 0; n <= maxLen; n++ {
			var out [32]byte
			hash.ComputeSHA2_256(&out, data[:n])
			res.Evals++
			if !bytes.Equal(out[:], a.Ref(data[:n])) {
				add("OneShotHelper", fmt.Sprintf("ComputeSHA2_256 length %d", n))
			}
		}
	}
	// SHA2: writing after SumHash continues the same stream
	if algo == "SHA2_256" || algo == "SHA2_384" {
		for k := 0; k < 200; k++ {
			n := rng.Intn(maxLen + 1)
			s := rng.Intn(n + 1)
			h.Reset()
			h.Write(data[:s])
			if !bytes.Equal(h.SumHash(), a.Ref(data[:s])) {
				add("StreamDigest", fmt.Sprintf("prefix %d", s))
			}
			h.Write(data[s:n])
			res.Evals++
			if !bytes.Equal(h.SumHash(), a.Ref(data[:n])) {
				add("WriteAfterSumContinues", fmt.Sprintf("length %d, SumHash taken at %d", n, s))
			}
		}
	}
	return
}

// KMAC parameter grid: key lengths (incl. the block-boundary lengths computed by KmacPad.tla), customizers, output sizes
// kmacEncodings: the points where left_encode / right_encode gain a byte: output sizes of 2^13, 2^21 (and 2^20: a bit length that
// is a multiple of 8) bytes, keys and customizers of 32 and 8192 bytes
func kmacEncodings(res *Result, add func(pred, d string)) {
	data := pat(21, 300)
	for _, ol := range []int{8191, 8192, 8193, 32767, 32768, 1<<20 - 1, 1 << 20, 1<<20 + 1, 3 << 19, 1<<21 - 1, 1 << 21, 1<<21 + 1} {
		key, cust := pat(33, 40), pat(34, 9)
		h, err := hash.NewKMAC_128(key, cust, ol)
		if err != nil {
			add("KmacConstructor", fmt.Sprintf("output size %d: %v", ol, err))
			continue
		}
		res.Evals++
		if got := h.ComputeHash(data); !bytes.Equal(got, RefKMAC128(key, cust, data, ol)) {
			add("KmacSP800_185", fmt.Sprintf("KMAC128 with output size %d bytes differs from SP 800-185", ol))
		}
	}
	for _, kl := range []int{31 + 1, 8191, 8192, 8193, 70000} {
		for _, cl := range []int{0, 31, 32, 33, 8191, 8192, 8193} {
			key, cust := pat(kl%97, kl), pat(cl%89, cl)
			h, err := hash.NewKMAC_128(key, cust, 64)
			if err != nil {
				add("KmacConstructor", fmt.Sprintf("key %d customizer %d: %v", kl, cl, err))
				continue
			}
			res.Evals++
			if got := h.ComputeHash(data); !bytes.Equal(got, RefKMAC128(key, cust, data, 64)) {
				add("KmacSP800_185", fmt.Sprintf("KMAC128 key length %d, customizer length %d differs from SP 800-185", kl, cl))
			}
		}
	}
}

func KmacGrid(boundary []int, seed int64, dense bool) (res Result) {
	res.ID = "kmac-grid"
	res.Violations = []Violation{}
	defer func() {
		if r := recover(); r != nil {
			res.Violations = append(res.Violations, Violation{"C09", "NoPanic", fmt.Sprintf("kmac grid: panic: %v", r)})
		}
	}()
	add := func(pred, d string) {
		if len(res.Violations) < 6 {
			res.Violations = append(res.Violations, Violation{"C13", pred, d})
		}
	}
	kmacEncodings(&res, add)
	rng := rand.New(rand.NewSource(seed))
	keyLens := map[int]bool{}
	for _, b := range boundary {
		for d := -2; d <= 2; d++ {
			if b+d >= 16 {
				keyLens[b+d] = true
			}
		}
	}
	step := 7
	if dense {
		step = 1
	}
	for k := 16; k <= 400; k += step {
		keyLens[k] = true
	}
	custLens := []int{0, 1, 3, 50, 165, 166, 167, 168, 169, 300}
	outLens := []int{0, 1, 31, 32, 33, 128, 167, 168, 169, 1000, 8191, 8192, 8193} // 32 and 8192 bytes: right_encode(output bits) grows by a byte
	data := pat(9, 700)
	for kl := range keyLens {
		key := pat(kl, kl)
		for _, cl := range custLens {
			if !dense && rng.Intn(3) != 0 && !(cl == 0) {
				continue
			}
			cust := pat(cl+1, cl)
			for _, ol := range outLens {
				if !dense && rng.Intn(2) != 0 && ol != 128 {
					continue
				}
				// the hasher gets private copies of the buffers, which the caller then wipes (callers clear key material after use):
				// a hasher must not alias the slices it was constructed from
				kbuf, cbuf := append([]byte(nil), key...), append([]byte(nil), cust...)
				h, err := hash.NewKMAC_128(kbuf, cbuf, ol)
				if err != nil {
					add("KmacConstructor", fmt.Sprintf("key %d customizer %d out %d: %v", kl, cl, ol, err))
					continue
				}
				for i := range kbuf {
					kbuf[i] = 0xEE
				}
				for i := range cbuf {
					cbuf[i] = 0xEE
				}
				n := rng.Intn(len(data) + 1)
				want := RefKMAC128(key, cust, data[:n], ol)
				res.Evals++
				if got := h.ComputeHash(data[:n]); !bytes.Equal(got, want) {
					add("KmacSP800_185", fmt.Sprintf("KMAC128 key length %d, customizer length %d, output %d, message %d bytes: ComputeHash differs from SP 800-185", kl, cl, ol, n))
					continue
				}
				s := rng.Intn(n + 1)
				h.Write(data[:s])
				if pre := h.SumHash(); !bytes.Equal(pre, RefKMAC128(key, cust, data[:s], ol)) {
					add("StreamDigest", fmt.Sprintf("KMAC128 key %d: SumHash of a %d-byte prefix", kl, s))
				}
				h.Write(data[s:n])
				if got := h.SumHash(); !bytes.Equal(got, want) {
					add("WriteAfterSumContinues", fmt.Sprintf("KMAC128 key %d customizer %d out %d: split %d/%d", kl, cl, ol, s, n))
				}
				if got := h.ComputeHash(data[:n]); !bytes.Equal(got, want) {
					add("ComputeHashIndependent", fmt.Sprintf("KMAC128 key %d: ComputeHash after writes", kl))
				}
				h.Reset()
				h.Write(data[:n])
				if got := h.SumHash(); !bytes.Equal(got, want) {
					add("ResetRestores", fmt.Sprintf("KMAC128 key %d customizer %d out %d", kl, cl, ol))
				}
				if h.Size() != ol {
					add("Size", fmt.Sprintf("Size() = %d for output %d", h.Size(), ol))
				}
			}
		}
	}
	// every output size 0..1000 for one key
	key := pat(77, 32)
	for ol := 0; ol <= 1000; ol++ {
		h, err := hash.NewKMAC_128(key, []byte("verif"), ol)
		if err != nil {
			add("KmacConstructor", fmt.Sprintf("out %d: %v", ol, err))
			continue
		}
		res.Evals++
		if !bytes.Equal(h.ComputeHash(data[:ol%300]), RefKMAC128(key, []byte("verif"), data[:ol%300], ol)) {
			add("KmacSP800_185", fmt.Sprintf("output size %d", ol))
		}
	}
	// rejections
	for kl := 0; kl < 16; kl++ {
		if _, err := hash.NewKMAC_128(make([]byte, kl), nil, 32); err == nil {
			add("KmacRejectsShortKey", fmt.Sprintf("key length %d accepted", kl))
		}
	}
	for _, ol := range []int{-1, -2, -1000} {
		if _, err := hash.NewKMAC_128(make([]byte, 32), nil, ol); err == nil {
			add("KmacRejectsNegativeOutput", fmt.Sprintf("output size %d accepted", ol))
		}
	}
	if _, err := hash.NewKMAC_128(nil, nil, 32); err == nil {
		add("KmacRejectsShortKey", "nil key accepted")
	}
	return
}
