// Package dkgsim executes abstract DKG network scripts (TLC behaviours of specs/dkg/DKGNet.tla, or
// scripts drawn by the Go generator from the same grammar) on real onflow/crypto DKG objects, one per
// honest participant, and evaluates the predicates of properties C07 / C08 on the real outcomes.
package dkgsim

import (
	"bytes"
	"encoding/hex"
	"fmt"
	"math/big"
	"math/rand"
	"sort"
	"strconv"
	"sync"

	crypto "github.com/onflow/crypto"
	"verifharness/ref"
)

// ---------- abstract vocabulary (mirrors DKGNode.tla) ----------

type Msg struct {
	T string `json:"t"` // vec | share | complaint | answer | junk
	K string `json:"k"` // ok | bad | badscalar | empty | badtag
	P string `json:"P"` // polynomial name or "none"
	J int    `json:"j"` // complainee (complaint) / complainer (answer) / -1
}

type ByzScript struct {
	Bc []Msg            `json:"bc"`
	Pv map[string][]Msg `json:"pv"`
}

type Step struct {
	A      string               `json:"a"` // byz | db | dp | adv
	P      int                  `json:"p"`
	S      int                  `json:"s"`
	Land   int                  `json:"land"`
	Script map[string]ByzScript `json:"script,omitempty"`
}

type Script struct {
	ID     string `json:"id"`
	Proto  string `json:"proto"` // qual | jf
	N      int    `json:"n"`
	T      int    `json:"t"`
	Dealer int    `json:"dealer"` // qual only
	Byz    []int  `json:"byz"`
	Seed   int64  `json:"seed"`
	Steps  []Step `json:"steps"`
	Source string `json:"source"`
}

// Event is one line of the ndjson trace validated by specs/dkg/DKGTrace.tla.
type Event struct {
	A      string               `json:"a"`
	P      int                  `json:"p"`
	S      int                  `json:"s"`
	Land   int                  `json:"land"`
	Script map[string]ByzScript `json:"script"`
	Out    []Msg                `json:"out"`
	Fl     [][]any              `json:"fl"`
	Res    map[string]NodeRes   `json:"res"`
	// configuration, only on the "reset" event that opens a trace
	ID string `json:"id"`
}

type NodeRes struct {
	Cls  string `json:"cls"` // keys | fail | none
	Disq []int  `json:"disq"`
}

type Violation struct {
	Property  string `json:"property"`
	Predicate string `json:"predicate"`
	Detail    string `json:"detail"`
}

type Result struct {
	ID         string      `json:"id"`
	Events     []Event     `json:"events"`
	Violations []Violation `json:"violations"`
	Notes      []string    `json:"notes"` // executor-level divergences from the script (not verdicts)
	Panics     []string    `json:"panics"`
	Outcome    string      `json:"outcome"` // digest of the real outcome (for evidence / distinct counting)
	Steps      int         `json:"steps"`
	RefKeys    int         `json:"refkeys"` // key sets re-checked with the reference arithmetic
}

// ---------- processor recording the real callbacks ----------

type emission struct {
	bcast bool
	dest  int
	data  []byte
}

type proc struct {
	me   int
	emis []emission
	cbs  [][]any // ["flag"|"disq", reporter, target]
	all  [][]any // every callback over the whole run
}

func (p *proc) PrivateSend(dest int, data []byte) {
	p.emis = append(p.emis, emission{false, dest, append([]byte(nil), data...)})
}
func (p *proc) Broadcast(data []byte) {
	p.emis = append(p.emis, emission{true, -1, append([]byte(nil), data...)})
}
func (p *proc) Disqualify(i int, _ string) {
	p.cbs = append(p.cbs, []any{"disq", p.me, i})
	p.all = append(p.all, []any{"disq", p.me, i})
}
func (p *proc) FlagMisbehavior(i int, _ string) {
	p.cbs = append(p.cbs, []any{"flag", p.me, i})
	p.all = append(p.all, []any{"flag", p.me, i})
}
func (p *proc) take() ([]emission, [][]any) {
	e, c := p.emis, p.cbs
	p.emis, p.cbs = nil, nil
	return e, c
}

// ---------- the simulator ----------

type entry struct {
	data []byte
	land int
	abs  Msg
}

type shadowDeal struct {
	vec    []byte
	shares map[int][]byte // receiver -> private message (tag || 32 bytes)
}

type Sim struct {
	sc      Script
	rng     *rand.Rand
	honest  []int
	isByz   map[int]bool
	dealers []int
	node    map[int]crypto.DKGState
	proc    map[int]*proc
	bq      map[int][]entry
	pq      map[int]map[int][]entry
	bptr    map[int]map[int]int
	pptr    map[int]map[int]int
	round   int
	shadow  map[string]*shadowDeal // key "b/P"
	hshare  map[int]map[int][]byte // honest dealer -> receiver -> share private message
	res     Result
	ended   map[int]endOut
}

type endOut struct {
	cls string
	sk  crypto.PrivateKey
	pk  crypto.PublicKey
	pks []crypto.PublicKey
	err error
}

var frOrder, _ = hex.DecodeString("73eda753299d7d483339d80809a1d80553bda402fffe5bfeffffffff00000001")

func seedFor(base int64, tag string, i int) []byte {
	r := rand.New(rand.NewSource(base*1000003 + int64(i)*7919 + int64(len(tag))*104729 + int64(hashStr(tag))))
	b := make([]byte, 48)
	r.Read(b)
	return b
}

func hashStr(s string) uint32 {
	var h uint32 = 2166136261
	for i := 0; i < len(s); i++ {
		h = (h ^ uint32(s[i])) * 16777619
	}
	return h
}

func (s *Sim) guard(what string, f func()) {
	defer func() {
		if r := recover(); r != nil {
			s.res.Panics = append(s.res.Panics, fmt.Sprintf("%s: panic: %v", what, r))
		}
	}()
	f()
}

func New(sc Script) (*Sim, error) {
	s := &Sim{sc: sc, rng: rand.New(rand.NewSource(sc.Seed)), isByz: map[int]bool{}, node: map[int]crypto.DKGState{},
		proc: map[int]*proc{}, bq: map[int][]entry{}, pq: map[int]map[int][]entry{}, bptr: map[int]map[int]int{},
		pptr: map[int]map[int]int{}, round: 1, shadow: map[string]*shadowDeal{}, hshare: map[int]map[int][]byte{},
		ended: map[int]endOut{}}
	s.res.ID = sc.ID
	for _, b := range sc.Byz {
		s.isByz[b] = true
	}
	if sc.Proto == "jf" {
		for d := 0; d < sc.N; d++ {
			s.dealers = append(s.dealers, d)
		}
	} else {
		s.dealers = []int{sc.Dealer}
	}
	for p := 0; p < sc.N; p++ {
		s.pq[p] = map[int][]entry{}
		if !s.isByz[p] {
			s.honest = append(s.honest, p)
		}
	}
	for _, p := range s.honest {
		pr := &proc{me: p}
		var st crypto.DKGState
		var err error
		if sc.Proto == "jf" {
			st, err = crypto.NewJointFeldman(sc.N, sc.T, p, pr)
		} else {
			st, err = crypto.NewFeldmanVSSQual(sc.N, sc.T, p, pr, sc.Dealer)
		}
		if err != nil {
			return nil, err
		}
		s.node[p], s.proc[p] = st, pr
		s.bptr[p], s.pptr[p] = map[int]int{}, map[int]int{}
	}
	// Start every honest participant; what honest dealers emit lands in round 1 (Init of DKGNet)
	for _, p := range s.honest {
		var err error
		s.guard("Start", func() { err = s.node[p].Start(seedFor(sc.Seed, "honest", p)) })
		if err != nil {
			return nil, fmt.Errorf("Start(%d): %w", p, err)
		}
		em, _ := s.proc[p].take()
		for _, e := range em {
			if e.bcast {
				s.bq[p] = append(s.bq[p], entry{e.data, 1, Msg{"vec", "ok", "H", -1}})
			} else {
				if s.hshare[p] == nil {
					s.hshare[p] = map[int][]byte{}
				}
				s.hshare[p][e.dest] = e.data
				s.pq[p][e.dest] = append(s.pq[p][e.dest], entry{e.data, 1, Msg{"share", "ok", "H", -1}})
			}
		}
	}
	return s, nil
}

func (s *Sim) shadowOf(b int, P string) *shadowDeal {
	key := fmt.Sprintf("%d/%s", b, P)
	if sd, ok := s.shadow[key]; ok {
		return sd
	}
	pr := &proc{me: b}
	st, err := crypto.NewFeldmanVSSQual(s.sc.N, s.sc.T, b, pr, b)
	if err != nil {
		panic(err)
	}
	if err := st.Start(seedFor(s.sc.Seed, "shadow"+P, b)); err != nil {
		panic(err)
	}
	sd := &shadowDeal{shares: map[int][]byte{}}
	em, _ := pr.take()
	for _, e := range em {
		if e.bcast {
			sd.vec = e.data
		} else {
			sd.shares[e.dest] = e.data
		}
	}
	s.shadow[key] = sd
	return sd
}

func (s *Sim) badScalar() []byte {
	switch s.rng.Intn(3) {
	case 0:
		return make([]byte, 32)
	case 1:
		return append([]byte(nil), frOrder...)
	default:
		return bytes.Repeat([]byte{0xff}, 32)
	}
}

// concretise turns an abstract Byzantine message of sender b (private receiver j, or -1 for a broadcast) into bytes.
// Every abstract kind has several concrete variants; the variant is drawn from the script's seeded generator.
func (s *Sim) concretise(b int, m Msg, recv int) []byte {
	n := s.sc.N
	switch m.T {
	case "vec":
		if m.K == "ok" {
			return s.shadowOf(b, m.P).vec
		}
		v := append([]byte(nil), s.shadowOf(b, "P1").vec...)
		switch s.rng.Intn(6) {
		case 0: // truncated
			return v[:len(v)-1-s.rng.Intn(96)]
		case 1: // extended
			return append(v, make([]byte, 1+s.rng.Intn(96))...)
		case 2: // only the tag
			return v[:1]
		case 3: // point k: x >= p with valid flag bits
			k := s.rng.Intn(s.sc.T + 1)
			for i := 0; i < 96; i++ {
				v[1+96*k+i] = 0xff
			}
			v[1+96*k] = 0x9f
			return v
		case 4: // point k: compression flag cleared
			k := s.rng.Intn(s.sc.T + 1)
			v[1+96*k] &= 0x7f
			return v
		default: // point k: a bit of the x coordinate flipped (non-residue, or on-curve outside G2)
			k := s.rng.Intn(s.sc.T + 1)
			v[1+96*k+1+s.rng.Intn(95)] ^= 1 << uint(s.rng.Intn(8))
			return v
		}
	case "share":
		if m.K == "ok" {
			return s.shadowOf(b, m.P).shares[recv]
		}
		good := s.shadowOf(b, "P1").shares[recv]
		switch s.rng.Intn(7) {
		case 0:
			return []byte{}
		case 1:
			return []byte{0}
		case 2: // wrong tag
			x := append([]byte(nil), good...)
			x[0] = byte(1 + s.rng.Intn(250))
			return x
		case 3:
			return good[:len(good)-1]
		case 4:
			return append(append([]byte(nil), good...), 0)
		default:
			return append([]byte{0}, s.badScalar()...)
		}
	case "complaint":
		if m.K == "ok" {
			return []byte{2, byte(m.J)}
		}
		switch s.rng.Intn(4) {
		case 0:
			return []byte{2}
		case 1:
			return []byte{2, byte(s.rng.Intn(n)), 0}
		case 2:
			return []byte{2, byte(n)}
		default:
			return []byte{2, 255}
		}
	case "answer":
		switch m.K {
		case "ok":
			return append([]byte{3, byte(m.J)}, s.shadowOf(b, m.P).shares[m.J][1:]...)
		case "badscalar":
			return append([]byte{3, byte(m.J)}, s.badScalar()...)
		default:
			anyj := 0
			if n > 1 {
				anyj = (b + 1) % n
			}
			good := s.shadowOf(b, "P1").shares[anyj][1:]
			switch s.rng.Intn(4) {
			case 0:
				return []byte{3}
			case 1:
				return append([]byte{3, byte(anyj)}, good[:31]...)
			case 2:
				return append(append([]byte{3, byte(anyj)}, good...), 0)
			default:
				return append([]byte{3, byte(n + s.rng.Intn(255-n+1))}, good...)
			}
		}
	case "junk":
		if m.K == "empty" {
			return []byte{}
		}
		switch s.rng.Intn(3) {
		case 0:
			return []byte{byte(4 + s.rng.Intn(250))}
		case 1:
			return append([]byte{0}, make([]byte, 32)...)
		default:
			return append([]byte{0xff}, s.shadowOf(b, "P1").vec[1:]...)
		}
	}
	panic("unknown abstract message " + m.T)
}

// abstraction of what an honest participant really emitted
func (s *Sim) abstractBcast(p int, data []byte) Msg {
	if len(data) == 0 {
		return Msg{"junk", "empty", "none", -1}
	}
	switch data[0] {
	case 1:
		return Msg{"vec", "ok", "H", -1}
	case 2:
		if len(data) == 2 && int(data[1]) < s.sc.N {
			return Msg{"complaint", "ok", "none", int(data[1])}
		}
		return Msg{"complaint", "bad", "none", -1}
	case 3:
		if len(data) == 34 && int(data[1]) < s.sc.N {
			j := int(data[1])
			if sh, ok := s.hshare[p][j]; ok && bytes.Equal(sh[1:], data[2:]) {
				return Msg{"answer", "ok", "H", j}
			}
			return Msg{"answer", "ok", "other", j}
		}
		return Msg{"answer", "bad", "none", -1}
	}
	return Msg{"junk", "badtag", "none", -1}
}

func (s *Sim) lastLand(p int) int {
	if len(s.bq[p]) == 0 {
		return 0
	}
	return s.bq[p][len(s.bq[p])-1].land
}

// enqueue what honest p emitted during a step; returns the abstract view
func (s *Sim) enqueue(p int, em []emission, land int) []Msg {
	out := []Msg{}
	for _, e := range em {
		if !e.bcast {
			// honest participants only send private messages at Start
			s.res.Notes = append(s.res.Notes, fmt.Sprintf("unexpected private send by %d", p))
			s.pq[p][e.dest] = append(s.pq[p][e.dest], entry{e.data, land, Msg{"share", "ok", "H", -1}})
			continue
		}
		a := s.abstractBcast(p, e.data)
		s.bq[p] = append(s.bq[p], entry{e.data, land, a})
		out = append(out, a)
	}
	return out
}

func (s *Sim) fixLand(p int, want int) int {
	lo := s.round
	if l := s.lastLand(p); l > lo {
		lo = l
	}
	if want < lo {
		return lo
	}
	if want > 3 {
		return 3
	}
	if want > s.round+1 {
		return s.round + 1
	}
	return want
}

func sortFl(fl [][]any) [][]any {
	seen := map[string]bool{}
	out := [][]any{}
	for _, f := range fl {
		k := fmt.Sprint(f...)
		if !seen[k] {
			seen[k] = true
			out = append(out, f)
		}
	}
	sort.Slice(out, func(i, j int) bool { return fmt.Sprint(out[i]...) < fmt.Sprint(out[j]...) })
	return out
}

func (s *Sim) deliver(bcast bool, p, src, land int) bool {
	var q []entry
	var ptr map[int]int
	if bcast {
		q, ptr = s.bq[src], s.bptr[p]
	} else {
		q, ptr = s.pq[src][p], s.pptr[p]
	}
	if s.isByz[p] || s.node[p] == nil || ptr[src] >= len(q) || q[ptr[src]].land != s.round {
		return false
	}
	e := q[ptr[src]]
	ptr[src]++
	var err error
	what := "HandlePrivateMsg"
	if bcast {
		what = "HandleBroadcastMsg"
		buf := append([]byte(nil), e.data...) // the receiver's own buffer, reused (overwritten) by the caller after the call
		s.guard(what, func() { err = s.node[p].HandleBroadcastMsg(src, buf) })
		for i := range buf {
			buf[i] = 0xEE
		}
	} else {
		buf := append([]byte(nil), e.data...)
		s.guard(what, func() { err = s.node[p].HandlePrivateMsg(src, buf) })
		for i := range buf {
			buf[i] = 0xEE
		}
	}
	if err != nil {
		s.res.Violations = append(s.res.Violations, Violation{"C10", "HandlerAcceptsWhileRunning",
			fmt.Sprintf("%s(%d) at running participant %d returned %v", what, src, p, err)})
	}
	em, cbs := s.proc[p].take()
	useLand := s.round
	if len(em) > 0 {
		useLand = s.fixLand(p, land)
	}
	out := s.enqueue(p, em, useLand)
	a := "dp"
	if bcast {
		a = "db"
	}
	s.res.Events = append(s.res.Events, Event{A: a, P: p, S: src, Land: useLand, Out: out, Fl: sortFl(cbs)})
	return true
}

func (s *Sim) commit(script map[string]ByzScript) {
	norm := map[string]ByzScript{}
	for _, b := range s.sc.Byz {
		bs := script[strconv.Itoa(b)]
		nb := ByzScript{Bc: []Msg{}, Pv: map[string][]Msg{}}
		for _, m := range bs.Bc {
			s.bq[b] = append(s.bq[b], entry{s.concretise(b, m, -1), s.round, m})
			nb.Bc = append(nb.Bc, m)
		}
		for _, p := range s.honest {
			ps := strconv.Itoa(p)
			nb.Pv[ps] = []Msg{}
			for _, m := range bs.Pv[ps] {
				s.pq[b][p] = append(s.pq[b][p], entry{s.concretise(b, m, p), s.round, m})
				nb.Pv[ps] = append(nb.Pv[ps], m)
			}
		}
		norm[strconv.Itoa(b)] = nb
	}
	s.res.Events = append(s.res.Events, Event{A: "byz", P: -1, S: -1, Land: s.round, Script: norm, Out: []Msg{}, Fl: [][]any{}})
}

func (s *Sim) quiet() bool {
	for _, p := range s.honest {
		for src := 0; src < s.sc.N; src++ {
			if q := s.bq[src]; s.bptr[p][src] < len(q) && q[s.bptr[p][src]].land <= s.round {
				return false
			}
			if q := s.pq[src][p]; s.pptr[p][src] < len(q) && q[s.pptr[p][src]].land <= s.round {
				return false
			}
		}
	}
	return true
}

// drain delivers everything that lands in the current round, in a seeded random order
func (s *Sim) drain() {
	for !s.quiet() {
		type cand struct {
			b      bool
			p, src int
		}
		var cs []cand
		for _, p := range s.honest {
			for src := 0; src < s.sc.N; src++ {
				if q := s.bq[src]; s.bptr[p][src] < len(q) && q[s.bptr[p][src]].land <= s.round {
					cs = append(cs, cand{true, p, src})
				}
				if q := s.pq[src][p]; s.pptr[p][src] < len(q) && q[s.pptr[p][src]].land <= s.round {
					cs = append(cs, cand{false, p, src})
				}
			}
		}
		c := cs[s.rng.Intn(len(cs))]
		s.deliver(c.b, c.p, c.src, s.round)
	}
}

func (s *Sim) advance() {
	out := []Msg{}
	fl := [][]any{}
	var resmap map[string]NodeRes
	if s.round < 3 {
		for _, p := range s.honest {
			var err error
			s.guard("NextTimeout", func() { err = s.node[p].NextTimeout() })
			if err != nil {
				s.res.Violations = append(s.res.Violations, Violation{"C10", "TimeoutAccepted",
					fmt.Sprintf("NextTimeout #%d at running participant %d returned %v", s.round, p, err)})
			}
			em, cbs := s.proc[p].take()
			out = append(out, s.enqueue(p, em, s.round+1)...)
			fl = append(fl, cbs...)
		}
	} else {
		resmap = map[string]NodeRes{}
		for _, p := range s.honest {
			var eo endOut
			s.guard("End", func() { eo.sk, eo.pk, eo.pks, eo.err = s.node[p].End() })
			switch {
			case eo.err == nil:
				eo.cls = "keys"
			case crypto.IsDKGFailureError(eo.err):
				eo.cls = "fail"
			default:
				eo.cls = "error"
				s.res.Violations = append(s.res.Violations, Violation{"C10", "EndAfterTwoTimeouts",
					fmt.Sprintf("End at participant %d returned %v", p, eo.err)})
			}
			if s.node[p].Running() {
				s.res.Violations = append(s.res.Violations, Violation{"C10", "EndLeavesNotRunning",
					fmt.Sprintf("participant %d still running after End", p)})
			}
			s.ended[p] = eo
			_, cbs := s.proc[p].take()
			fl = append(fl, cbs...)
			resmap[strconv.Itoa(p)] = NodeRes{Cls: eo.cls, Disq: s.disqSet(p)}
		}
	}
	s.round++
	s.res.Events = append(s.res.Events, Event{A: "adv", P: -1, S: -1, Land: s.round, Out: out, Fl: sortFl(fl), Res: resmap})
}

// the set of dealers that participant p reported as disqualified through its processor
func (s *Sim) disqSet(p int) []int {
	set := map[int]bool{}
	for _, c := range s.proc[p].all {
		if c[0].(string) == "disq" {
			t := c[2].(int)
			for _, d := range s.dealers {
				if d == t {
					set[t] = true
				}
			}
		}
	}
	out := []int{}
	for d := range set {
		out = append(out, d)
	}
	sort.Ints(out)
	return out
}

// Run executes the script, completes the run if the script stops early, and evaluates the predicates.
func Run(sc Script) Result {
	s, err := New(sc)
	if err != nil {
		return Result{ID: sc.ID, Notes: []string{"setup: " + err.Error()}}
	}
	s.res.Events = append(s.res.Events, Event{A: "reset", P: -1, S: -1, ID: sc.ID, Out: []Msg{}, Fl: [][]any{}})
	committed := map[int]bool{}
	for _, st := range sc.Steps {
		if s.round > 3 {
			break
		}
		s.res.Steps++
		switch st.A {
		case "byz":
			if committed[s.round] {
				s.res.Notes = append(s.res.Notes, "second byz script in one round ignored")
				continue
			}
			committed[s.round] = true
			s.commit(st.Script)
		case "db", "dp":
			if len(sc.Byz) > 0 && !committed[s.round] {
				committed[s.round] = true
				s.commit(nil)
			}
			if !s.deliver(st.A == "db", st.P, st.S, st.Land) {
				s.res.Notes = append(s.res.Notes, fmt.Sprintf("step %s(%d,%d): nothing to deliver in round %d", st.A, st.P, st.S, s.round))
			}
		case "adv":
			if len(sc.Byz) > 0 && !committed[s.round] {
				committed[s.round] = true
				s.commit(nil)
			}
			if !s.quiet() {
				s.res.Notes = append(s.res.Notes, fmt.Sprintf("adv in round %d with undelivered messages: draining", s.round))
				s.drain()
			}
			s.advance()
		}
	}
	for s.round <= 3 { // complete the run
		if len(sc.Byz) > 0 && !committed[s.round] {
			committed[s.round] = true
			s.commit(nil)
		}
		s.drain()
		s.advance()
	}
	s.judge()
	for _, p := range s.res.Panics {
		s.res.Violations = append(s.res.Violations, Violation{"C09", "NoPanic", p})
	}
	s.normalise()
	return s.res
}

// normalise removes nils so that the ndjson log has no JSON null (the TLA+ Json module wants values)
func (s *Sim) normalise() {
	for i := range s.res.Events {
		e := &s.res.Events[i]
		if e.Script == nil {
			e.Script = map[string]ByzScript{}
		}
		if e.Res == nil {
			e.Res = map[string]NodeRes{}
		}
		if e.Out == nil {
			e.Out = []Msg{}
		}
		if e.Fl == nil {
			e.Fl = [][]any{}
		}
		for k, r := range e.Res {
			if r.Disq == nil {
				r.Disq = []int{}
				e.Res[k] = r
			}
		}
	}
	if s.res.Violations == nil {
		s.res.Violations = []Violation{}
	}
	if s.res.Notes == nil {
		s.res.Notes = []string{}
	}
	if s.res.Panics == nil {
		s.res.Panics = []string{}
	}
}

func enc(k interface{ Encode() []byte }) string { return hex.EncodeToString(k.Encode()) }

// ---------- the oracles of DKGNet.tla, recomputed on the real queues ----------

func (s *Sim) acceptedVec(d int) string {
	for _, e := range s.bq[d] {
		if e.abs.T == "vec" {
			if e.land > 1 || e.abs.K != "ok" {
				return "none"
			}
			return e.abs.P
		}
	}
	return "none"
}

func (s *Sim) complainers(d int) map[int]bool {
	out := map[int]bool{}
	for o := 0; o < s.sc.N; o++ {
		if o == d {
			continue
		}
		for _, e := range s.bq[o] {
			if e.abs.T == "complaint" && e.abs.K == "ok" && e.abs.J == d && e.land <= 2 {
				out[o] = true
			}
		}
	}
	return out
}

func (s *Sim) dealtBadly(d int) (bool, string) {
	av := s.acceptedVec(d)
	if av == "none" {
		return true, "verification vector missing, late or malformed"
	}
	cs := s.complainers(d)
	if len(cs) > s.sc.T {
		return true, fmt.Sprintf("%d complaints > t", len(cs))
	}
	for j := range cs {
		if s.isByz[j] {
			continue
		}
		var first *Msg
		for i := range s.bq[d] {
			e := s.bq[d][i]
			if e.abs.T == "answer" && e.abs.K != "bad" && e.abs.J == j {
				first = &s.bq[d][i].abs
				break
			}
		}
		if first == nil {
			return true, fmt.Sprintf("complaint of honest %d unanswered", j)
		}
		if first.K != "ok" || first.P != av {
			return true, fmt.Sprintf("complaint of honest %d wrongly answered", j)
		}
	}
	return false, ""
}

func (s *Sim) judge() {
	add := func(prop, pred, detail string) {
		s.res.Violations = append(s.res.Violations, Violation{prop, pred, detail})
	}
	// C08: no honest participant flagged or disqualified by an honest participant
	for _, p := range s.honest {
		for _, c := range s.proc[p].all {
			if t := c[2].(int); t >= 0 && t < s.sc.N && !s.isByz[t] {
				add("C08", "NoHonestBlamed", fmt.Sprintf("honest %d called %v against honest %d", p, c[0], t))
			}
		}
	}
	if len(s.honest) == 0 {
		return
	}
	// C07: agreement on the verdict and on the disqualified set
	p0 := s.honest[0]
	digest := s.ended[p0].cls + fmt.Sprint(s.disqSet(p0))
	for _, p := range s.honest[1:] {
		if s.ended[p].cls != s.ended[p0].cls {
			add("C07", "Agreement", fmt.Sprintf("End: participant %d -> %s, participant %d -> %s", p0, s.ended[p0].cls, p, s.ended[p].cls))
		}
		if fmt.Sprint(s.disqSet(p)) != fmt.Sprint(s.disqSet(p0)) {
			add("C07", "SameDisqSet", fmt.Sprintf("disqualified: participant %d -> %v, participant %d -> %v", p0, s.disqSet(p0), p, s.disqSet(p)))
		}
	}
	// C08: honest dealers stay qualified, badly dealing dealers are disqualified by everybody
	for _, d := range s.dealers {
		bad, why := s.dealtBadly(d)
		for _, p := range s.honest {
			dq := false
			for _, x := range s.disqSet(p) {
				dq = dq || x == d
			}
			if s.sc.Proto == "qual" {
				dq = dq || s.ended[p].cls == "fail"
				if s.ended[p].cls == "keys" && len(s.disqSet(p)) > 0 {
					add("C07", "KeysDespiteDisqualification", fmt.Sprintf("participant %d returned keys after Disqualify(dealer)", p))
				}
			}
			if !s.isByz[d] && dq {
				add("C08", "HonestDealerQualified", fmt.Sprintf("honest dealer %d disqualified at honest participant %d", d, p))
			}
			if s.isByz[d] && bad && !dq {
				add("C08", "BadDealerDisqualified", fmt.Sprintf("dealer %d (%s) not disqualified at honest participant %d", d, why, p))
			}
		}
	}
	// Joint-Feldman failure rule on the real disqualified set
	if s.sc.Proto == "jf" {
		for _, p := range s.honest {
			nd := len(s.disqSet(p))
			wantFail := nd > s.sc.T || s.sc.N-nd <= s.sc.T
			if wantFail != (s.ended[p].cls == "fail") {
				add("C07", "JointFailureRule", fmt.Sprintf("participant %d: %d disqualified, t=%d, n=%d but End -> %s", p, nd, s.sc.T, s.sc.N, s.ended[p].cls))
			}
		}
	}
	// C07: consistent keys on success
	if s.ended[p0].cls == "keys" {
		s.judgeKeys()
	}
	s.res.Outcome = digest
}

func (s *Sim) judgeKeys() {
	add := func(pred, detail string) {
		s.res.Violations = append(s.res.Violations, Violation{"C07", pred, detail})
	}
	p0 := s.honest[0]
	e0 := s.ended[p0]
	for _, p := range s.honest {
		e := s.ended[p]
		if e.cls != "keys" {
			return
		}
		if e.sk == nil || e.pk == nil || len(e.pks) != s.sc.N {
			add("KeysShape", fmt.Sprintf("participant %d: malformed End output", p))
			return
		}
		if enc(e.pk) != enc(e0.pk) {
			add("SameGroupKey", fmt.Sprintf("group key differs between %d and %d", p0, p))
		}
		for i := range e.pks {
			if enc(e.pks[i]) != enc(e0.pks[i]) {
				add("SamePublicShares", fmt.Sprintf("public share %d differs between %d and %d", i, p0, p))
			}
		}
		if !e.sk.PublicKey().Equals(e.pks[p]) {
			add("PrivateMatchesPublicShare", fmt.Sprintf("participant %d: sk.PublicKey() != pks[%d]", p, p))
		}
	}
	s.judgeKeysByReference(add)
	// all shares on one polynomial of degree <= t whose value at 0 is the group key:
	// every (t+1)-subset of honest participants reconstructs a signature valid under the group key
	if len(s.honest) < s.sc.T+1 {
		return
	}
	msg := []byte("verif dkg consistency")
	h := crypto.NewExpandMsgXOFKMAC128("verif-dkg")
	shares := map[int]crypto.Signature{}
	for _, p := range s.honest {
		sig, err := s.ended[p].sk.Sign(msg, h)
		if err != nil {
			add("SignShare", err.Error())
			return
		}
		shares[p] = sig
	}
	subsets := 0
	var rec func(start int, cur []int)
	var first crypto.Signature
	rec = func(start int, cur []int) {
		if subsets >= 12 {
			return
		}
		if len(cur) == s.sc.T+1 {
			subsets++
			sigs := make([]crypto.Signature, len(cur))
			for i, p := range cur {
				sigs[i] = shares[p]
			}
			ts, err := crypto.BLSReconstructThresholdSignature(s.sc.N, s.sc.T, sigs, cur)
			if err != nil {
				add("ThresholdReconstruct", fmt.Sprintf("signers %v: %v", cur, err))
				return
			}
			ok, err := e0.pk.Verify(ts, msg, h)
			if err != nil || !ok {
				add("SharesOnOnePolynomial", fmt.Sprintf("threshold signature of honest signers %v invalid under the group key", cur))
			}
			if first == nil {
				first = ts
			} else if !bytes.Equal(first, ts) {
				add("SharesOnOnePolynomial", fmt.Sprintf("signers %v reconstruct a different signature", cur))
			}
			return
		}
		for i := start; i < len(s.honest); i++ {
			rec(i+1, append(append([]int(nil), cur...), s.honest[i]))
		}
	}
	rec(0, nil)
}

// g2Flow: does the library write Fp2 as c0||c1 (finding D5, judged by C05)?  Detected once, on first use, from the key of scalar 1.
var g2FlowOnce sync.Once
var g2FlowVal bool

func g2Flow() bool {
	g2FlowOnce.Do(func() {
		one, err := crypto.DecodePrivateKey(crypto.BLSBLS12381, append(make([]byte, 31), 1))
		g2FlowVal = err != nil || string(one.PublicKey().Encode()) != string(ref.G2Gen.Compress(true))
	})
	return g2FlowVal
}

// judgeKeysByReference re-checks the key-consistency clause of C07 with the independent arithmetic of harness/ref on the
// bytes the first honest participant returned: the n public key shares (those of Byzantine participants included) lie on one
// polynomial of degree <= t whose value at 0 is the group key, and every honest private share times the generator is its
// public share.  (One run in four, selected by the script seed: reference G2 arithmetic is slow.)
func (s *Sim) judgeKeysByReference(add func(pred, detail string)) {
	if s.sc.Seed%4 != 0 {
		return
	}
	s.res.RefKeys++
	e0 := s.ended[s.honest[0]]
	dec := func(k crypto.PublicKey) (ref.G2, bool) {
		p, err := ref.G2Decompress(k.Encode(), !g2Flow())
		return p, err == nil && p.InSubgroup()
	}
	gk, ok := dec(e0.pk)
	if !ok {
		add("ReferenceKeys", "the group key returned by End() does not decode to an element of G2")
		return
	}
	pts := make([]ref.G2, s.sc.N)
	for i := range pts {
		if pts[i], ok = dec(e0.pks[i]); !ok {
			add("ReferenceKeys", fmt.Sprintf("public key share %d returned by End() does not decode to an element of G2", i))
			return
		}
	}
	t := s.sc.T
	xs := make([]int64, t+1)
	for j := range xs {
		xs[j] = int64(j + 1)
	}
	if !ref.G2OnPolynomial(xs, pts[:t+1], 0, gk) {
		add("SharesOnOnePolynomial", "reference arithmetic: the public key shares 0..t do not interpolate to the group key at 0")
	}
	for i := t + 1; i < s.sc.N; i++ {
		if !ref.G2OnPolynomial(xs, pts[:t+1], int64(i+1), pts[i]) {
			add("SharesOnOnePolynomial", fmt.Sprintf("reference arithmetic: public key share %d is not on the degree-%d polynomial through shares 0..%d", i, t, t))
		}
	}
	for _, p := range s.honest {
		x := new(big.Int).SetBytes(s.ended[p].sk.Encode())
		if !ref.G2Gen.Mul(x).Equal(pts[p]) {
			add("PrivateMatchesPublicShare", fmt.Sprintf("reference arithmetic: participant %d: private share times the generator is not public share %d", p, p))
		}
	}
}
