package dkgsim

import (
	"bufio"
	"crypto/sha256"
	"encoding/hex"
	"encoding/json"
	"fmt"
	"math/big"
	"os"
	"path/filepath"
	"sort"

	"verifharness/ref"
)

// Abstraction of the raw per-instance traces written by the hook verifTraceDKG (repository's own DKG tests run with
// -tags verif and VERIF_DKG_TRACE_DIR) into the vocabulary of DKGNode.tla, for validation by specs/dkg/DKGNodeTrace.tla.
// Classification of vectors / shares / answers uses the reference arithmetic: a share s for participant j lies on the
// polynomial committed by vector V iff s*g2 = Q_V(j+1).

type rawEvent struct {
	E     string `json:"e"`
	Kind  string `json:"kind"`
	N     int    `json:"n"`
	T     int    `json:"t"`
	Me    int    `json:"me"`
	Deal  int    `json:"dealer"`
	Op    string `json:"op"`
	Orig  int    `json:"orig"`
	Data  string `json:"data"`
	Class string `json:"class"`
	Run   bool   `json:"running"`
}

type NodeEvent struct {
	E    string   `json:"e"` // reset | Start | HB | HP | NextTimeout | End
	Kind string   `json:"kind"`
	Me   int      `json:"me"`
	Deal int      `json:"dealer"`
	O    int      `json:"o"`
	M    Msg      `json:"m"`
	Cls  string   `json:"cls"`
	Run  bool     `json:"running"`
	Out  []string `json:"out"`
	Fl   [][]any  `json:"fl"`
	File string   `json:"file"`
}

type NodeTrace struct {
	Kind   string
	N, T   int
	Events []NodeEvent
}

var rBig = new(big.Int).SetBytes(frOrder)

type vecInfo struct {
	name string
	pts  []ref.G2
}

func g2Order() bool { return false } // the library writes Fp2 as c0||c1 (finding D5); traces come from the library itself

func parseVec(data []byte, t int) ([]ref.G2, bool) {
	if len(data) != 96*(t+1) {
		return nil, false
	}
	var pts []ref.G2
	for k := 0; k <= t; k++ {
		p, err := ref.G2Decompress(data[96*k:96*(k+1)], g2Order())
		if err != nil || !p.InSubgroup() {
			return nil, false
		}
		pts = append(pts, p)
	}
	return pts, true
}

func evalVec(pts []ref.G2, x int64) ref.G2 {
	acc := ref.G2Inf
	for k := len(pts) - 1; k >= 0; k-- {
		acc = acc.Mul(big.NewInt(x)).Add(pts[k])
	}
	return acc
}

func scalarOK(b []byte) (*big.Int, bool) {
	if len(b) != 32 {
		return nil, false
	}
	s := new(big.Int).SetBytes(b)
	return s, s.Sign() != 0 && s.Cmp(rBig) < 0
}

func short(b []byte) string { h := sha256.Sum256(b); return hex.EncodeToString(h[:4]) }

// AbstractRepoTraces reads every dkg-*.ndjson of dir and returns the abstract traces of the Qual / Joint-Feldman instances
func AbstractRepoTraces(dir string) (map[string]*NodeTrace, error) {
	files, _ := filepath.Glob(filepath.Join(dir, "dkg-*.ndjson"))
	sort.Strings(files)
	out := map[string]*NodeTrace{}
	for _, fn := range files {
		f, err := os.Open(fn)
		if err != nil {
			return nil, err
		}
		var evs []rawEvent
		sc := bufio.NewScanner(f)
		sc.Buffer(make([]byte, 1<<20), 1<<24)
		for sc.Scan() {
			var e rawEvent
			if json.Unmarshal(sc.Bytes(), &e) == nil {
				evs = append(evs, e)
			}
		}
		f.Close()
		if len(evs) == 0 || evs[0].E != "new" || evs[0].Kind == "fvss" {
			continue
		}
		hd := evs[0]
		n, t, me := hd.N, hd.T, hd.Me
		// first pass: the vector every origin is committed to at this node = the first well-formed tag-1 broadcast from it
		vecs := map[int]*vecInfo{}
		seen := map[int]bool{}
		for _, e := range evs {
			if e.E == "call" && e.Op == "HB" {
				d, _ := hex.DecodeString(e.Data)
				if len(d) > 0 && d[0] == 1 && !seen[e.Orig] {
					seen[e.Orig] = true
					if pts, ok := parseVec(d[1:], t); ok {
						vecs[e.Orig] = &vecInfo{name: fmt.Sprintf("V%d", e.Orig), pts: pts}
					}
				}
			}
		}
		onPoly := func(o int, s *big.Int, j int) string {
			v := vecs[o]
			if v != nil && ref.G2Gen.Mul(s).Equal(evalVec(v.pts, int64(j+1))) {
				return v.name
			}
			return "S" + short(s.Bytes())
		}
		key := fmt.Sprintf("%s-%d-%d", hd.Kind, n, t)
		tr := out[key]
		if tr == nil {
			tr = &NodeTrace{Kind: hd.Kind, N: n, T: t}
			out[key] = tr
		}
		tr.Events = append(tr.Events, NodeEvent{E: "reset", Kind: hd.Kind, Me: me, Deal: hd.Deal, M: Msg{"none", "none", "none", -1}, Out: []string{}, Fl: [][]any{}, File: filepath.Base(fn)})
		var cur *NodeEvent
		flush := func() {
			if cur != nil {
				tr.Events = append(tr.Events, *cur)
				cur = nil
			}
		}
		for _, e := range evs[1:] {
			switch e.E {
			case "call":
				flush()
				cur = &NodeEvent{E: e.Op, Kind: hd.Kind, Me: me, Deal: hd.Deal, O: e.Orig, M: Msg{"none", "none", "none", -1}, Out: []string{}, Fl: [][]any{}}
				d, _ := hex.DecodeString(e.Data)
				switch e.Op {
				case "HB":
					switch {
					case len(d) == 0:
						cur.M = Msg{"junk", "empty", "none", -1}
					case d[0] == 1:
						if pts, ok := parseVec(d[1:], t); ok {
							name := "W" + short(d)
							if v := vecs[e.Orig]; v != nil && len(v.pts) == len(pts) {
								same := true
								for k := range pts {
									same = same && pts[k].Equal(v.pts[k])
								}
								if same {
									name = v.name
								}
							}
							cur.M = Msg{"vec", "ok", name, -1}
						} else {
							cur.M = Msg{"vec", "bad", "none", -1}
						}
					case d[0] == 2:
						if len(d) == 2 && int(d[1]) < n {
							cur.M = Msg{"complaint", "ok", "none", int(d[1])}
						} else {
							cur.M = Msg{"complaint", "bad", "none", -1}
						}
					case d[0] == 3:
						if len(d) != 34 || int(d[1]) >= n {
							cur.M = Msg{"answer", "bad", "none", -1}
						} else if s, ok := scalarOK(d[2:]); ok {
							cur.M = Msg{"answer", "ok", onPoly(e.Orig, s, int(d[1])), int(d[1])}
						} else {
							cur.M = Msg{"answer", "badscalar", "none", int(d[1])}
						}
					case d[0] == 0:
						cur.M = Msg{"share", "bad", "none", -1}
					default:
						cur.M = Msg{"junk", "badtag", "none", -1}
					}
				case "HP":
					if len(d) == 33 && d[0] == 0 {
						if s, ok := scalarOK(d[1:]); ok {
							cur.M = Msg{"share", "ok", onPoly(e.Orig, s, me), -1}
							break
						}
					}
					cur.M = Msg{"share", "bad", "none", -1}
				}
			case "ret":
				if cur != nil {
					cur.Cls, cur.Run = e.Class, e.Run
				}
			case "bcast":
				if cur != nil {
					d, _ := hex.DecodeString(e.Data)
					k := "junk"
					if len(d) > 0 {
						k = map[byte]string{1: "vec", 2: "complaint", 3: "answer"}[d[0]]
					}
					cur.Out = append(cur.Out, k)
				}
			case "priv":
				if cur != nil {
					cur.Out = append(cur.Out, "share")
				}
			case "disq", "flag":
				if cur != nil {
					dup := false
					for _, f := range cur.Fl {
						dup = dup || (f[0] == e.E && f[1] == e.Orig)
					}
					if !dup {
						cur.Fl = append(cur.Fl, []any{e.E, e.Orig})
					}
				}
			}
		}
		flush()
	}
	return out, nil
}
