package dkgsim

import (
	"bytes"
	"fmt"
	"math/big"

	crypto "github.com/onflow/crypto"
	"verifharness/ref"
)

// BigCase: an all-honest run at the edges of the size / threshold / index ranges (n up to DKGMaxSize = 254, t = 1 and t = n-1,
// the participants with the lowest and the highest indices).  For Feldman-VSS-Qual only `Members` are instantiated (the others
// stay silent: they never complain, so the dealer stays qualified); Joint-Feldman instantiates everybody.
type BigCase struct {
	ID      string `json:"id"`
	Proto   string `json:"proto"`
	N       int    `json:"n"`
	T       int    `json:"t"`
	Dealer  int    `json:"dealer"`
	Members []int  `json:"members"`
	Seed    int64  `json:"seed"`
}

type BigResult struct {
	ID         string      `json:"id"`
	Violations []Violation `json:"violations"`
	Evals      int         `json:"evals"`
}

func RunBig(c BigCase) (res BigResult) {
	res.ID = c.ID
	res.Violations = []Violation{}
	add := func(prop, pred, d string) {
		if len(res.Violations) < 6 {
			res.Violations = append(res.Violations, Violation{prop, pred, fmt.Sprintf("%s [%s n=%d t=%d dealer=%d members=%v]", d, c.Proto, c.N, c.T, c.Dealer, c.Members)})
		}
	}
	defer func() {
		if r := recover(); r != nil {
			add("C09", "NoPanic", fmt.Sprintf("panic: %v", r))
		}
	}()
	members := c.Members
	if c.Proto == "jf" {
		members = nil
		for i := 0; i < c.N; i++ {
			members = append(members, i)
		}
	}
	procs := map[int]*proc{}
	objs := map[int]crypto.DKGState{}
	for _, m := range members {
		procs[m] = &proc{me: m}
		var err error
		if c.Proto == "jf" {
			objs[m], err = crypto.NewJointFeldman(c.N, c.T, m, procs[m])
		} else {
			objs[m], err = crypto.NewFeldmanVSSQual(c.N, c.T, m, procs[m], c.Dealer)
		}
		if err != nil {
			add("C10", "Constructor", err.Error())
			return
		}
	}
	for _, m := range members {
		if err := objs[m].Start(seedFor(c.Seed, "big", m)); err != nil {
			add("C10", "Start", err.Error())
			return
		}
	}
	// deliver everything that is emitted until nothing is left (FIFO per sender); nobody should have anything to say after the dealing
	deliver := func() {
		for round := 0; round < 4; round++ {
			moved := false
			for _, s := range members {
				em, _ := procs[s].take()
				for _, e := range em {
					moved = true
					for _, r := range members {
						if r == s {
							continue
						}
						var err error
						if e.bcast {
							err = objs[r].HandleBroadcastMsg(s, e.data)
						} else if e.dest == r {
							err = objs[r].HandlePrivateMsg(s, e.data)
						}
						if err != nil {
							add("C10", "HandlerError", fmt.Sprintf("participant %d handling a message of %d: %v", r, s, err))
						}
					}
				}
			}
			if !moved {
				return
			}
		}
	}
	deliver()
	for k := 0; k < 2; k++ {
		for _, m := range members {
			if err := objs[m].NextTimeout(); err != nil {
				add("C10", "NextTimeout", err.Error())
			}
		}
		deliver()
	}
	type out struct {
		sk  crypto.PrivateKey
		pk  crypto.PublicKey
		pks []crypto.PublicKey
	}
	outs := map[int]out{}
	for _, m := range members {
		sk, pk, pks, err := objs[m].End()
		res.Evals++
		if err != nil {
			add("C08", "HonestDealerQualified", fmt.Sprintf("all-honest run: End() of participant %d failed: %v", m, err))
			return
		}
		if len(procs[m].all) > 0 {
			add("C08", "NoHonestBlamed", fmt.Sprintf("all-honest run: participant %d raised %v", m, procs[m].all))
		}
		outs[m] = out{sk, pk, pks}
	}
	first := outs[members[0]]
	for _, m := range members {
		o := outs[m]
		if len(o.pks) != c.N {
			add("C07", "KeysShape", fmt.Sprintf("participant %d: %d public key shares", m, len(o.pks)))
			return
		}
		if !bytes.Equal(o.pk.Encode(), first.pk.Encode()) {
			add("C07", "SameGroupKey", fmt.Sprintf("group key differs between %d and %d", members[0], m))
		}
		for i := range o.pks {
			if !bytes.Equal(o.pks[i].Encode(), first.pks[i].Encode()) {
				add("C07", "SamePublicShares", fmt.Sprintf("public share %d differs between %d and %d", i, members[0], m))
				break
			}
		}
		if !o.sk.PublicKey().Equals(o.pks[m]) {
			add("C07", "PrivateMatchesPublicShare", fmt.Sprintf("participant %d: sk.PublicKey() != pks[%d]", m, m))
		}
	}
	// reference arithmetic where the threshold keeps the Lagrange numerators small: shares 0..t, the last share and the members' own
	if c.T <= 4 {
		dec := func(k crypto.PublicKey) ref.G2 {
			p, err := ref.G2Decompress(k.Encode(), !g2Flow())
			if err != nil {
				panic(err)
			}
			return p
		}
		xs := make([]int64, c.T+1)
		pts := make([]ref.G2, c.T+1)
		for j := range xs {
			xs[j] = int64(j + 1)
			pts[j] = dec(first.pks[j])
		}
		if !ref.G2OnPolynomial(xs, pts, 0, dec(first.pk)) {
			add("C07", "SharesOnOnePolynomial", "reference arithmetic: the public key shares 0..t do not interpolate to the group key at 0")
		}
		for _, i := range append([]int{c.N - 1, c.N / 2}, members...) {
			if i > c.T && !ref.G2OnPolynomial(xs, pts, int64(i+1), dec(first.pks[i])) {
				add("C07", "SharesOnOnePolynomial", fmt.Sprintf("reference arithmetic: public key share %d is not on the polynomial through shares 0..%d", i, c.T))
			}
		}
		for _, m := range members[:min(len(members), 3)] {
			if !ref.G2Gen.Mul(new(big.Int).SetBytes(outs[m].sk.Encode())).Equal(dec(first.pks[m])) {
				add("C07", "PrivateMatchesPublicShare", fmt.Sprintf("reference arithmetic: participant %d: private share times the generator is not public share %d", m, m))
			}
		}
	}
	// t+1 members sign: the reconstruction must verify under the group key
	if len(members) >= c.T+1 {
		msg := []byte("verif big dkg")
		h := crypto.NewExpandMsgXOFKMAC128("verif-dkg")
		var sigs []crypto.Signature
		var signers []int
		for _, m := range members[len(members)-c.T-1:] { // the highest indices
			s, err := outs[m].sk.Sign(msg, h)
			if err != nil {
				add("C07", "SignShare", err.Error())
				return
			}
			sigs = append(sigs, s)
			signers = append(signers, m)
		}
		ts, err := crypto.BLSReconstructThresholdSignature(c.N, c.T, sigs, signers)
		if err != nil {
			add("C07", "ThresholdReconstruct", err.Error())
			return
		}
		if ok, err := first.pk.Verify(ts, msg, h); err != nil || !ok {
			add("C07", "SharesOnOnePolynomial", fmt.Sprintf("threshold signature of signers %v is invalid under the group key", signers))
		}
	}
	return
}
