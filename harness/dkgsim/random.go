package dkgsim

import (
	"math/rand"
	"strconv"
)

// RandomConfig describes one randomised Byzantine run driven online on the real objects (binding B2):
// the adversary draws its scripts from the grammar of DKGNet.tla, the scheduler draws the delivery order.
type RandomConfig struct {
	Grid   int // >= 0: systematic strategy number for the first Byzantine participant (see gridScript); -1: random
	ID     string
	Proto  string
	N, T   int
	Dealer int
	Byz    []int
	Seed   int64
	MaxBc  int // Byzantine broadcasts per participant and round
	Slack  int
}

func (s *Sim) randMsgs(g *rand.Rand, b int, private bool) []Msg {
	isDealer := false
	for _, d := range s.dealers {
		isDealer = isDealer || d == b
	}
	polys := []string{"P1", "P2"}
	var ms []Msg
	if private {
		if isDealer {
			ms = append(ms, Msg{"share", "ok", "P1", -1}, Msg{"share", "ok", "P1", -1}, Msg{"share", "ok", "P2", -1}, Msg{"share", "bad", "none", -1})
		} else {
			ms = append(ms, Msg{"share", "ok", "P1", -1})
		}
		return ms
	}
	if isDealer {
		ms = append(ms, Msg{"vec", "ok", "P1", -1}, Msg{"vec", "ok", "P1", -1}, Msg{"vec", "ok", "P2", -1}, Msg{"vec", "bad", "none", -1})
		for j := 0; j < s.sc.N; j++ {
			if j == b {
				continue
			}
			for _, P := range polys {
				ms = append(ms, Msg{"answer", "ok", P, j})
			}
			ms = append(ms, Msg{"answer", "ok", "P1", j}, Msg{"answer", "badscalar", "none", j})
		}
		ms = append(ms, Msg{"answer", "bad", "none", -1})
	}
	for _, d := range s.dealers {
		if d != b {
			ms = append(ms, Msg{"complaint", "ok", "none", d})
		}
	}
	if !isDealer { // unsolicited dealer-type messages and a complaint against a non-dealer
		other := (b + 1) % s.sc.N
		ms = append(ms, Msg{"vec", "ok", "P1", -1}, Msg{"answer", "ok", "P1", other}, Msg{"answer", "bad", "none", -1})
		for j := 0; j < s.sc.N; j++ {
			nd := true
			for _, d := range s.dealers {
				nd = nd && d != j
			}
			if nd && j != b {
				ms = append(ms, Msg{"complaint", "ok", "none", j})
				break
			}
		}
	}
	ms = append(ms, Msg{"complaint", "bad", "none", -1}, Msg{"junk", "empty", "none", -1})
	return ms
}

// pendingComplainers lists the participants whose complaint against b is already queued and which b has not answered yet
func (s *Sim) pendingComplainers(b int) []int {
	var out []int
	for o := 0; o < s.sc.N; o++ {
		if o == b {
			continue
		}
		complained := false
		for _, e := range s.bq[o] {
			if e.abs.T == "complaint" && e.abs.K == "ok" && e.abs.J == b {
				complained = true
			}
		}
		if !complained {
			continue
		}
		answered := false
		for _, e := range s.bq[b] {
			if e.abs.T == "answer" && e.abs.J == o {
				answered = true
			}
		}
		if !answered {
			out = append(out, o)
		}
	}
	return out
}

// randScript: a mostly protocol-following Byzantine participant with a few seeded deviations (profile "subtle"),
// or an arbitrary sequence over the grammar (profile "wild").
func (s *Sim) randScript(g *rand.Rand, cfg RandomConfig) map[string]ByzScript {
	out := map[string]ByzScript{}
	wild := cfg.Seed%5 == 0
	for _, b := range s.sc.Byz {
		bs := ByzScript{Pv: map[string][]Msg{}}
		cand := s.randMsgs(g, b, false)
		pc := s.randMsgs(g, b, true)
		isDealer := false
		for _, d := range s.dealers {
			isDealer = isDealer || d == b
		}
		if wild {
			k := g.Intn(cfg.MaxBc + 1)
			for i := 0; i < k && len(cand) > 0; i++ {
				bs.Bc = append(bs.Bc, cand[g.Intn(len(cand))])
			}
			for _, p := range s.honest {
				if !isDealer {
					continue
				}
				n := []int{0, 0, 0, 0, 1}[g.Intn(5)]
				if s.round == 1 {
					n = []int{0, 1, 1, 1, 1, 2}[g.Intn(6)]
				}
				for i := 0; i < n; i++ {
					bs.Pv[strconv.Itoa(p)] = append(bs.Pv[strconv.Itoa(p)], pc[g.Intn(len(pc))])
				}
			}
			out[strconv.Itoa(b)] = bs
			continue
		}
		dev := func(pct int) bool { return g.Intn(100) < pct }
		if isDealer && s.round == 1 {
			// the vector
			switch {
			case dev(6): // omitted (or late: sent in a later round below)
			case dev(5):
				bs.Bc = append(bs.Bc, Msg{"vec", "bad", "none", -1})
			case dev(6):
				bs.Bc = append(bs.Bc, Msg{"vec", "ok", "P1", -1}, Msg{"vec", "ok", []string{"P1", "P2"}[g.Intn(2)], -1})
			default:
				bs.Bc = append(bs.Bc, Msg{"vec", "ok", "P1", -1})
			}
			// early (unsolicited) answers
			for j := 0; j < s.sc.N; j++ {
				if j != b && dev(12) {
					a := Msg{"answer", "ok", "P1", j}
					if dev(15) {
						a = Msg{"answer", "ok", "P2", j}
					} else if dev(8) {
						a = Msg{"answer", "badscalar", "none", j}
					}
					if dev(50) {
						bs.Bc = append([]Msg{a}, bs.Bc...)
					} else {
						bs.Bc = append(bs.Bc, a)
					}
				}
			}
			// the shares
			for _, p := range s.honest {
				ps := strconv.Itoa(p)
				switch {
				case dev(15): // withheld
				case dev(10):
					bs.Pv[ps] = []Msg{{"share", "bad", "none", -1}}
				case dev(10):
					bs.Pv[ps] = []Msg{{"share", "ok", "P2", -1}}
				case dev(6):
					bs.Pv[ps] = []Msg{{"share", "ok", "P1", -1}, {"share", "ok", "P1", -1}}
				default:
					bs.Pv[ps] = []Msg{{"share", "ok", "P1", -1}}
				}
			}
		}
		if isDealer && s.round >= 2 {
			if dev(4) {
				bs.Bc = append(bs.Bc, Msg{"vec", "ok", "P1", -1}) // late vector
			}
			for _, p := range s.honest {
				if dev(4) {
					bs.Pv[strconv.Itoa(p)] = []Msg{{"share", "ok", "P1", -1}} // late share
				}
			}
		}
		if isDealer {
			// answer the complaints that are already queued
			for _, j := range s.pendingComplainers(b) {
				switch {
				case dev(12) && s.round < 3: // later, or never
				case dev(10):
					bs.Bc = append(bs.Bc, Msg{"answer", "ok", "P2", j})
				case dev(6):
					bs.Bc = append(bs.Bc, Msg{"answer", "badscalar", "none", j})
				case dev(6):
					bs.Bc = append(bs.Bc, Msg{"answer", "ok", "P1", j}, Msg{"answer", "ok", "P1", j})
				default:
					bs.Bc = append(bs.Bc, Msg{"answer", "ok", "P1", j})
				}
			}
			if dev(3) {
				bs.Bc = append(bs.Bc, Msg{"answer", "bad", "none", -1})
			}
		}
		// behaviour as a participant of the other dealers' instances
		for _, d := range s.dealers {
			if d != b && dev(10) {
				bs.Bc = append(bs.Bc, Msg{"complaint", "ok", "none", d})
				if dev(20) {
					bs.Bc = append(bs.Bc, Msg{"complaint", "ok", "none", d})
				}
			}
		}
		if dev(3) {
			bs.Bc = append(bs.Bc, Msg{"complaint", "bad", "none", -1})
		}
		if !isDealer && dev(25) && len(cand) > 0 {
			bs.Bc = append(bs.Bc, cand[g.Intn(len(cand))])
			for _, p := range s.honest {
				if dev(30) {
					bs.Pv[strconv.Itoa(p)] = append(bs.Pv[strconv.Itoa(p)], Msg{"share", "ok", "P1", -1})
				}
			}
		}
		if dev(2) {
			bs.Bc = append(bs.Bc, Msg{"junk", []string{"empty", "badtag"}[g.Intn(2)], "none", -1})
		}
		out[strconv.Itoa(b)] = bs
	}
	return out
}

// RunRandom drives one randomised run; the returned events are at the same time the replayable script.
func RunRandom(cfg RandomConfig) (Result, Script) {
	sc := Script{ID: cfg.ID, Proto: cfg.Proto, N: cfg.N, T: cfg.T, Dealer: cfg.Dealer, Byz: cfg.Byz, Seed: cfg.Seed, Source: "go-random"}
	s, err := New(sc)
	if err != nil {
		return Result{ID: cfg.ID, Notes: []string{"setup: " + err.Error()}}, sc
	}
	g := rand.New(rand.NewSource(cfg.Seed ^ 0x5deece66d))
	s.res.Events = append(s.res.Events, Event{A: "reset", P: -1, S: -1, ID: sc.ID, Out: []Msg{}, Fl: [][]any{}})
	for s.round <= 3 {
		if len(sc.Byz) > 0 {
			script := s.randScript(g, cfg)
			if cfg.Grid >= 0 {
				script[strconv.Itoa(sc.Byz[0])] = s.gridScript(cfg.Grid, sc.Byz[0])
			}
			s.commit(script)
		}
		order := -1
		if cfg.Grid >= 0 {
			order = (cfg.Grid / GridStrategies) % 3
		}
		for !s.quiet() {
			type cand struct {
				b      bool
				p, src int
			}
			var cs []cand
			for _, p := range s.honest {
				for src := 0; src < s.sc.N; src++ {
					if q := s.bq[src]; s.bptr[p][src] < len(q) && q[s.bptr[p][src]].land == s.round {
						cs = append(cs, cand{true, p, src})
					}
					if q := s.pq[src][p]; s.pptr[p][src] < len(q) && q[s.pptr[p][src]].land == s.round {
						cs = append(cs, cand{false, p, src})
					}
				}
			}
			c := cs[g.Intn(len(cs))]
			switch order {
			case 0: // broadcasts before private messages, lowest sender and receiver first
				c = cs[0]
				for _, x := range cs {
					if x.b && !c.b {
						c = x
					}
				}
			case 1: // private messages before broadcasts, highest first
				c = cs[len(cs)-1]
				for i := len(cs) - 1; i >= 0; i-- {
					if !cs[i].b && c.b {
						c = cs[i]
					}
				}
			}
			s.deliver(c.b, c.p, c.src, s.round+g.Intn(cfg.Slack+1))
		}
		s.advance()
	}
	s.judge()
	for _, p := range s.res.Panics {
		s.res.Violations = append(s.res.Violations, Violation{"C09", "NoPanic", p})
	}
	s.normalise()
	// the event log is the script
	for _, e := range s.res.Events {
		if e.A == "reset" {
			continue
		}
		sc.Steps = append(sc.Steps, Step{A: e.A, P: e.P, S: e.S, Land: e.Land, Script: e.Script})
	}
	s.res.Steps = len(sc.Steps)
	return s.res, sc
}

// ---------- systematic strategies of one Byzantine dealer (binding B2, grid mode) ----------

// GridStrategies = 5 (vector) x 7 (share(s) to the first honest participant) x 2 (share to the second) x 4 (early answer)
// x 6 (answer policy); three delivery orders on top.  The behaviour of the Byzantine participant AS A PARTICIPANT of the other
// dealers' instances (11 kinds, gridParticipant) is not a further factor of the product: it is derived from the strategy number so
// that every kind meets many dealer strategies; when the participant is not a dealer at all it is the strategy number itself.
const GridStrategies = 5 * 7 * 2 * 4 * 6
const GridParticipantKinds = 11

func (s *Sim) gridScript(grid int, b int) ByzScript {
	k := grid % GridStrategies
	dig := func(base int) int { d := k % base; k /= base; return d }
	vecB, sh1, sh2, early, policy := dig(5), dig(7), dig(2), dig(4), dig(6)
	part := (grid*7 + grid/GridParticipantKinds) % GridParticipantKinds
	bs := ByzScript{Pv: map[string][]Msg{}}
	isDealer := false
	for _, d := range s.dealers {
		isDealer = isDealer || d == b
	}
	var h1, h2 = -1, -1
	for _, p := range s.honest {
		if p == b {
			continue
		}
		if h1 < 0 {
			h1 = p
		} else if h2 < 0 {
			h2 = p
		}
	}
	if isDealer && s.round == 1 {
		earlyMsg := []Msg{nil2msg(), {"answer", "ok", "P1", h1}, {"answer", "ok", "P2", h1}, {"answer", "badscalar", "none", h1}}[early]
		if early != 0 && policy%2 == 0 {
			bs.Bc = append(bs.Bc, earlyMsg) // before the vector
		}
		switch vecB {
		case 0:
			bs.Bc = append(bs.Bc, Msg{"vec", "ok", "P1", -1})
		case 1: // omitted in round 1, sent late
		case 2:
			bs.Bc = append(bs.Bc, Msg{"vec", "bad", "none", -1})
		case 3:
			bs.Bc = append(bs.Bc, Msg{"vec", "ok", "P2", -1})
		case 4:
			bs.Bc = append(bs.Bc, Msg{"vec", "ok", "P1", -1}, Msg{"vec", "ok", "P2", -1})
		}
		if early != 0 && policy%2 == 1 {
			bs.Bc = append(bs.Bc, earlyMsg) // after the vector
		}
		for _, p := range s.honest {
			kind := 0
			if p == h1 {
				kind = sh1
			} else if p == h2 {
				kind = sh2 * 3
			}
			ps := strconv.Itoa(p)
			switch kind {
			case 0:
				bs.Pv[ps] = []Msg{{"share", "ok", "P1", -1}}
			case 1: // withheld
			case 2:
				bs.Pv[ps] = []Msg{{"share", "bad", "none", -1}}
			case 3:
				bs.Pv[ps] = []Msg{{"share", "ok", "P2", -1}}
			case 4:
				bs.Pv[ps] = []Msg{{"share", "ok", "P1", -1}, {"share", "ok", "P2", -1}}
			case 5: // a malformed private message, then a well-formed share of another polynomial (after the complaint, maybe after its answer)
				bs.Pv[ps] = []Msg{{"share", "bad", "none", -1}, {"share", "ok", "P2", -1}}
			case 6: // a malformed private message, then the right share
				bs.Pv[ps] = []Msg{{"share", "bad", "none", -1}, {"share", "ok", "P1", -1}}
			}
		}
	}
	if isDealer && s.round == 2 && vecB == 1 {
		bs.Bc = append(bs.Bc, Msg{"vec", "ok", "P1", -1})
	}
	if isDealer && s.round >= 2 {
		for _, j := range s.pendingComplainers(b) {
			switch policy {
			case 0: // never answers
			case 1: // answers correctly as soon as possible
				bs.Bc = append(bs.Bc, Msg{"answer", "ok", "P1", j})
			case 2: // answers correctly but only in the last round
				if s.round == 3 {
					bs.Bc = append(bs.Bc, Msg{"answer", "ok", "P1", j})
				}
			case 3: // answers with a share of another polynomial
				bs.Bc = append(bs.Bc, Msg{"answer", "ok", "P2", j})
			case 4:
				bs.Bc = append(bs.Bc, Msg{"answer", "badscalar", "none", j})
			case 5: // answers twice
				bs.Bc = append(bs.Bc, Msg{"answer", "ok", "P1", j}, Msg{"answer", "ok", "P2", j})
			}
		}
	}
	if !isDealer {
		part = grid % GridParticipantKinds
	}
	s.gridParticipant(&bs, part, b)
	return bs
}

// gridParticipant: the Byzantine participant b in the instances of the OTHER dealers (complaint timing, duplicates, malformed and
// misdirected complaints, dealer-type messages from a non-dealer)
func (s *Sim) gridParticipant(bs *ByzScript, part int, b int) {
	target := -1
	for _, d := range s.dealers {
		if d != b {
			target = d
			break
		}
	}
	nonDealer := -1
	for j := 0; j < s.sc.N; j++ {
		nd := j != b
		for _, d := range s.dealers {
			nd = nd && d != j
		}
		if nd {
			nonDealer = j
			break
		}
	}
	complain := func() {
		if target >= 0 {
			bs.Bc = append(bs.Bc, Msg{"complaint", "ok", "none", target})
		}
	}
	switch part {
	case 0: // follows the protocol silently
	case 1: // complains in the first round
		if s.round == 1 {
			complain()
		}
	case 2: // complains in the second round
		if s.round == 2 {
			complain()
		}
	case 3: // the same complaint twice in one round
		if s.round == 1 {
			complain()
			complain()
		}
	case 4: // the same complaint in two rounds
		if s.round <= 2 {
			complain()
		}
	case 5: // a malformed complaint
		if s.round <= 2 {
			bs.Bc = append(bs.Bc, Msg{"complaint", "bad", "none", -1})
		}
	case 6: // a complaint against a participant that is not a dealer (or, when everybody deals, a late duplicate)
		if nonDealer >= 0 && s.round <= 2 {
			bs.Bc = append(bs.Bc, Msg{"complaint", "ok", "none", nonDealer})
		} else if s.round >= 2 {
			complain()
		}
	case 7: // a complaint after the complaints timeout
		if s.round == 3 {
			complain()
		}
	case 8: // a verification vector from a participant that is not the dealer of the instance it is read in
		if s.round == 1 {
			bs.Bc = append(bs.Bc, Msg{"vec", "ok", "P2", -1})
		}
	case 9: // a complaint followed by an answer naming an honest participant (answers are the dealer's business)
		if s.round <= 2 {
			complain()
			for _, p := range s.honest {
				if p != b {
					bs.Bc = append(bs.Bc, Msg{"answer", "ok", "P2", p})
					break
				}
			}
		}
	case 10: // private shares from a participant that is not the dealer, and junk
		if s.round == 1 {
			for _, p := range s.honest {
				bs.Pv[strconv.Itoa(p)] = append(bs.Pv[strconv.Itoa(p)], Msg{"share", "ok", "P2", -1})
			}
			bs.Bc = append(bs.Bc, Msg{"junk", "badtag", "none", -1})
		}
	}
}

func nil2msg() Msg { return Msg{} }
