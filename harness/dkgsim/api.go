package dkgsim

import (
	"bytes"
	"fmt"
	"sort"
	"sync"

	crypto "github.com/onflow/crypto"
)

// mirrors specs/dkg/DKGApi.tla

type APICall struct {
	Op string `json:"op"`
	I  int    `json:"i"`
	K  string `json:"k"`
}

type APIStep struct {
	Call    APICall  `json:"call"`
	Cls     string   `json:"cls"`
	Running bool     `json:"running"`
	Out     []string `json:"out"`
	Fl      [][]any  `json:"fl"`
}

type APICase struct {
	ID    string    `json:"id"`
	Proto string    `json:"proto"`
	Me    int       `json:"me"`
	Seed  int64     `json:"seed"`
	Hist  []APIStep `json:"hist"`
}

type APIResult struct {
	ID         string      `json:"id"`
	Classes    []string    `json:"classes"`
	Violations []Violation `json:"violations"`
	Notes      []string    `json:"notes"`
	Case       APICase     `json:"case"`
}

type apiObs struct {
	cls     string
	running bool
	emis    []emission
	cbs     []string
}

func errClass(err error) string {
	switch {
	case err == nil:
		return "nil"
	case crypto.IsDKGInvalidStateTransitionError(err):
		return "ST"
	case crypto.IsInvalidInputsError(err):
		return "II"
	case crypto.IsDKGFailureError(err):
		return "F"
	}
	return "other(" + err.Error() + ")"
}

var (
	apiPayloadMu   sync.Mutex
	apiPayloadMemo = map[string][]byte{}
)

// apiPayload returns a fresh copy of the (memoised) message of kind k of the shadow dealer
func apiPayload(proto string, me int, seed int64, k string) []byte {
	key := fmt.Sprintf("%s/%d/%d/%s", proto, me, seed, k)
	apiPayloadMu.Lock()
	b, ok := apiPayloadMemo[key]
	apiPayloadMu.Unlock()
	if !ok {
		b = apiPayloadBuild(proto, me, seed, k)
		apiPayloadMu.Lock()
		apiPayloadMemo[key] = b
		apiPayloadMu.Unlock()
	}
	if b == nil {
		return nil
	}
	return append([]byte{}, b...)
}

func apiPayloadBuild(proto string, me int, seed int64, k string) []byte {
	const n, t = 3, 1
	pr := &proc{me: 0}
	var st crypto.DKGState
	var err error
	if proto == "fvss" {
		st, err = crypto.NewFeldmanVSS(n, t, 0, pr, 0)
	} else {
		st, err = crypto.NewFeldmanVSSQual(n, t, 0, pr, 0)
	}
	if err != nil {
		panic(err)
	}
	if err := st.Start(seedFor(seed, "apishadow", 0)); err != nil {
		panic(err)
	}
	em, _ := pr.take()
	var vec []byte
	shares := map[int][]byte{}
	for _, e := range em {
		if e.bcast {
			vec = e.data
		} else {
			shares[e.dest] = e.data
		}
	}
	target := me
	if me == 0 {
		target = 1
	}
	switch k {
	case "vec":
		return vec
	case "share":
		return shares[target]
	case "complaint":
		return []byte{2, 0}
	case "answer":
		return append([]byte{3, byte(me)}, shares[target][1:]...)
	case "junk":
		return []byte{}
	}
	return nil
}

func runAPICalls(c APICase, calls []APICall, res *APIResult) []apiObs {
	const n, t = 3, 1
	pr := &proc{me: c.Me}
	var st crypto.DKGState
	var err error
	switch c.Proto {
	case "fvss":
		st, err = crypto.NewFeldmanVSS(n, t, c.Me, pr, 0)
	case "qual":
		st, err = crypto.NewFeldmanVSSQual(n, t, c.Me, pr, 0)
	default:
		st, err = crypto.NewJointFeldman(n, t, c.Me, pr)
	}
	if err != nil {
		panic(err)
	}
	var out []apiObs
	for i, call := range calls {
		var o apiObs
		func() {
			defer func() {
				if r := recover(); r != nil {
					o.cls = "panic"
					res.Violations = append(res.Violations, Violation{"C09", "NoPanic",
						fmt.Sprintf("call %d %s(%d,%s): panic: %v", i, call.Op, call.I, call.K, r)})
				}
			}()
			var e error
			switch call.Op {
			case "Start":
				sd := seedFor(c.Seed, "api", c.Me)
				if call.K == "short" {
					sd = sd[:31]
				}
				e = st.Start(sd)
			case "NextTimeout":
				e = st.NextTimeout()
			case "End":
				_, _, _, e = st.End()
				if e == nil {
					o.cls = "keys"
				}
			case "HB":
				e = st.HandleBroadcastMsg(call.I, apiPayload(c.Proto, c.Me, c.Seed, call.K))
			case "HP":
				e = st.HandlePrivateMsg(call.I, apiPayload(c.Proto, c.Me, c.Seed, call.K))
			case "FD":
				e = st.ForceDisqualify(call.I)
			}
			if o.cls == "" {
				o.cls = errClass(e)
			}
		}()
		func() {
			defer func() { recover() }()
			o.running = st.Running()
		}()
		em, cbs := pr.take()
		o.emis = em
		for _, cb := range cbs {
			o.cbs = append(o.cbs, fmt.Sprintf("%v:%v", cb[0], cb[2]))
		}
		sort.Strings(o.cbs)
		out = append(out, o)
	}
	return out
}

func emisKinds(em []emission) []string {
	out := []string{}
	for _, e := range em {
		switch {
		case !e.bcast:
			out = append(out, "share")
		case len(e.data) > 0 && e.data[0] == 1:
			out = append(out, "vec")
		case len(e.data) > 0 && e.data[0] == 2:
			out = append(out, "complaint")
		case len(e.data) > 0 && e.data[0] == 3:
			out = append(out, "answer")
		default:
			out = append(out, "junk")
		}
	}
	return out
}

func sameEmis(a, b []emission) bool {
	if len(a) != len(b) {
		return false
	}
	for i := range a {
		if a[i].bcast != b[i].bcast || a[i].dest != b[i].dest || !bytes.Equal(a[i].data, b[i].data) {
			return false
		}
	}
	return true
}

// RunAPI executes one call sequence on a real instance and judges C10:
//   - the result class of every call and Running() after it are those of the documented state machine (the model),
//   - non-interference: deleting the calls that were rejected (ST / II) leaves everything observable unchanged.
//
// MetaSample thins the metamorphic re-runs out when the enumeration is large (thorough tier): floods on one case in MetaSample,
// insertions on one case in 8 * MetaSample; cases with six or more accepted calls always get both
var MetaSample uint32 = 1

func RunAPI(c APICase) APIResult {
	res := APIResult{ID: c.ID, Case: c, Violations: []Violation{}, Notes: []string{}}
	calls := make([]APICall, len(c.Hist))
	for i, h := range c.Hist {
		calls[i] = h.Call
	}
	obs := runAPICalls(c, calls, &res)
	var kept []APICall
	var keptIdx []int
	for i, o := range obs {
		res.Classes = append(res.Classes, o.cls)
		want := c.Hist[i]
		if o.cls != want.Cls && o.cls != "panic" {
			res.Violations = append(res.Violations, Violation{"C10", "ResultClass",
				fmt.Sprintf("%s %s me=%d: call %d %s(%d,%s) returned %s, the state machine prescribes %s (sequence %v)",
					c.Proto, c.ID, c.Me, i, want.Call.Op, want.Call.I, want.Call.K, o.cls, want.Cls, calls)})
		}
		if o.running != want.Running && o.cls != "panic" {
			res.Violations = append(res.Violations, Violation{"C10", "Running",
				fmt.Sprintf("%s me=%d: Running() = %v after call %d %s, the state machine prescribes %v (sequence %v)",
					c.Proto, c.Me, o.running, i, want.Call.Op, want.Running, calls)})
		}
		wk := append([]string{}, want.Out...)
		gk := emisKinds(o.emis)
		if fmt.Sprint(wk) != fmt.Sprint(gk) {
			res.Notes = append(res.Notes, fmt.Sprintf("call %d %s: emitted %v, model %v", i, want.Call.Op, gk, wk))
		}
		var wf []string
		for _, f := range want.Fl {
			wf = append(wf, fmt.Sprintf("%v:%v", f[0], f[1]))
		}
		sort.Strings(wf)
		gf := uniq(o.cbs)
		if fmt.Sprint(wf) != fmt.Sprint(gf) && !(len(wf) == 0 && len(gf) == 0) {
			res.Notes = append(res.Notes, fmt.Sprintf("call %d %s: callbacks %v, model %v", i, want.Call.Op, gf, wf))
		}
		if o.cls != "ST" && o.cls != "II" && o.cls != "panic" {
			kept = append(kept, calls[i])
			keptIdx = append(keptIdx, i)
		} else if o.cls != "panic" && (len(o.emis) > 0 || len(o.cbs) > 0) {
			// what a refused call does WHILE it is refused is not fixed by C10 (only the subsequent behaviour is): recorded, not judged;
			// the insertion check below judges whether anything later differs
			res.Notes = append(res.Notes, fmt.Sprintf("call %d %s(%d,%s) is refused (%s) yet sends %v and invokes the callbacks %v",
				i, calls[i].Op, calls[i].I, calls[i].K, o.cls, emisKinds(o.emis), o.cbs))
		}
	}
	if len(kept) < len(calls) {
		var scratch APIResult
		obs2 := runAPICalls(c, kept, &scratch)
		for k, i := range keptIdx {
			a, b := obs[i], obs2[k]
			if a.cls != b.cls || a.running != b.running || !sameEmis(a.emis, b.emis) || fmt.Sprint(a.cbs) != fmt.Sprint(b.cbs) {
				res.Violations = append(res.Violations, Violation{"C10", "RejectedCallChangedBehaviour",
					fmt.Sprintf("%s me=%d: call %d %s behaves differently once the rejected calls are removed: (%s,%v,%v,%v) vs (%s,%v,%v,%v) (sequence %v)",
						c.Proto, c.Me, i, calls[i].Op, a.cls, a.running, emisKinds(a.emis), a.cbs, b.cls, b.running, emisKinds(b.emis), b.cbs, calls)})
				break
			}
		}
	}
	// ... and once every rejected call is REPEATED many times in place (a rejected call is a stuttering step however often it is
	// made: counters of refused calls, if any, must not reach the state): 253..258 times, and 65 533..65 538 times on one case in a hundred
	if len(kept) < len(calls) && len(res.Violations) == 0 && (hashStr(c.ID)%MetaSample == 0 || len(kept) >= 6) {
		// (a counter of one byte wraps to a given value for one number of repetitions only: 253..258 are all tried when the case has
		// few rejected calls, one of them otherwise)
		repsList := []int{253 + int(hashStr(c.ID)%6)}
		if len(calls)-len(kept) <= 3 {
			repsList = []int{253, 254, 255, 256, 257, 258}
		}
		if c.Seed == 0 {
			repsList = append(repsList, 65533+int(hashStr(c.ID)%6))
		}
		for _, reps := range repsList {
			if len(res.Violations) > 0 {
				break
			}
			var flood []APICall
			var floodIdx []int // position in flood of the (last copy of the) i-th original call
			for i, o := range obs {
				k := 1
				if o.cls == "ST" || o.cls == "II" {
					k = reps
				}
				for j := 0; j < k; j++ {
					flood = append(flood, calls[i])
				}
				floodIdx = append(floodIdx, len(flood)-1)
			}
			var scratch APIResult
			obs3 := runAPICalls(c, flood, &scratch)
			for i := range calls {
				a, b := obs[i], obs3[floodIdx[i]]
				if a.cls == "ST" || a.cls == "II" { // a refused call: its class and Running() are prescribed, what else it does while refused is not
					b.emis, b.cbs = a.emis, a.cbs
				}
				if a.cls != b.cls || a.running != b.running || !sameEmis(a.emis, b.emis) || fmt.Sprint(a.cbs) != fmt.Sprint(b.cbs) {
					res.Violations = append(res.Violations, Violation{"C10", "RejectedCallChangedBehaviour",
						fmt.Sprintf("%s me=%d: call %d %s behaves differently once every rejected call is made %d times instead of once: (%s,%v,%v,%v) vs (%s,%v,%v,%v) (sequence %v)",
							c.Proto, c.Me, i, calls[i].Op, reps, a.cls, a.running, emisKinds(a.emis), a.cbs, b.cls, b.running, emisKinds(b.emis), b.cbs, calls)})
					break
				}
			}
			for _, v := range scratch.Violations {
				res.Violations = append(res.Violations, v)
				break
			}
		}
	}
	// ... and once a call that the instance REFUSES is inserted at any position of the accepted calls (End before its time, a
	// third NextTimeout, Start on a running instance, an out-of-range index): whatever is refused leaves every later call as it was
	if len(res.Violations) == 0 && len(kept) >= 2 && (hashStr(c.ID)%(8*MetaSample) == 0 || len(kept) >= 6) {
		var base APIResult
		obs0 := runAPICalls(c, kept, &base)
		probes := []APICall{{Op: "End"}, {Op: "NextTimeout"}, {Op: "Start"}, {Op: "FD", I: 256}, {Op: "HB", I: -1, K: "vec"}}
	insert:
		for p := 0; p <= len(kept); p++ {
			for _, pr := range probes {
				seq := append(append(append([]APICall{}, kept[:p]...), pr), kept[p:]...)
				var scratch APIResult
				obsI := runAPICalls(c, seq, &scratch)
				if cls := obsI[p].cls; cls != "ST" && cls != "II" {
					continue // accepted there: another behaviour, nothing to compare
				}
				for k := range kept {
					a, b := obs0[k], obsI[k]
					if k >= p {
						b = obsI[k+1]
					}
					if a.cls != b.cls || a.running != b.running || !sameEmis(a.emis, b.emis) || fmt.Sprint(a.cbs) != fmt.Sprint(b.cbs) {
						res.Violations = append(res.Violations, Violation{"C10", "RejectedCallChangedBehaviour",
							fmt.Sprintf("%s me=%d: the refused call %s(%d) inserted at position %d changes call %d %s: (%s,%v,%v,%v) becomes (%s,%v,%v,%v) (accepted sequence %v)",
								c.Proto, c.Me, pr.Op, pr.I, p, k, kept[k].Op, a.cls, a.running, emisKinds(a.emis), a.cbs, b.cls, b.running, emisKinds(b.emis), b.cbs, kept)})
						break insert
					}
				}
			}
		}
	}
	return res
}

func uniq(s []string) []string {
	var out []string
	for i, x := range s {
		if i == 0 || x != s[i-1] {
			out = append(out, x)
		}
	}
	return out
}
