package dkgsim

import (
	"bytes"
	"fmt"
	"math/big"
	"math/rand"

	crypto "github.com/onflow/crypto"
	"verifharness/ref"
)

// A REFERENCE DEALER: a protocol-following dealer implemented by the harness with reference arithmetic (harness/ref), dealing a
// polynomial of the harness's choosing to REAL receivers.  It is an honest participant in the sense of C07 / C08 (it follows the
// protocol; its polynomial merely has a shape the library's own dealer produces with probability 2^-255): it must be qualified
// by every honest receiver, never flagged, and the keys the receivers compute from its vector must be the images of that
// polynomial - which the harness knows coefficient by coefficient, independently of the library's dealing code.

type RefDealCase struct {
	ID     string `json:"id"`
	Proto  string `json:"proto"` // qual | jf (jf: one reference dealer among real ones)
	N      int    `json:"n"`
	T      int    `json:"t"`
	Dealer int    `json:"dealer"` // index of the reference dealer
	Shape  string `json:"shape"`  // generic | zero-const | zero-middle | zero-lead | root | equal | rminus1 | two-zeros
	Silent int    `json:"silent"` // qual: a participant that is not instantiated (the root of shape "root" is placed at its point); -1: none
	Order  int    `json:"order"`  // 0: vector first, 1: shares first, 2: interleaved per receiver
	Seed   int64  `json:"seed"`
	// a BYZANTINE reference dealer: the vector commits to P (of the given shape), the shares and answers come from a polynomial
	// related to P: div-x (P/x, needs a_0 = 0) | mul-x | shift-1 (P(x-1)) | shift+1 | neg | plus-c | double | reverse; "": honest
	Relation string `json:"relation"`
	// prescribed by specs/dkg/RefDealing.tla
	Outcome       string `json:"outcome"`       // keys | fail
	IdentityShare int    `json:"identityShare"` // the participant whose public key share is the identity key, or -1
}

type refPoly struct{ coef []*big.Int }

func (p refPoly) eval(x int64) *big.Int {
	acc := new(big.Int)
	for i := len(p.coef) - 1; i >= 0; i-- {
		acc.Mul(acc, big.NewInt(x))
		acc.Add(acc, p.coef[i])
		acc.Mod(acc, ref.R)
	}
	return acc
}

func g2Bytes(p ref.G2) []byte { return p.Compress(!g2Flow()) }

func (p refPoly) vectorMsg() []byte {
	out := []byte{1}
	for _, a := range p.coef {
		out = append(out, g2Bytes(ref.G2Gen.Mul(a))...)
	}
	return out
}

func scalar32(v *big.Int) []byte {
	b := make([]byte, 32)
	v.FillBytes(b)
	return b
}

func (p refPoly) shareMsg(i int) []byte { return append([]byte{0}, scalar32(p.eval(int64(i+1)))...) }
func (p refPoly) answerMsg(j int) []byte {
	return append([]byte{3, byte(j)}, scalar32(p.eval(int64(j+1)))...)
}

func randScalar(rng *rand.Rand) *big.Int {
	b := make([]byte, 48)
	for {
		rng.Read(b)
		v := new(big.Int).Mod(new(big.Int).SetBytes(b), ref.R)
		if v.Sign() != 0 {
			return v
		}
	}
}

func shapedPoly(shape string, t int, rootAt int, rng *rand.Rand) refPoly {
	c := make([]*big.Int, t+1)
	for i := range c {
		c[i] = randScalar(rng)
	}
	switch shape {
	case "zero-const":
		c[0] = new(big.Int)
	case "zero-middle":
		if t >= 2 {
			c[1+rng.Intn(t-1)] = new(big.Int)
		}
	case "zero-lead":
		c[t] = new(big.Int)
	case "two-zeros":
		if t >= 3 {
			c[1], c[t-1] = new(big.Int), new(big.Int)
		} else {
			c[t] = new(big.Int)
		}
	case "equal":
		for i := range c {
			c[i] = new(big.Int).Set(c[0])
		}
	case "rminus1":
		for i := range c {
			if i%2 == 0 {
				c[i] = new(big.Int).Sub(ref.R, big.NewInt(1))
			}
		}
	case "horner-double": // a_(t-1) = x * a_t at x = rootAt+1: the Horner evaluation at x adds a point to itself in its first step
		if t >= 1 {
			c[t-1] = new(big.Int).Mod(new(big.Int).Mul(big.NewInt(int64(rootAt+1)), c[t]), ref.R)
		}
	case "root": // P(x) = (x - (rootAt+1)) * Q(x), Q generic of degree t-1
		q := c[:t]
		x0 := big.NewInt(int64(rootAt + 1))
		out := make([]*big.Int, t+1)
		for i := range out {
			out[i] = new(big.Int)
		}
		for i, qi := range q {
			out[i+1].Add(out[i+1], qi)
			out[i].Sub(out[i], new(big.Int).Mul(x0, qi))
		}
		for i := range out {
			out[i].Mod(out[i], ref.R)
		}
		c = out
	}
	return refPoly{c}
}

// relPoly: the polynomial a Byzantine reference dealer takes its shares from
func relPoly(p refPoly, rel string) refPoly {
	t := len(p.coef) - 1
	c := make([]*big.Int, t+1)
	for i := range c {
		c[i] = new(big.Int)
	}
	binom := func(n, k int) *big.Int { return new(big.Int).Binomial(int64(n), int64(k)) }
	switch rel {
	case "div-x":
		for i := 0; i < t; i++ {
			c[i].Set(p.coef[i+1])
		}
	case "mul-x":
		for i := 1; i <= t; i++ {
			c[i].Set(p.coef[i-1])
		}
	case "shift-1", "shift+1": // Q(x) = P(x -/+ 1)
		sign := int64(1)
		if rel == "shift-1" {
			sign = -1
		}
		for k := 0; k <= t; k++ {
			for j := 0; j <= k; j++ { // a_k (x + s)^k = sum_j a_k C(k,j) s^(k-j) x^j
				term := new(big.Int).Mul(p.coef[k], binom(k, j))
				if (k-j)%2 == 1 && sign < 0 {
					term.Neg(term)
				}
				c[j].Add(c[j], term)
			}
		}
	case "neg":
		for i := range c {
			c[i].Neg(p.coef[i])
		}
	case "plus-c":
		for i := range c {
			c[i].Set(p.coef[i])
		}
		c[0].Add(c[0], big.NewInt(1))
	case "double":
		for i := range c {
			c[i].Lsh(p.coef[i], 1)
		}
	case "reverse":
		for i := range c {
			c[i].Set(p.coef[t-i])
		}
	default:
		return p
	}
	for i := range c {
		c[i].Mod(c[i], ref.R)
	}
	return refPoly{c}
}

type RefDealResult struct {
	ID         string      `json:"id"`
	Violations []Violation `json:"violations"`
	Evals      int         `json:"evals"`
}

func RunRefDeal(c RefDealCase) (res RefDealResult) {
	res.ID = c.ID
	res.Violations = []Violation{}
	add := func(prop, pred, d string) {
		if len(res.Violations) < 8 {
			res.Violations = append(res.Violations, Violation{prop, pred, fmt.Sprintf("%s [reference dealer %d, shape %s, %s n=%d t=%d silent=%d order=%d seed=%d]", d, c.Dealer, c.Shape, c.Proto, c.N, c.T, c.Silent, c.Order, c.Seed)})
		}
	}
	defer func() {
		if r := recover(); r != nil {
			add("C09", "NoPanic", fmt.Sprintf("panic: %v", r))
		}
	}()
	if c.Shape == "cancel" {
		runCancel(c, &res, add)
		return
	}
	rng := rand.New(rand.NewSource(c.Seed))
	target := c.Silent
	if c.Shape == "horner-double" { // the special point is the one of the first REAL receiver
		for i := 0; i < c.N; i++ {
			if i != c.Dealer && i != c.Silent {
				target = i
				break
			}
		}
	}
	poly := shapedPoly(c.Shape, c.T, target, rng)
	// the library's own dealer guarantees a_0 != 0 and a_t != 0 (dkg_feldmanvss.go: generateFrPolynomial); a polynomial without one of
	// them is dealt consistently but is not one an honest dealer produces: receivers may accept it or disqualify its dealer, as long
	// as they all do the same and the keys of those who accept are the images of the qualified vectors
	honestShape := poly.coef[0].Sign() != 0 && poly.coef[c.T].Sign() != 0
	sharePoly := relPoly(poly, c.Relation)
	byzantine := c.Relation != ""
	if byzantine {
		honestShape = false
	}
	// the real participants
	var real []int
	for i := 0; i < c.N; i++ {
		if i != c.Dealer && i != c.Silent {
			real = append(real, i)
		}
	}
	procs := map[int]*proc{}
	objs := map[int]crypto.DKGState{}
	for _, m := range real {
		procs[m] = &proc{me: m}
		var err error
		if c.Proto == "jf" {
			objs[m], err = crypto.NewJointFeldman(c.N, c.T, m, procs[m])
		} else {
			objs[m], err = crypto.NewFeldmanVSSQual(c.N, c.T, m, procs[m], c.Dealer)
		}
		if err != nil {
			add("C10", "Constructor", err.Error())
			return
		}
		if err := objs[m].Start(seedFor(c.Seed, "refdeal", m)); err != nil {
			add("C10", "Start", err.Error())
			return
		}
	}
	if c.Shape == "own-root" {
		// a rushing dealer: it has seen the shares the real dealers sent to it and deals a polynomial whose value at its own point
		// is minus their sum; the summed share of its own index is zero, its public key share the identity key
		sum := new(big.Int)
		for _, m := range real {
			for _, e := range procs[m].emis {
				if !e.bcast && e.dest == c.Dealer && len(e.data) == 33 {
					sum.Add(sum, new(big.Int).SetBytes(e.data[1:]))
				}
			}
		}
		x := big.NewInt(int64(c.Dealer + 1))
		rest := new(big.Int)
		for k := c.T; k >= 1; k-- { // Horner over a_1..a_t, times x
			rest.Add(rest, poly.coef[k])
			rest.Mul(rest, x)
			rest.Mod(rest, ref.R)
		}
		poly.coef[0] = new(big.Int).Mod(new(big.Int).Neg(new(big.Int).Add(sum, rest)), ref.R)
		honestShape = poly.coef[0].Sign() != 0
		sharePoly = poly
	}
	// does some real receiver get a zero share?  Then the dealing is not acceptable to it (a zero share is malformed): skip
	for _, m := range real {
		if sharePoly.eval(int64(m+1)).Sign() == 0 {
			return
		}
	}
	if c.Relation == "const-at-target" && (poly.coef[0].Sign() == 0 || poly.coef[0].Cmp(poly.eval(int64(target+1))) == 0) {
		return
	}
	if byzantine && c.Relation != "two-answers-before-vector" && c.Relation != "answer-complaint-vector" && c.Relation != "const-at-target" { // the shares must really be off the committed polynomial at every real receiver
		for _, m := range real {
			if sharePoly.eval(int64(m+1)).Cmp(poly.eval(int64(m+1))) == 0 {
				return
			}
		}
	}
	hand := func(to int, from int, bcast bool, data []byte) {
		buf := append([]byte(nil), data...)
		var err error
		if bcast {
			err = objs[to].HandleBroadcastMsg(from, buf)
		} else {
			err = objs[to].HandlePrivateMsg(from, buf)
		}
		if err != nil {
			add("C10", "HandlerError", fmt.Sprintf("participant %d handling a message of %d: %v", to, from, err))
		}
	}
	vectors := map[int][]byte{c.Dealer: poly.vectorMsg()} // dealer -> its broadcast vector
	if c.Relation == "garbage-after-identity" {
		// a malformed vector: A_0, the identity, then 96 bytes that are no point encoding (x >= p); every share is a_0, the constant
		// polynomial a reader that stops validating after the identity would see
		if c.T < 2 {
			return
		}
		v := []byte{1}
		v = append(v, g2Bytes(ref.G2Gen.Mul(poly.coef[0]))...)
		v = append(v, g2Bytes(ref.G2{Inf: true})...)
		for k := 2; k <= c.T; k++ {
			junk := bytes.Repeat([]byte{0xFF}, 96)
			junk[0] = 0x9F // compressed, not infinity, x far above p
			v = append(v, junk...)
		}
		vectors[c.Dealer] = v
		cst := make([]*big.Int, c.T+1)
		for i := range cst {
			cst[i] = new(big.Int)
		}
		cst[0] = new(big.Int).Set(poly.coef[0])
		sharePoly = refPoly{cst}
	}
	if c.Relation == "answer-complaint-vector" {
		sharePoly = poly
	}
	override := map[int]*big.Int{} // receiver -> the share (and answer) it gets instead of sharePoly's value
	if c.Relation == "const-at-target" {
		sharePoly = poly
		override[target] = new(big.Int).Set(poly.coef[0]) // a_0 instead of P(x): what an evaluation that loses its first Horner step yields
	}
	wrongAnswerTo := -1
	if c.Relation == "two-answers-before-vector" {
		// two receivers get a malformed share and complain; the dealer answers both BEFORE broadcasting its vector, one answer right,
		// one wrong; then the vector and the remaining (right) shares
		if len(real) < 3 {
			return
		}
		sharePoly = poly
		wrongAnswerTo = real[1]
	}
	shareOf := func(m int) []byte {
		if v, ok := override[m]; ok {
			return append([]byte{0}, scalar32(v)...)
		}
		return sharePoly.shareMsg(m)
	}
	// the real participants' own dealing (Joint-Feldman) and whatever else they emit; the reference dealer answers complaints
	// against it correctly (there should be none)
	realShares := map[int]map[int][]byte{} // dealer -> receiver -> private message
	flush := func() {
		for round := 0; round < 4; round++ {
			moved := false
			for _, s := range real {
				em, _ := procs[s].take()
				for _, e := range em {
					moved = true
					if e.bcast && len(e.data) > 0 && e.data[0] == 1 {
						vectors[s] = e.data
					}
					if !e.bcast {
						if realShares[s] == nil {
							realShares[s] = map[int][]byte{}
						}
						realShares[s][e.dest] = e.data
					}
					if e.bcast && len(e.data) == 2 && e.data[0] == 2 && int(e.data[1]) == c.Dealer {
						if honestShape {
							add("C08", "HonestDealerQualified", fmt.Sprintf("participant %d complains against the protocol-following reference dealer", s))
						}
						for _, r := range real {
							if r != s {
								hand(r, s, true, e.data)
							}
						}
						ans := sharePoly.answerMsg(s)
						if v, ok := override[s]; ok {
							ans = append([]byte{3, byte(s)}, scalar32(v)...)
						}
						if s == wrongAnswerTo { // a well-formed scalar that is not the share
							ans = append([]byte{3, byte(s)}, scalar32(new(big.Int).Mod(new(big.Int).Add(sharePoly.eval(int64(s+1)), big.NewInt(1)), ref.R))...)
						}
						for _, r := range real {
							hand(r, c.Dealer, true, ans)
						}
						continue
					}
					for _, r := range real {
						if r == s {
							continue
						}
						if e.bcast {
							hand(r, s, true, e.data)
						} else if e.dest == r {
							hand(r, s, false, e.data)
						}
					}
				}
			}
			if !moved {
				return
			}
		}
	}
	if c.Relation == "answer-complaint-vector" {
		// one receiver gets a malformed share and complains; every OTHER receiver sees the dealer's (wrong) answer to that complaint
		// first, then the complaint, then the vector: an answer stored before its complaint, checked when the vector arrives
		if len(real) < 2 {
			return
		}
		p1 := real[0]
		hand(p1, c.Dealer, false, append([]byte{0}, make([]byte, 31)...))
		em, _ := procs[p1].take()
		var complaint []byte
		for _, e := range em {
			if e.bcast && len(e.data) == 2 && e.data[0] == 2 {
				complaint = e.data
			}
		}
		if complaint == nil {
			add("C08", "BadDealerDisqualified", fmt.Sprintf("participant %d does not complain about a malformed share", p1))
			return
		}
		wrong := append([]byte{3, byte(p1)}, scalar32(new(big.Int).Mod(new(big.Int).Add(poly.eval(int64(p1+1)), big.NewInt(1)), ref.R))...)
		for _, o := range real[1:] {
			hand(o, c.Dealer, true, wrong)
			hand(o, p1, true, complaint)
			hand(o, c.Dealer, true, vectors[c.Dealer])
			hand(o, c.Dealer, false, poly.shareMsg(o))
		}
		hand(p1, c.Dealer, true, wrong)
		hand(p1, c.Dealer, true, vectors[c.Dealer])
	} else if c.Relation == "two-answers-before-vector" {
		for _, m := range real[:2] {
			hand(m, c.Dealer, false, append([]byte{0}, make([]byte, 31)...)) // a share of the wrong length
		}
		flush() // the two complaints go round, the dealer answers them (one answer wrong), all before its vector
		for _, m := range real {
			hand(m, c.Dealer, true, vectors[c.Dealer])
		}
		for _, m := range real[2:] {
			hand(m, c.Dealer, false, shareOf(m))
		}
	} else {
		// the reference dealer's messages, in the chosen order
		for k, m := range real {
			first, second := true, false // vector first
			if c.Order == 1 || (c.Order == 2 && k%2 == 1) {
				first, second = false, true
			}
			if first {
				hand(m, c.Dealer, true, vectors[c.Dealer])
				hand(m, c.Dealer, false, shareOf(m))
			}
			if second {
				hand(m, c.Dealer, false, shareOf(m))
				hand(m, c.Dealer, true, vectors[c.Dealer])
			}
		}
	}
	flush()
	for k := 0; k < 2; k++ {
		for _, m := range real {
			if err := objs[m].NextTimeout(); err != nil {
				add("C10", "NextTimeout", err.Error())
			}
		}
		flush()
	}
	for _, m := range real {
		for _, cb := range procs[m].all {
			if cb[2].(int) == c.Dealer && honestShape {
				add("C08", "NoHonestBlamed", fmt.Sprintf("participant %d raised %v against the protocol-following reference dealer", m, cb))
			}
		}
	}
	// is the reference dealer disqualified (allowed only for a shape an honest dealer never produces)?  All receivers must agree.
	refDisq := map[int]bool{}
	for _, m := range real {
		for _, cb := range procs[m].all {
			if cb[0] == "disq" && cb[2].(int) == c.Dealer {
				refDisq[m] = true
			}
		}
	}
	for _, m := range real {
		if refDisq[m] != refDisq[real[0]] {
			add("C07", "Agreement", fmt.Sprintf("participants %d and %d disagree on the disqualification of dealer %d", real[0], m, c.Dealer))
		}
	}
	dealerOut := len(real) > 0 && refDisq[real[0]]
	if byzantine {
		missed := false
		for _, m := range real {
			if !refDisq[m] {
				missed = true
				add("C08", "BadDealerDisqualified", fmt.Sprintf("the dealer misbehaves (%s: vector, shares and answers do not belong to one polynomial), yet participant %d does not disqualify it", c.Relation, m))
			}
		}
		if missed && c.Relation == "garbage-after-identity" {
			// the vector is not even a list of points: there is nothing to compare keys with; who returns keys has accepted garbage
			for _, m := range real {
				if _, _, _, err := objs[m].End(); err == nil {
					add("C07", "KeysShape", fmt.Sprintf("participant %d returns keys computed from a malformed verification vector", m))
				}
			}
			return
		}
	}
	// expected keys by reference: the sum over all dealers of the images of their broadcast vectors
	dealers := []int{c.Dealer}
	if c.Proto == "jf" {
		dealers = nil
		for d := 0; d < c.N; d++ {
			if d != c.Silent && !(d == c.Dealer && dealerOut) {
				dealers = append(dealers, d)
			}
		}
	}
	if c.Proto == "qual" && dealerOut {
		// the single dealer is disqualified by everybody: every End() must fail with a DKG failure
		for _, m := range real {
			if _, _, _, err := objs[m].End(); err == nil || !crypto.IsDKGFailureError(err) {
				add("C07", "Agreement", fmt.Sprintf("the dealer is disqualified, yet End() of participant %d returned %v", m, err))
			}
		}
		return
	}
	parsed := map[int][]ref.G2{}
	for _, d := range dealers {
		v := vectors[d]
		if len(v) != 1+96*(c.T+1) {
			panic(fmt.Sprintf("dealer %d: no vector", d))
		}
		for k := 0; k <= c.T; k++ {
			pt, err := ref.G2Decompress(v[1+96*k:1+96*(k+1)], !g2Flow())
			if err != nil {
				panic(err)
			}
			parsed[d] = append(parsed[d], pt)
		}
	}
	expMemo := map[int64]ref.G2{}
	expectedPK := func(x int64) ref.G2 { // sum over dealers of Horner(vector_d, x) in G2
		if v, ok := expMemo[x]; ok {
			return v
		}
		sum := ref.G2{Inf: true}
		for _, d := range dealers {
			acc := ref.G2{Inf: true}
			for k := c.T; k >= 0; k-- {
				acc = acc.Mul(big.NewInt(x)).Add(parsed[d][k])
			}
			sum = sum.Add(acc)
		}
		expMemo[x] = sum
		return sum
	}
	// the REAL dealers, seen from a reference receiver: every share a real dealer sends is the image of the vector it broadcast
	if c.Order == 0 {
		for d, m := range realShares {
			for i, msg := range m {
				if len(msg) != 33 || msg[0] != 0 {
					add("C07", "DealerSharesMatchVector", fmt.Sprintf("real dealer %d sends participant %d a malformed share message", d, i))
					continue
				}
				acc := ref.G2{Inf: true}
				for k := c.T; k >= 0; k-- {
					acc = acc.Mul(big.NewInt(int64(i + 1))).Add(parsed[d][k])
				}
				res.Evals++
				if !ref.G2Gen.Mul(new(big.Int).SetBytes(msg[1:])).Equal(acc) {
					add("C07", "DealerSharesMatchVector", fmt.Sprintf("the share real dealer %d sends to participant %d is not the image of the vector it broadcast (reference arithmetic)", d, i))
				}
			}
		}
	}
	groupIsIdentity := expectedPK(0).Inf
	if c.Outcome != "" && !dealerOut && groupIsIdentity != (c.Outcome == "fail") {
		panic(fmt.Sprintf("harness: the reference group key contradicts the specification (identity: %v, prescribed outcome %s)", groupIsIdentity, c.Outcome))
	}
	if c.Outcome != "" && c.IdentityShare >= 0 && !expectedPK(int64(c.IdentityShare+1)).Inf {
		panic("harness: the specification prescribes an identity public key share that the reference arithmetic does not confirm")
	}
	id := ref.G1Inf.Compress()
	h := crypto.NewExpandMsgXOFKMAC128("verif-refdeal")
	for _, m := range real {
		sk, pk, pks, err := objs[m].End()
		res.Evals++
		if groupIsIdentity {
			if err == nil || !crypto.IsDKGFailureError(err) {
				add("C07", "Agreement", fmt.Sprintf("the group key is the identity: End() of participant %d must fail with a DKG failure, got %v", m, err))
			}
			continue
		}
		if err != nil {
			add("C08", "HonestDealerQualified", fmt.Sprintf("End() of participant %d failed although every dealer followed the protocol: %v", m, err))
			continue
		}
		if !bytes.Equal(pk.Encode(), g2Bytes(expectedPK(0))) {
			add("C07", "SameGroupKey", fmt.Sprintf("participant %d: the group key is not the sum of the constant terms of the broadcast vectors (reference arithmetic)", m))
		}
		if len(pks) != c.N {
			add("C07", "KeysShape", fmt.Sprintf("participant %d: %d public key shares", m, len(pks)))
			continue
		}
		for i := range pks {
			want := expectedPK(int64(i + 1))
			if !bytes.Equal(pks[i].Encode(), g2Bytes(want)) {
				add("C07", "SharesOnOnePolynomial", fmt.Sprintf("participant %d: public key share %d is not the image of the broadcast vectors at %d (reference arithmetic)", m, i, i+1))
				break
			}
			if want.Inf {
				// a public key share that is the identity key: it verifies nothing, whatever object it lives in (C01)
				if ok, err := pks[i].Verify(id, []byte("m"), h); ok || err != nil {
					add("C01", "AcceptanceSet", fmt.Sprintf("public key share %d returned by End() of participant %d is the identity key, yet Verify(identity signature) = (%v, %v)", i, m, ok, err))
				}
				if !pks[i].Equals(crypto.IdentityBLSPublicKey()) {
					add("C05", "ProducedObjectsRoundTrip", fmt.Sprintf("public key share %d (identity) is not Equal to the identity key", i))
				}
			}
		}
		// the private share: the sum of what each dealer sent (own dealing excluded from what the harness sees: compare through g2)
		if !ref.G2Gen.Mul(new(big.Int).SetBytes(sk.Encode())).Equal(expectedPK(int64(m + 1))) {
			add("C07", "PrivateMatchesPublicShare", fmt.Sprintf("participant %d: private share times the generator is not its public share (reference arithmetic)", m))
		}
		if c.Proto == "qual" && !byzantine && !bytes.Equal(sk.Encode(), scalar32(poly.eval(int64(m+1)))) {
			add("C07", "PrivateMatchesPublicShare", fmt.Sprintf("participant %d: the private share is not the share the dealer sent", m))
		}
	}
	return
}

// runCancel: Joint-Feldman with n = 3, t = 1: the real participant `me`, a rushing reference dealer that deals exactly the opposite
// of me's polynomial (interpolated from the two shares me sends out, vector points negated) and a silent third participant.
// The two qualified polynomials sum to zero: End() is accepted and fails with a DKG failure (identity group key) - and, like every
// accepted End, leaves the instance not running (C10).
func runCancel(c RefDealCase, res *RefDealResult, add func(prop, pred, d string)) {
	const n, t = 3, 1
	me := (c.Dealer + 1) % n
	silent := (c.Dealer + 2) % n
	p := &proc{me: me}
	st, err := crypto.NewJointFeldman(n, t, me, p)
	if err != nil {
		add("C10", "Constructor", err.Error())
		return
	}
	if err := st.Start(seedFor(c.Seed, "cancel", me)); err != nil {
		add("C10", "Start", err.Error())
		return
	}
	em, _ := p.take()
	var vec []byte
	shares := map[int]*big.Int{}
	for _, e := range em {
		if e.bcast && len(e.data) == 1+96*(t+1) && e.data[0] == 1 {
			vec = e.data
		}
		if !e.bcast && len(e.data) == 33 {
			shares[e.dest] = new(big.Int).SetBytes(e.data[1:])
		}
	}
	if vec == nil || len(shares) != 2 {
		add("C10", "Start", "the dealer did not emit a vector and two shares")
		return
	}
	// P(x) through (c.Dealer+1, y1), (silent+1, y2); its value at me+1
	x1, x2, x := big.NewInt(int64(c.Dealer+1)), big.NewInt(int64(silent+1)), big.NewInt(int64(me+1))
	y1, y2 := shares[c.Dealer], shares[silent]
	r := ref.R
	inv := func(a *big.Int) *big.Int { return new(big.Int).ModInverse(new(big.Int).Mod(a, r), r) }
	l1 := new(big.Int).Mul(new(big.Int).Sub(x, x2), inv(new(big.Int).Sub(x1, x2)))
	l2 := new(big.Int).Mul(new(big.Int).Sub(x, x1), inv(new(big.Int).Sub(x2, x1)))
	pm := new(big.Int).Add(new(big.Int).Mul(l1, y1), new(big.Int).Mul(l2, y2))
	pm.Mod(pm, r)
	opp := new(big.Int).Mod(new(big.Int).Neg(pm), r)
	if opp.Sign() == 0 {
		return
	}
	negVec := []byte{1}
	for k := 0; k <= t; k++ {
		pt, err := ref.G2Decompress(vec[1+96*k:1+96*(k+1)], !g2Flow())
		if err != nil {
			panic(err)
		}
		negVec = append(negVec, g2Bytes(pt.Neg())...)
	}
	if c.Order == 1 {
		st.HandlePrivateMsg(c.Dealer, append([]byte{0}, scalar32(opp)...))
		st.HandleBroadcastMsg(c.Dealer, negVec)
	} else {
		st.HandleBroadcastMsg(c.Dealer, negVec)
		st.HandlePrivateMsg(c.Dealer, append([]byte{0}, scalar32(opp)...))
	}
	st.NextTimeout()
	st.NextTimeout()
	_, _, _, err = st.End()
	res.Evals++
	if err == nil || !crypto.IsDKGFailureError(err) {
		add("C07", "Agreement", fmt.Sprintf("the qualified polynomials sum to zero: End() must fail with a DKG failure, got %v", err))
	}
	if st.Running() {
		add("C10", "EndRule", fmt.Sprintf("an accepted End() (result: %v) leaves the instance running", err))
	}
	if _, _, _, err2 := st.End(); err2 == nil || !crypto.IsDKGInvalidStateTransitionError(err2) {
		add("C10", "EndRule", fmt.Sprintf("a second End() after an accepted one returned %v, not a state-transition error", err2))
	}
	if err3 := st.HandleBroadcastMsg(c.Dealer, []byte{2, byte(me)}); err3 == nil || !crypto.IsDKGInvalidStateTransitionError(err3) {
		add("C10", "RefusedWhenNotRunning", fmt.Sprintf("a message handler after End() returned %v, not a state-transition error", err3))
	}
}
