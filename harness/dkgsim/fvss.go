package dkgsim

import (
	"fmt"
	"math/big"
	"math/rand"
	"sort"

	crypto "github.com/onflow/crypto"
)

// FVSSMsg mirrors Msg(ch, o, t, k, P) of specs/fvss/FVSS.tla
type FVSSMsg struct {
	Ch string `json:"ch"`
	O  string `json:"o"`
	T  string `json:"t"`
	K  string `json:"k"`
	P  string `json:"P"`
}

type FVSSCase struct {
	ID   string    `json:"id"`
	Hist []FVSSMsg `json:"hist"`
	Res  string    `json:"res"`
	Cbs  [][][]any `json:"cbs"`
	N    int       `json:"n"`
	T    int       `json:"t"`
	Seed int64     `json:"seed"`
}

type FVSSResult struct {
	ID         string      `json:"id"`
	Res        string      `json:"res"`
	Cbs        [][]string  `json:"cbs"`
	Violations []Violation `json:"violations"`
	Notes      []string    `json:"notes"`
	Case       FVSSCase    `json:"case"`
}

// plain Feldman VSS: dealer 0, the participant under test is 1, "other" is 2
func RunFVSS(c FVSSCase) FVSSResult {
	res := FVSSResult{ID: c.ID, Case: c, Violations: []Violation{}, Notes: []string{}}
	rng := rand.New(rand.NewSource(c.Seed))
	n, t := c.N, c.T
	const dealer, me, other = 0, 1, 2
	mkShadow := func(idx int, tag string) *shadowDeal {
		pr := &proc{me: idx}
		st, err := crypto.NewFeldmanVSS(n, t, idx, pr, idx)
		if err != nil {
			panic(err)
		}
		if err := st.Start(seedFor(c.Seed, tag, idx)); err != nil {
			panic(err)
		}
		sd := &shadowDeal{shares: map[int][]byte{}}
		em, _ := pr.take()
		for _, e := range em {
			if e.bcast {
				sd.vec = e.data
			} else {
				sd.shares[e.dest] = e.data
			}
		}
		return sd
	}
	shadows := map[string]*shadowDeal{}
	get := func(idx int, P string) *shadowDeal {
		k := fmt.Sprintf("%d/%s", idx, P)
		if _, ok := shadows[k]; !ok {
			shadows[k] = mkShadow(idx, "fvss"+P)
		}
		return shadows[k]
	}
	// PX: the constant polynomial a0; its commitment is g2^a0
	a0 := make([]byte, 32)
	rng.Read(a0)
	a0[0] &= 0x3f
	a0[31] |= 1
	skx, err := crypto.DecodePrivateKey(crypto.BLSBLS12381, a0)
	if err != nil {
		panic(err)
	}
	A0 := skx.PublicKey().Encode()

	pr := &proc{me: me}
	st, err := crypto.NewFeldmanVSS(n, t, me, pr, dealer)
	if err != nil {
		panic(err)
	}
	panicked := func(what string, f func()) {
		defer func() {
			if r := recover(); r != nil {
				res.Violations = append(res.Violations, Violation{"C09", "NoPanic", fmt.Sprintf("%s: panic: %v", what, r)})
			}
		}()
		f()
	}
	if err := st.Start(seedFor(c.Seed, "me", me)); err != nil {
		panic(err)
	}
	badPoint := func(dst []byte) {
		switch rng.Intn(4) {
		case 0: // compression flag missing
			for i := range dst {
				dst[i] = 0
			}
		case 1: // x >= p
			for i := range dst {
				dst[i] = 0xff
			}
			dst[0] = 0x9f
		case 2: // infinity flag with a non-zero coordinate
			for i := range dst {
				dst[i] = 0
			}
			dst[0] = 0xc0
			dst[1+rng.Intn(94)] = 1
		default: // a random x coordinate: not on the curve, or on the curve outside G2
			rng.Read(dst)
			dst[0] = 0x80 | (dst[0] & 0x0f)
		}
	}
	for i, m := range c.Hist {
		orig := dealer
		if m.O == "other" {
			orig = other
		}
		var data []byte
		switch m.T {
		case "vec":
			v := append([]byte(nil), get(orig, map[bool]string{true: m.P, false: "P1"}[m.P == "P1" || m.P == "P2"]).vec...)
			if m.P == "PZ" {
				// P(X) = a0 + a1 X with P(me+1) = 0, higher coefficients zero (identity points): a1 = -a0 / (me+1) mod r
				rr := new(big.Int).SetBytes(frOrder)
				a0i := new(big.Int).SetBytes(a0)
				inv := new(big.Int).ModInverse(big.NewInt(me+1), rr)
				a1 := new(big.Int).Mul(a0i, inv)
				a1.Neg(a1).Mod(a1, rr)
				a1b := make([]byte, 32)
				a1.FillBytes(a1b)
				sk1, err := crypto.DecodePrivateKey(crypto.BLSBLS12381, a1b)
				if err != nil {
					panic(err)
				}
				copy(v[1:97], A0)
				copy(v[97:193], sk1.PublicKey().Encode())
				for k := 2; k <= t; k++ {
					for i := range v[1+96*k : 1+96*(k+1)] {
						v[1+96*k+i] = 0
					}
					v[1+96*k] = 0xc0
				}
			}
			switch m.K {
			case "ok":
			case "badsize":
				switch rng.Intn(3) {
				case 0:
					v = v[:len(v)-1-rng.Intn(96)]
				case 1:
					v = append(v, make([]byte, 1+rng.Intn(96))...)
				default:
					v = v[:1]
				}
			case "badpoint": // valid commitment of the constant polynomial PX, then a point that does not decode
				copy(v[1:97], A0)
				for k := 1; k <= t; k++ {
					badPoint(v[1+96*k : 1+96*(k+1)])
				}
			case "notG2": // some point replaced by an x whose point (if any) is outside G2
				k := rng.Intn(t + 1)
				v[1+96*k+1+rng.Intn(95)] ^= 1 << uint(rng.Intn(8))
			}
			data = v
		case "junk":
			if m.K == "empty" {
				data = []byte{}
			} else {
				data = append([]byte{byte(2 + rng.Intn(250))}, get(orig, "P1").vec[1:]...)
				if rng.Intn(2) == 0 {
					data = append([]byte{0}, make([]byte, 32)...)
				}
			}
		case "share":
			switch {
			case m.K == "ok" && m.P == "PX":
				data = append([]byte{0}, a0...)
			case m.K == "ok":
				data = get(orig, m.P).shares[me]
			default:
				good := get(orig, "P1").shares[me]
				switch rng.Intn(6) {
				case 0:
					data = []byte{}
				case 1:
					data = []byte{0}
				case 2:
					data = append([]byte{byte(1 + rng.Intn(250))}, good[1:]...)
				case 3:
					data = good[:len(good)-1]
				case 4:
					data = append(append([]byte(nil), good...), 0)
				default:
					data = append([]byte{0}, []byte(frOrder)...)
					if rng.Intn(2) == 0 {
						data = append([]byte{0}, make([]byte, 32)...)
					}
				}
			}
		}
		var herr error
		panicked(fmt.Sprintf("step %d %s/%s/%s", i, m.Ch, m.T, m.K), func() {
			if m.Ch == "b" {
				herr = st.HandleBroadcastMsg(orig, data)
			} else {
				herr = st.HandlePrivateMsg(orig, data)
			}
		})
		if herr != nil {
			res.Violations = append(res.Violations, Violation{"C10", "HandlerAcceptsWhileRunning", herr.Error()})
		}
		_, cbs := pr.take()
		var step []string
		for _, cb := range cbs {
			who := "dealer"
			if cb[2].(int) != dealer {
				who = "other"
			}
			step = append(step, cb[0].(string)+":"+who)
		}
		sort.Strings(step)
		if step == nil {
			step = []string{}
		}
		res.Cbs = append(res.Cbs, step)
		var want []string
		if i < len(c.Cbs) {
			for _, w := range c.Cbs[i] {
				want = append(want, fmt.Sprint(w[0])+":"+fmt.Sprint(w[1]))
			}
		}
		sort.Strings(want)
		if fmt.Sprint(want) != fmt.Sprint([]string(step)) && !(len(want) == 0 && len(step) == 0) {
			res.Notes = append(res.Notes, fmt.Sprintf("step %d: callbacks %v, model %v", i, step, want))
		}
	}
	var eerr error
	var sk crypto.PrivateKey
	var pk crypto.PublicKey
	var pks []crypto.PublicKey
	panicked("End", func() { sk, pk, pks, eerr = st.End() })
	switch {
	case eerr == nil:
		res.Res = "keys"
	case crypto.IsDKGFailureError(eerr):
		res.Res = "fail"
	default:
		res.Res = "error"
		res.Violations = append(res.Violations, Violation{"C10", "EndWhileRunning", fmt.Sprint(eerr)})
	}
	if len(res.Violations) > 0 && res.Res == "" {
		res.Res = "panic"
	}
	// the property, from the history alone
	var fv, fs *FVSSMsg
	for i := range c.Hist {
		m := &c.Hist[i]
		if m.O != "dealer" {
			continue
		}
		if m.Ch == "b" && m.T == "vec" && fv == nil {
			fv = m
		}
		if m.Ch == "p" && fs == nil {
			fs = m
		}
	}
	good := fv != nil && fs != nil && fv.K == "ok" && fs.T == "share" && fs.K == "ok" && fs.P == fv.P
	if res.Res == "keys" && !good {
		res.Violations = append(res.Violations, Violation{"C08", "FVSSNeverKeysOnBadDeal",
			fmt.Sprintf("End returned keys after history %v", c.Hist)})
	}
	if res.Res == "fail" && good {
		res.Violations = append(res.Violations, Violation{"C08", "FVSSHonestDealAccepted",
			fmt.Sprintf("End failed although the dealer dealt correctly: history %v", c.Hist)})
	}
	if res.Res == "keys" && good {
		// the keys are those of the vector: own public share matches, group key is A0 of the accepted vector
		if sk == nil || pk == nil || len(pks) != n || !sk.PublicKey().Equals(pks[me]) {
			res.Violations = append(res.Violations, Violation{"C07", "PrivateMatchesPublicShare", "plain FVSS: sk.PublicKey() != pks[me]"})
		} else if string(pk.Encode()) != string(get(dealer, fv.P).vec[1:97]) {
			res.Violations = append(res.Violations, Violation{"C07", "SameGroupKey", "plain FVSS: group key is not the first point of the accepted vector"})
		}
	}
	if res.Res != c.Res && res.Res != "panic" {
		res.Notes = append(res.Notes, fmt.Sprintf("End class %s, model %s", res.Res, c.Res))
	}
	return res
}
