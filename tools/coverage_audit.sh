#!/bin/sh
# usage: coverage_audit.sh [ids...]: runs the quick checks with TLC's -coverage 1 (audit mode of vlib.tlc) and prints, per specification
# module, the expressions that NO configuration of the run ever evaluated (candidates for vacuity).  Evidence goes to a scratch directory.
IDS=${@:-C01 C02 C03 C04 C05 C06 C07 C08 C09 C10 C11 C12 C13 C14 C15 C16 C17 C18 C19 C20}
cd "$(dirname "$0")/.."
R=$(mktemp /tmp/verif-cov.XXXXXX)
for id in $IDS; do
  VERIF_TLC_COVERAGE=$R VERIF_EVIDENCE_DIR=/tmp/ev-cov timeout 7200 bin/check $id --tier quick >/dev/null 2>&1
  echo "$id exit=$?" >&2
done
python3 tools/coverage_summary.py $R
rm -f $R
