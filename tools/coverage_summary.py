"""Summarise an audit-mode coverage report (vlib.tlc with VERIF_TLC_COVERAGE): per module, the locations with count 0 in EVERY run."""
import re, sys, collections
runs = collections.defaultdict(list)       # module -> list of sets of zero locations
cur = None
for line in open(sys.argv[1]):
    if line.startswith('## '):
        mod = line.split()[1].replace('MC_', '')
        cur = set()
        runs[mod].append(cur)
    elif cur is not None:
        m = re.search(r'(line \d+, col \d+ to line \d+, col \d+ of module \w+)', line)
        if m:
            cur.add(m.group(1))
        elif '(no coverage section)' in line:
            cur.add('(no coverage section)')
for mod, sets in sorted(runs.items()):
    sets = [s for s in sets if '(no coverage section)' not in s] or sets
    never = set.intersection(*sets) if sets else set()
    never = {l for l in never if l.endswith('of module ' + mod) or 'no coverage' in l}
    print('%s: %d runs, %d locations never evaluated in any run' % (mod, len(sets), len(never)))
    def key(l):
        m = re.search(r'line (\d+), col (\d+)', l)
        return (int(m.group(1)), int(m.group(2))) if m else (0, 0)
    for l in sorted(never, key=key):
        print('    ' + l)
