#!/bin/bash
# usage: seed_batch.sh <parallel> <seed> [<seed> ...]   -- runs tools/run_seed.sh for each seed (property from meta.json / id), N at a time
N=$1; shift
cd "$(dirname "$0")/.."
for s in "$@"; do
  while [ $(jobs -r | wc -l) -ge $N ]; do sleep 3; done
  tools/run_seed.sh $s &
done
wait
echo BATCH DONE
