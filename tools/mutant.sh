#!/bin/sh
# usage: mutant.sh <patch.diff> <command...>
# runs the command with VERIF_REPO pointing at a scratch worktree of /repo HEAD with the patch applied; removes the worktree afterwards.
P=$(readlink -f "$1"); shift
W=$(mktemp -d /tmp/mut.XXXXXX)
git -C /repo worktree add --detach -f "$W" HEAD >/dev/null 2>&1 || { echo "worktree failed"; exit 2; }
( cd "$W" && git apply "$P" ) || { echo "patch does not apply"; git -C /repo worktree remove --force "$W"; exit 2; }
cd /verif
VERIF_REPO="$W" VERIF_EVIDENCE_DIR="${VERIF_EVIDENCE_DIR:-$W.evidence}" "$@"
rc=$?
git -C /repo worktree remove --force "$W"
rm -rf "$W" "$W.evidence"
exit $rc
