#!/bin/sh
# usage: confirm_seed.sh <dir with patch.diff demo_test.go> -> prints CONFIRM lines
# Confirms independently: patch applies, package builds, the unedited suite passes with it,
# the demonstration fails with it and passes without it.  Uses its own scratch worktree, removed afterwards.
D=$(readlink -f "$1")
export GOFLAGS=-mod=mod GOPROXY=off GOSUMDB=off GOTOOLCHAIN=local
W=$(mktemp -d /tmp/confirm.XXXXXX)
git -C /repo worktree add --detach -f "$W" HEAD >/dev/null 2>&1 || { echo "CONFIRM $D worktree=FAIL"; exit 2; }
cd "$W"
cp "$D/demo_test.go" ./zz_seeded_demo_test.go
go1.26 test -vet=off -count=1 -run TestSeededDemo . >/tmp/confirm.$$.clean 2>&1; clean=$?
git apply "$D/patch.diff" || { echo "CONFIRM $D apply=FAIL"; cd /; git -C /repo worktree remove --force "$W"; exit 2; }
go1.26 test -vet=off -count=1 -run TestSeededDemo . >/tmp/confirm.$$.mut 2>&1; mut=$?
rm zz_seeded_demo_test.go
go1.26 test -vet=off -count=1 ./... >/tmp/confirm.$$.suite 2>&1; suite=$?
echo "CONFIRM $D demo_on_clean_exit=$clean demo_with_change_exit=$mut suite_with_change_exit=$suite"
cd /; git -C /repo worktree remove --force "$W"; rm -rf "$W" /tmp/confirm.$$.*
