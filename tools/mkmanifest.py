#!/usr/bin/env python3
"""Regenerates MANIFEST.json from the table below (claimed checks) and properties.jsonl (everything else -> not_applicable)."""
import json, os
V = os.path.dirname(os.path.dirname(os.path.abspath(__file__)))
props = [json.loads(l)['id'] for l in open(os.path.join(V, 'properties.jsonl'))]

CLAIMS = {
 'C07': dict(level='model_checking', design='5 C07, 4.1',
   technique='TLC exhaustive model checking of the DKG network spec (DKGNet.tla) + TLC-simulated and randomised behaviours replayed on the real objects + TLC trace validation of the real logs (DKGTrace.tla)',
   text='Exhaustive TLC exploration of a round-synchronous network of Feldman-VSS-Qual / Joint-Feldman participants (every delivery order, Byzantine scripts within a budget) checks Agreement and KeysConsistent on the specification; the specification is bound to the code by replaying TLC behaviours and seeded randomised Byzantine runs on real DKG objects, judging agreement / key consistency on the real End() outputs, and validating every real log against the specification with TLC.',
   note='Bounded: n=3 exhaustively (n=4 thorough), n<=7 sampled; Byzantine grammar and round-synchrony as modelled; field arithmetic abstracted by polynomial names, concretised through real dealer objects; threshold API used as the degree-t consistency oracle.'),
 'C08': dict(level='model_checking', design='5 C08, 4.1',
   technique='TLC exhaustive model checking (DKGNet.tla, FVSS.tla) + replay of TLC-enumerated histories and randomised Byzantine runs on the real objects + TLC trace validation',
   text='NoHonestBlamed, HonestDealerQualified, BadDealerDisqualified (with an oracle computed from the message history only) are checked by TLC on the network specification, and FVSS.tla enumerates every delivery history of plain Feldman VSS; all enumerated histories and thousands of network behaviours are executed on the real objects where the same predicates are evaluated on the real callbacks and End() classes.',
   note='Same bounds and abstractions as C07; flags against Byzantine participants are not judged; "on-curve outside G2" vectors are drawn by coordinate corruption.'),

 'C10': dict(level='model_checking', design='5 C10, 4.1',
   technique='TLC enumeration of all API call sequences of the DKG state-machine spec (DKGApi.tla), each replayed on a real instance with the prescribed result classes; metamorphic non-interference replay',
   text='DKGApi.tla states the documented state machine (phase, timeouts taken, handler bodies of DKGNode.tla) and TLC checks its rules as invariants while enumerating every call sequence up to a length bound behind forced prefixes; every sequence is executed on a real instance of each protocol and role, the class of every call and Running() must be the prescribed ones, and the sequence with its rejected calls removed must be observationally identical.',
   note='n=3, t=1, reduced alphabet of 17 calls, exhaustive to length 3 (4 thorough) behind 5 forced prefixes, longer sequences sampled; reuse after End excluded as the property says.'),
}

checks = []
for pid in props:
    if pid not in CLAIMS:
        continue
    c = CLAIMS[pid]
    checks.append({
        'property_id': pid,
        'quick_cmd': 'bin/check %s --tier quick' % pid,
        'thorough_cmd': 'bin/check %s --tier thorough' % pid,
        'evidence_file': 'evidence/%s.json' % pid,
        'replay_cmd_template': 'bin/check %s --replay {path}' % pid,
        'engine': 'tlc+vh',
        'level_claimed': {'category': c['level'], 'text': c['text'], 'design_ref': 'DESIGN.md section ' + c['design']},
        'level_note': c['note'],
        'technique': c['technique'],
    })
NA_REASON = 'check not built yet (construction in progress, see DESIGN.md section 8)'
m = {
 'version': 1,
 'setup_cmd': 'tools/setup.sh',
 'hooks': {'guard': 'verif', 'enable': 'go build -tags verif (harness built by tools/vlib.py build_vh against /repo working tree)',
           'baseline_off_cmd': 'cd /repo && GOFLAGS=-mod=mod GOPROXY=off GOSUMDB=off GOTOOLCHAIN=local go1.26 test -json -vet=off -count=1 -timeout 25m ./...',
           'source_commits': json.load(open(os.path.join(V, 'hooks.json')))['source_commits'] if os.path.exists(os.path.join(V, 'hooks.json')) else [],
           'add_only': True},
 'engines': [
   {'name': 'tlc', 'path': 'specs/', 'serves_properties': sorted(CLAIMS), 'kind_free_text': 'TLA+ specifications checked with TLC 1.8.0 (exhaustive, simulation, trace validation)'},
   {'name': 'vh', 'path': 'harness/', 'serves_properties': sorted(CLAIMS), 'kind_free_text': 'Go conformance harness executing specification behaviours on onflow/crypto and recording real traces'},
 ],
 'checks': checks,
 'notes': 'bin/check <ID> --tier quick|thorough; exit 0 held / 1 VIOLATION / 2 undecided. See DESIGN.md.',
 'not_applicable': [{'property_id': p, 'reason': NA_REASON} for p in props if p not in CLAIMS],
}
json.dump(m, open(os.path.join(V, 'MANIFEST.json'), 'w'), indent=1)
print('claimed', len(checks), 'not_applicable', len(m['not_applicable']))
