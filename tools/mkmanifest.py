#!/usr/bin/env python3
"""Regenerates MANIFEST.json from the table below (claimed checks) and properties.jsonl (everything else -> not_applicable)."""
import json, os
V = os.path.dirname(os.path.dirname(os.path.abspath(__file__)))
props = [json.loads(l)['id'] for l in open(os.path.join(V, 'properties.jsonl'))]

CLAIMS = {
 'C07': dict(level='model_checking', design='5 C07, 4.1',
   technique='TLC exhaustive model checking of the DKG network spec (DKGNet.tla) + TLC-simulated and randomised behaviours replayed on the real objects + TLC trace validation of the real logs (DKGTrace.tla)',
   text='Exhaustive TLC exploration of a round-synchronous network of Feldman-VSS-Qual / Joint-Feldman participants (every delivery order, Byzantine scripts within a budget) checks Agreement and KeysConsistent on the specification; the specification is bound to the code by replaying TLC behaviours and seeded randomised Byzantine runs on real DKG objects, judging agreement / key consistency on the real End() outputs, and validating every real log against the specification with TLC. A protocol-following dealer implemented in reference arithmetic deals shaped polynomials (RefDealing.tla) to real receivers, whose keys are compared with reference Horner evaluation of the broadcast vectors; all-honest runs at the edges of the size / threshold ranges (n = 254, t = n-1, n = 2).',
   note='Bounded: n=3 exhaustively (n=4 thorough), n<=7 sampled; Byzantine grammar and round-synchrony as modelled; field arithmetic abstracted by polynomial names, concretised through real dealer objects; threshold API used as the degree-t consistency oracle on every successful run, reference G2 arithmetic (shares on one degree-t polynomial, private share x generator) on one in four.'),
 'C08': dict(level='model_checking', design='5 C08, 4.1',
   technique='TLC exhaustive model checking (DKGNet.tla, FVSS.tla) + replay of TLC-enumerated histories and randomised Byzantine runs on the real objects + TLC trace validation',
   text='NoHonestBlamed, HonestDealerQualified, BadDealerDisqualified (with an oracle computed from the message history only) are checked by TLC on the network specification, and FVSS.tla enumerates every delivery history of plain Feldman VSS; all enumerated histories and thousands of network behaviours are executed on the real objects where the same predicates are evaluated on the real callbacks and End() classes; the reference dealer of RefDealing.tla (shaped polynomials, protocol-following) must never be complained about, flagged or disqualified.',
   note='Same bounds and abstractions as C07; flags against Byzantine participants are not judged; "on-curve outside G2" vectors are drawn by coordinate corruption.'),

 'C10': dict(level='model_checking', design='5 C10, 4.1',
   technique='TLC enumeration of all API call sequences of the DKG state-machine spec (DKGApi.tla), each replayed on a real instance with the prescribed result classes; metamorphic non-interference replays (rejected calls removed, repeated hundreds of times, inserted at every position); TLC refinement of an abstract life cycle whose invariant is proved with TLAPS for call sequences of every length',
   text='DKGApi.tla states the documented state machine (phase, timeouts taken, handler bodies of DKGNode.tla) and TLC checks its rules as invariants while enumerating every call sequence up to a length bound behind forced prefixes; every sequence is executed on a real instance of each protocol and role, the class of every call and Running() must be the prescribed ones, and the sequence with its rejected calls removed, with every rejected call repeated 253..258 times in place, and with refused calls inserted at every position must be observationally identical on the accepted calls; every step of the model is a step of DKGLifeAbs.tla (RefinesLife), whose invariant is inductive (DKGLifeProof.tla, TLAPS); End on runs whose group key is the identity (reference dealer with a zero constant term, or cancelling the polynomial of the real participant) must fail and leave the instance not running.',
   note='n=3, t=1, reduced alphabet of 21 calls (incl. Start with a short seed), exhaustive to length 3 (4 thorough) behind 7 forced prefixes, longer sequences sampled; reuse after End excluded as the property says.'),

 'C01': dict(level='model_checking', design='5 C01, 4.5',
   technique='TLC check of the staged Verify pipeline against its definition over the symbolic pairing algebra (BLSVerify.tla) + every enumerated class concretised with reference arithmetic and executed on the real Verify/Sign',
   text='The acceptance set of Verify is decided on the model (procedure = definition for every key form x hasher x signature class, negative control: membership check dropped) and every terminal class combination is built with independent curve arithmetic from the REFERENCE hash point (own KMAC128 expander + RFC 9380 SSWU / isogeny / cofactor clearing in math/big, which the signature the library makes under sk = 1 must equal) and run on the real code under every key-object origin, the model verdict being the oracle; plus all single-bit flips, lengths 0..200 and crafted expander outputs at the edges of hash_to_field / the SSWU map.',
   note='Classes are structured, not all 2^384 strings; the pairing itself has no independent reference (equalities hold or fail by construction of the inputs); the isogeny coefficient table is extracted from the vendored BLST source and validated by on-curve / additivity checks and the RFC 9380 vectors.'),
 'C02': dict(level='model_checking', design='5 C02, 4.5',
   technique='TLC check of both groupings with their Go/C bookkeeping, for every input list and every map iteration order, against the pairing-product definition (BLSAggVerify.tla) + every enumerated input executed on the real functions',
   text='BLSAggVerify.tla models the two maps, the grouping choice, the flattening and the offset-driven C loops and checks verdict = definition for all lists up to the bound, all signature classes and all iteration orders; each case is concretised (distinct objects of equal points, cancelling keys, identity) and run on the real VerifyBLSSignatureManyMessages / OneMessage in two orders.',
   note='Lists up to length 3 (4 thorough) exhaustively, 7..33 groups sampled; H(m) from the reference hash-to-curve.'),
 'C03': dict(level='model_checking', design='5 C03, 4.5',
   technique='TLC check of pre-marking, tree build/walk and result merge against per-index verification for every class assignment (BLSBatch.tla, negative controls: constant coefficients, wrong split) + replay on the real batch verification',
   text='Every assignment of 9 entry classes to n<=5 positions (6 classes to n<=7 thorough) is checked on the model and executed on the real code with concretised cancelling pairs / swaps / rotations, identity keys, malformed, short and non-G1 signatures; each batch is compared with the model and with per-index real Verify.',
   note='Internal randomness sampled (2 runs per batch); false alarm needs a 2^-128 coincidence.'),
 'C04': dict(level='model_checking', design='5 C04, 4.5',
   technique='TLC enumeration of key multisets / cuts with the homomorphism laws checked in the symbolic algebra (BLSAggregation.tla) + real aggregation functions compared with reference group arithmetic',
   text='Every sequence of base keys (with duplicates and inverses) and every cut is enumerated; the real aggregate keys, signatures, removals, nestings and permutations are compared byte-for-byte with reference G1/G2 arithmetic on the concrete scalars, including identity cases and typed errors.',
   note='Sequences up to length 4 (5 thorough); one message per case.'),
 'C05': dict(level='model_checking', design='5 C05, 4.5',
   technique='TLC check of each decoder as a staged decision tree against the canonical acceptance set (Serialization.tla) + every class concretised with reference encoders and run through the real decoders and encoders',
   text='Acceptance = canonical encodings only is checked on the model for every (decoder, length, flag bits, coordinate/scalar class) and on the real decoders with re-encoding, plus every single-bit flip / prefix byte of valid encodings judged by reference decompression and subgroup tests, and signature strings inside lists (compensating lengths, one bad entry at each position) in aggregation, batch verification and reconstruction; the G2 coefficient-order deviation from the cited ZCash format is a known finding.',
   note='Known finding C05:bls-g2:fp2-order (open, cannot be repaired without editing pinned tests).'),
 'C06': dict(level='model_checking', design='5 C06, 4.2',
   technique='TLC check of the transcribed Lagrange computation (limb batching, sign tracking) over F_257 for every enumerated index sequence (ThresholdMath.tla) and of the object invariants (ThresholdSigSeq.tla) + replay against reference interpolation in E1',
   text='The batching/sign logic is proved to interpolate every polynomial for all ordered subsets (n<=5/6) and structured long sequences; each sequence is run through real keygen, stateless and stateful reconstruction and compared with reference interpolation and group-key verification; all operation sequences on the object are replayed with prescribed return classes.',
   note='Field arithmetic reached only through replays; exhaustive for small n, structured beyond.'),
 'C13': dict(level='model_checking', design='5 C13, 4.4',
   technique='TLC check of the sponge write loop invariants for every write length and of hasher stream semantics (Hasher.tla), KMAC bytepad lengths (KmacPad.tla), the write loop step by step (SpongeLoop.tla) with TLAPS proofs of its invariant and termination for every rate and of the bytepad formula for every length + histories and complete length/split sweeps replayed against independent references',
   text='Buffer invariants hold for every length 0..2*rate+1 at the real rates; every enumerated operation history is replayed on the real hashers of its class and compared with stdlib / SP 800-185 references; all lengths 0..4*rate x all 2-splits, fresh objects, dirty ComputeHash, one-shot helpers, KMAC key/customizer/output grids incl. block-boundary keys, keys around 8192 and 2 MiB bytes and outputs of 8192 bytes (longer length headers); long simulated behaviours on one object; misuse steps on finalised sponges followed by Reset / ComputeHash.',
   note='Keccak-f itself is trusted to the reference comparison; sponge objects not written after SumHash without Reset.'),
 'C14': dict(level='model_checking', design='5 C14, 4.3',
   technique='TLC enumeration of read / store-restore behaviours of the PRG stream machine with SameStream / RestoreResumes invariants (ChaChaPRG.tla), TLAPS proof of its position arithmetic for reads of every size + replay against an independent RFC 8439 keystream',
   text='All sequences over boundary read sizes, every store offset 0..200 (321 thorough) crafted states around 2^32 bytes and inside the last blocks of the stream are enumerated with the prescribed keystream intervals and replayed on the real PRG with random seeds / customizers; derived UintN / permutation outputs are compared after restore; long simulated behaviours with up to four generators.',
   note='Seeds and customizers sampled; reads that would run beyond the end of the 2^38-byte stream are outside the model.'),
 'C15': dict(level='model_checking', design='5 C15, 4.3',
   technique='TLC counting proof of one-attempt uniformity and Fisher-Yates bijections (Sampling.tla) + the real helpers run on every one-attempt tape through the hook random.NewVerifRand with preimage counting',
   text='Exact uniformity is a counting statement checked by TLC for n<=64 (256 thorough) and measured on the real UintN for every n<=4096 (65536 thorough) over all chunks; permutations/samples: every draw sequence for populations <=5 (7) compared with the model outcome; algorithm-agnostic exact counting of outcomes over the trie of source bytes (depth 2 / 3) and a validity grid over (n, m) up to n = 4096.',
   note='Uniformity in the source bytes; larger n by structured and sampled tapes; exact counting covers samplers that finish within 2 (3) source bytes.'),
 'C16': dict(level='model_checking', design='5 C16, 4.5',
   technique='TLC check of PoP soundness in the algebra and of KMAC key-string separation for every tag over a fragment alphabet (PoP.tla) + replay with an independently rebuilt PoP hasher',
   text='No application tag built from suite fragments makes the signature key equal the PoP key; every (key, candidate) class and every crafted tag is executed on BLSGeneratePOP / BLSVerifyPOP / Verify.',
   note='Tags up to 3 (4) fragments plus long/binary ones.'),
 'C17': dict(level='model_checking', design='5 C17, 4.5',
   technique='TLC check of the staged SPOCKVerify against the bilinear definition for all class combinations, swap symmetry (SPoCK.tla) + replay on the real functions',
   text='All 1600 (key form, proof class)^2 combinations are decided on the model (negative control: second membership check dropped) and executed on the real SPOCKVerify in both orders; Prove/VerifyAgainstData compared with Sign/Verify.',
   note='H(m) from the reference hash-to-curve.'),
 'C18': dict(level='model_checking', design='5 C18, 4.2',
   technique='TLC linearisability checking of recorded concurrent histories of the real object against the sequential specification (ThresholdSigLin.tla), plus TLC check of the object invariants (ThresholdSigSeq.tla) and their refinement of an abstract share pool whose invariant is proved inductive by Apalache for every group size up to 12 and by TLAPS for all N, T (ThresholdSigAbs/Ind/Proof.tla)',
   text='Goroutines hammer one real inspector/participant; invocations and responses are stamped with one atomic counter; TLC searches a linearisation for every history (rejection = violation); a corrupted history must be rejected (negative control). The sequential invariants are in addition proved inductive (Apalache for symbolic n <= 12 and t; TLAPS for all n, t: 94 obligations) on an abstraction that ThresholdSig.tla refines (TLC).',
   note='Only schedules the Go scheduler produces (with yields) are explored.'),

 'C09': dict(level='fault_enumeration', design='5 C09, 4.6',
   technique='TLC enumeration of the table of every exported function x argument classes and every DKG message x phase (APIMisuse.tla), each executed on the real library in child processes under recover(); behaviours of the other specifications re-executed for panics; ASan build in the thorough tier',
   text='The specification is the fault table: about 29 000 calls (every exported function incl. both threshold constructors and the participant operations, key kinds, list shapes longer and shorter than the key list, forged PRG states, Start with every seed class followed by a run; every DKG message x phase x role) with their documented outcome class (ok / typed rejection / documented exception). Every call is run on the real code; a recovered panic, a dying child, an untyped error where a typed one is documented, or an accepted invalid input is a violation. DKG network runs, FVSS histories, decoder and verification classes of the other properties are replayed for their panics.',
   note='Inputs outside the class grid are not explored; C reads inside a Go slice capacity are invisible to recover() and ASan.'),
 'C11': dict(level='model_checking', design='5 C11, 4.6',
   technique='TLC check of the staged ECDSA verification against its definition over curve x hasher x signature classes (ECDSAVerify.tla) + every class concretised and judged by an independent verifier',
   text='All 380 class combinations are decided on the model and executed on the real Sign / Verify / SignatureFormatCheck for both curves with keys 1, n-1 and random; Sign outputs and every verdict are cross-checked with the ECDSA equation over math/big arithmetic and independently computed digests.',
   note='Signature classes are structured (ranges, twin, swaps, bit flips, lengths), not all 2^512 strings.'),
 'C12': dict(level='model_checking', design='5 C12, 4.6',
   technique='TLC enumeration of seed lengths, key-object life cycles and pools of key objects under PublicKey / re-decode / aggregate actions with cache invariants (KeyGen.tla, KeyPool.tla) + replay against reference derivations (own HKDF, IETF BLS KeyGen) and reference scalar multiplication',
   text='Every seed length 0..300 for the three algorithms (random and all-zero seeds) is checked for acceptance 32..256 and, when accepted, against the documented derivation; every life cycle (generated / decoded 1, n-1, small, leading-zero / aggregated; repeated PublicKey(), re-decoding) is replayed and the public key compared with scalar x generator computed by the reference; every behaviour of a pool of BLS key objects (caches filled or not, re-decoded copies, aggregation over lists with repeats) is executed and every object is then asked for its public key.',
   note='Seed contents sampled; BLS G2 encodings compared in the library coefficient order.'),
 'C19': dict(level='exploration', design='5 C19, 4.4',
   technique='recorded concurrent executions validated by TLC against the pure-function specification (PureOps.tla); data-race clause by the Go race detector on the same operation mixes',
   text='Goroutines run mixes of the listed operations on shared keys (every internal form: generated, threshold key generation output, remainder of a removal; fresh objects in the concurrent phase) and fresh shared KMAC hashers; TLC accepts the log only if every concurrent result equals the value computed alone and all argument buffers are unchanged; the recorder is also run under -race.',
   note='Only schedules the Go scheduler produces; the race clause is decided by the race detector, not by TLC.'),
 'C20': dict(level='translation_validation', design='5 C20',
   technique='one transcript program and the specification-derived case sets built in four configurations; transcripts compared line by line, expectations re-checked per configuration',
   text='default (ADX), portable (-D__BLST_PORTABLE__), purego and no_cgo builds of the harness must print identical transcripts (hashing, KMAC, PRG, key generation, BLS signing / verdicts / aggregation / threshold / DKG messages, ECDSA verdicts) and satisfy the same model verdicts for the BLSVerify, Serialization and Hasher case sets.',
   note='No model of compiler flags; the TLA+ content is the behaviours replayed in every configuration.'),
}

checks = []
for pid in props:
    if pid not in CLAIMS:
        continue
    c = CLAIMS[pid]
    checks.append({
        'property_id': pid,
        'quick_cmd': 'bin/check %s --tier quick' % pid,
        'thorough_cmd': 'bin/check %s --tier thorough' % pid,
        'evidence_file': 'evidence/%s.json' % pid,
        'replay_cmd_template': 'bin/check %s --replay {path}' % pid,
        'engine': 'tlc+vh',
        'level_claimed': {'category': c['level'], 'text': c['text'], 'design_ref': 'DESIGN.md section ' + c['design']},
        'level_note': c['note'],
        'technique': c['technique'],
    })
NA_REASON = 'not claimed'
m = {
 'version': 1,
 'setup_cmd': 'tools/setup.sh',
 'hooks': {'guard': 'verif', 'enable': 'go build -tags verif (harness built by tools/vlib.py build_vh against /repo working tree)',
           'baseline_off_cmd': 'cd /repo && GOFLAGS=-mod=mod GOPROXY=off GOSUMDB=off GOTOOLCHAIN=local go1.26 test -json -vet=off -count=1 -timeout 25m ./...',
           'source_commits': json.load(open(os.path.join(V, 'hooks.json')))['source_commits'] if os.path.exists(os.path.join(V, 'hooks.json')) else [],
           'add_only': True},
 'engines': [
   {'name': 'tlc', 'path': 'specs/', 'serves_properties': sorted(CLAIMS), 'kind_free_text': 'TLA+ specifications checked with TLC 1.8.0 (exhaustive, simulation, trace validation)'},
   {'name': 'vh', 'path': 'harness/', 'serves_properties': sorted(CLAIMS), 'kind_free_text': 'Go conformance harness executing specification behaviours on onflow/crypto and recording real traces'},
 ],
 'checks': checks,
 'notes': 'bin/check <ID> --tier quick|thorough; exit 0 held / 1 VIOLATION / 2 undecided. See DESIGN.md.',
 'not_applicable': [{'property_id': p, 'reason': NA_REASON} for p in props if p not in CLAIMS],
}
json.dump(m, open(os.path.join(V, 'MANIFEST.json'), 'w'), indent=1)
print('claimed', len(checks), 'not_applicable', len(m['not_applicable']))
