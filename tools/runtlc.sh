#!/bin/sh
# usage: runtlc.sh <specdir> <Module> <cfg> [extra tlc args...]   -- runs TLC in a scratch copy, prints output, cleans up
D=$1; M=$2; C=$3; shift 3
S=$(mktemp -d /tmp/vtlc.XXXXXX)
cp "$D"/*.tla "$D"/*.cfg "$S"/ 2>/dev/null
cd "$S" && JAVA_TOOL_OPTIONS="-Djava.io.tmpdir=$S ${VTLC_JAVA_OPTS}" timeout ${VTLC_TIMEOUT:-1200} tlc -workers ${VTLC_WORKERS:-16} -metadir "$S/meta" -config "$C" "$@" "$M.tla" 2>&1
rc=$?
cd /; rm -rf "$S"
exit $rc
