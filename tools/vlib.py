"""Shared machinery of the checks: scratch directories, TLC runs, harness build, evidence, verdicts."""
import atexit, hashlib, json, os, re, shutil, subprocess, sys, tempfile, time

VERIF = os.path.dirname(os.path.dirname(os.path.abspath(__file__)))
REPO = os.environ.get('VERIF_REPO', '/repo')
SPECS = os.path.join(VERIF, 'specs')
EVID = os.environ.get('VERIF_EVIDENCE_DIR', os.path.join(VERIF, 'evidence'))
GOENV = dict(GOFLAGS='-mod=mod', GOPROXY='off', GOSUMDB='off', GOTOOLCHAIN='local')
GO = 'go1.26'
NCPU = os.cpu_count() or 4

_scratch = None


class Undecided(Exception):
    """The machinery could not decide (tool failure, timeout, vacuous run): exit 2, never a violation."""


def scratch():
    global _scratch
    if _scratch is None:
        _scratch = tempfile.mkdtemp(prefix='verif-')
        atexit.register(lambda: shutil.rmtree(_scratch, ignore_errors=True))
    return _scratch


def subdir(name):
    d = os.path.join(scratch(), name)
    os.makedirs(d, exist_ok=True)
    return d


def seed():
    try:
        return int(os.environ.get('VERIF_SEED', '1'))
    except ValueError:
        return 1


# ---------------------------------------------------------------- TLC

class TLCResult:
    def __init__(self, out, rc, wall):
        self.out, self.rc, self.wall = out, rc, wall
        m = re.search(r'(\d+) states generated, (\d+) distinct states found', out)
        self.generated = int(m.group(1)) if m else 0
        self.distinct = int(m.group(2)) if m else 0
        m = re.search(r'depth of the complete state graph search is (\d+)', out)
        self.depth = int(m.group(1)) if m else 0
        self.ok = 'Model checking completed. No error has been found.' in out
        self.violated = re.findall(r'Error: (?:Invariant|Action property|Temporal property) ?(\S+) (?:is|was) violated', out)
        if 'Temporal properties were violated' in out:
            self.violated.append('temporal')
        self.error = None
        if not self.ok and not self.violated:
            m = re.search(r'Error: (.*)', out)
            self.error = m.group(1) if m else ('rc=%d' % rc)


def tlc(specdir, module, cfg_text, extra=(), timeout=1200, workers=None, files=(), name=None, java_opts='', defs=None):
    """Run TLC in a fresh scratch copy of specdir with the given cfg text; returns TLCResult.
    files: extra (path, name) pairs copied next to the spec (trace files)."""
    d = subdir('tlc-%s-%d' % (name or module, int(time.time() * 1000) % 10 ** 9))
    for f in os.listdir(specdir):
        if f.endswith('.tla'):
            shutil.copy(os.path.join(specdir, f), d)
    for src, nm in files:
        shutil.copy(src, os.path.join(d, nm))
    if defs:
        # constants whose values are not expressible in a cfg file: wrapper module with definitions + "K <- MC_K"
        with open(os.path.join(d, 'MC_' + module + '.tla'), 'w') as f:
            f.write('---- MODULE MC_%s ----\nEXTENDS %s\n' % (module, module))
            for k, v in defs.items():
                f.write('MC_%s == %s\n' % (k, v))
            f.write('====\n')
        cfg_text = cfg_text.replace('CONSTANTS\n', 'CONSTANTS\n' + ''.join('  %s <- MC_%s\n' % (k, k) for k in defs), 1)
        module = 'MC_' + module
    with open(os.path.join(d, 'MC.cfg'), 'w') as f:
        f.write(cfg_text)
    env = dict(os.environ)
    env['JAVA_TOOL_OPTIONS'] = ('-Djava.io.tmpdir=%s %s' % (d, java_opts)).strip()
    cov = os.environ.get('VERIF_TLC_COVERAGE') and '-simulate' not in extra
    if cov:     # audit mode (tools/coverage_audit.sh): per-action and per-subexpression counts, collected in one report
        extra = list(extra) + ['-coverage', '1']
    cmd = ['timeout', str(timeout), 'tlc', '-workers', str(workers or NCPU), '-metadir', os.path.join(d, 'meta'),
           '-config', 'MC.cfg'] + list(extra) + [module + '.tla']
    t0 = time.time()
    p = subprocess.run(cmd, cwd=d, env=env, stdout=subprocess.PIPE, stderr=subprocess.STDOUT, text=True)
    res = TLCResult(p.stdout, p.returncode, time.time() - t0)
    if cov:
        import re
        last = p.stdout.rfind('The coverage statistics at')
        zero = [l for l in p.stdout[last:].splitlines() if re.search(r': 0(:0)?$', l)] if last >= 0 else ['(no coverage section)']
        with open(os.environ['VERIF_TLC_COVERAGE'], 'a') as f:
            f.write('## %s (%s) %s\n' % (module, name or '', cfg_text.replace('\n', ' ')[:300]))
            for l in zero:
                f.write('   ' + l + '\n')
    res.dir = d
    shutil.rmtree(os.path.join(d, 'meta'), ignore_errors=True)
    if p.returncode == 124:
        res.error = 'timeout after %ds' % timeout
    return res


def apalache(specdir, module, args, timeout=900, name=None):
    """Run `apalache-mc check` on a scratch copy of specdir; returns (outcome, output) with outcome in NoError | Error | failed."""
    d = subdir('apa-%s-%d' % (name or module, int(time.time() * 1000) % 10 ** 9))
    for f in os.listdir(specdir):
        if f.endswith('.tla'):
            shutil.copy(os.path.join(specdir, f), d)
    env = dict(os.environ)
    env['JAVA_TOOL_OPTIONS'] = '-Djava.io.tmpdir=%s' % d
    cmd = ['timeout', str(timeout), 'apalache-mc', 'check', '--out-dir=' + os.path.join(d, 'out'), '--run-dir=' + os.path.join(d, 'run')] + list(args) + [module + '.tla']
    try:
        p = subprocess.run(cmd, cwd=d, env=env, stdout=subprocess.PIPE, stderr=subprocess.STDOUT, text=True)
    except FileNotFoundError:
        return 'failed', 'apalache-mc not found'
    out = p.stdout
    shutil.rmtree(os.path.join(d, 'out'), ignore_errors=True)
    shutil.rmtree(os.path.join(d, 'run'), ignore_errors=True)
    if 'The outcome is: NoError' in out:
        return 'NoError', out
    if 'The outcome is: Error' in out:
        return 'Error', out
    return 'failed', out[-1500:]


def tlapm(specdir, module, timeout=900, name=None):
    """Run the TLA+ proof system on a scratch copy of specdir; returns (proved, total, output); proved = -1 if the tool failed to run."""
    import re
    d = subdir('tlapm-%s-%d' % (name or module, int(time.time() * 1000) % 10 ** 9))
    for f in os.listdir(specdir):
        if f.endswith('.tla'):
            shutil.copy(os.path.join(specdir, f), d)
    out = ''
    for stretch in ('3', '12'):        # back-end timeouts are wall-clock: a loaded machine gets a second, longer attempt
        cmd = ['timeout', str(timeout), 'tlapm', '--threads', str(NCPU), '--stretch', stretch, module + '.tla']
        try:
            p = subprocess.run(cmd, cwd=d, stdout=subprocess.PIPE, stderr=subprocess.STDOUT, text=True)
        except FileNotFoundError:
            return -1, 0, 'tlapm not found'
        out = p.stdout
        if re.search(r'All (\d+) obligations? proved', out):
            break
    shutil.rmtree(os.path.join(d, '.tlacache'), ignore_errors=True)
    m = re.search(r'All (\d+) obligations? proved', out)
    if m:
        return int(m.group(1)), int(m.group(1)), out
    m = re.search(r'(\d+)/(\d+) obligations failed', out)
    if m:
        return int(m.group(2)) - int(m.group(1)), int(m.group(2)), out
    return -1, 0, out[-1500:]


def cfg(constants, spec='Spec', invariants=(), properties=(), view=None, postcondition=None, constraint=None, extra=''):
    lines = ['CONSTANTS']
    for k, v in constants.items():
        lines.append('  %s = %s' % (k, tlaval(v)))
    lines.append('SPECIFICATION %s' % spec)
    if view:
        lines.append('VIEW %s' % view)
    for i in invariants:
        lines.append('INVARIANT %s' % i)
    for p in properties:
        lines.append('PROPERTY %s' % p)
    if constraint:
        lines.append('CONSTRAINT %s' % constraint)
    if postcondition:
        lines.append('POSTCONDITION %s' % postcondition)
    lines.append('CHECK_DEADLOCK FALSE')
    if extra:
        lines.append(extra)
    return '\n'.join(lines) + '\n'


class Raw(str):
    """a TLA+ expression passed through unquoted"""


def tlaval(v):
    if isinstance(v, Raw):
        return str(v)
    if isinstance(v, bool):
        return 'TRUE' if v else 'FALSE'
    if isinstance(v, int):
        return str(v)
    if isinstance(v, str):
        return '"%s"' % v
    if isinstance(v, (set, frozenset)):
        return '{' + ', '.join(tlaval(x) for x in sorted(v, key=str)) + '}'
    if isinstance(v, (list, tuple)):
        return '<<' + ', '.join(tlaval(x) for x in v) + '>>'
    raise TypeError(v)


# ---------------------------------------------------------------- Go harness

_vh = {}


def build_vh(tags=('verif',), race=False, asan=False, env_extra=None, name='vh'):
    """Build the harness binary against /repo's CURRENT working tree (module replace => /repo)."""
    key = (tuple(tags), race, asan, name, json.dumps(env_extra or {}, sort_keys=True))
    if key in _vh:
        return _vh[key]
    h = os.path.join(VERIF, 'harness')
    if os.path.realpath(REPO) != '/repo':
        # mutation testing against a scratch worktree: private copy of the harness with the replace directive redirected
        h2 = os.path.join(scratch(), 'harness-src')
        if not os.path.exists(h2):
            shutil.copytree(h, h2, ignore=shutil.ignore_patterns('go.sum'))
            gm = open(os.path.join(h2, 'go.mod')).read().replace('=> /repo', '=> ' + os.path.realpath(REPO))
            open(os.path.join(h2, 'go.mod'), 'w').write(gm)
        h = h2
    shutil.copy(os.path.join(REPO, 'go.sum'), os.path.join(h, 'go.sum'))
    out = os.path.join(subdir('bin'), name)
    env = dict(os.environ)
    env.update(GOENV)
    env.update(env_extra or {})
    cmd = [GO, 'build', '-o', out]
    if tags:
        cmd += ['-tags', ','.join(tags)]
    if race:
        cmd += ['-race']
    if asan:
        cmd += ['-asan']
    cmd += ['./cmd/vh']
    p = subprocess.run(cmd, cwd=h, env=env, stdout=subprocess.PIPE, stderr=subprocess.STDOUT, text=True)
    if p.returncode != 0:
        raise Undecided('harness build failed:\n' + p.stdout[-4000:])
    _vh[key] = out
    return out


def run(cmd, timeout=3600, env=None, cwd=None, check=False):
    e = dict(os.environ)
    e.update(env or {})
    p = subprocess.run(cmd, stdout=subprocess.PIPE, stderr=subprocess.STDOUT, text=True, timeout=timeout, env=e, cwd=cwd)
    if check and p.returncode != 0:
        raise Undecided('command failed (%d): %s\n%s' % (p.returncode, ' '.join(cmd), p.stdout[-4000:]))
    return p


# ---------------------------------------------------------------- known findings, verdict, evidence

def known_findings():
    p = os.path.join(VERIF, 'known_findings.json')
    if not os.path.exists(p):
        return []
    return json.load(open(p)).get('findings', [])


def jseed(seed, *idx):
    """a per-job seed that is NOT correlated with the job's position in an enumeration (variants are chosen by seed % k in the harness)"""
    return int(hashlib.sha256(('%s/%s' % (seed, '/'.join(map(str, idx)))).encode()).hexdigest()[:15], 16)


def digest(obj):
    return hashlib.sha256(json.dumps(obj, sort_keys=True, default=str).encode()).hexdigest()[:16]


class Check:
    """One run of one property's check: collects coverage counts, violations, and writes the evidence file."""

    def __init__(self, prop, tier, level):
        self.prop, self.tier, self.level = prop, tier, level
        self.t0 = time.time()
        self.cov = {'samples': []}
        self.assumptions = []
        self.violations = []   # dicts: key, what, replay (object)
        self.notes = []
        self.distinct = set()
        self.evaluations = 0

    def add_states(self, res, label):
        self.cov['states'] = self.cov.get('states', 0) + res.distinct
        self.cov['transitions'] = self.cov.get('transitions', 0) + res.generated
        self.cov.setdefault('model_runs', []).append(
            {'config': label, 'distinct_states': res.distinct, 'states_generated': res.generated, 'depth': res.depth,
             'wall_s': round(res.wall, 1)})

    def sample(self, obj, limit=6):
        if len(self.cov['samples']) < limit:
            self.cov['samples'].append(obj)

    def case(self, key, nontrivial=True):
        self.evaluations += 1
        if nontrivial:
            self.distinct.add(key if isinstance(key, str) else digest(key))

    def violation(self, key, what, replay):
        self.violations.append({'key': key, 'what': what, 'replay': replay})

    def finish(self, rule='', exhaustive=None, extra=None):
        wall = time.time() - self.t0
        os.makedirs(os.path.join(EVID, 'replays'), exist_ok=True)
        kf = known_findings()
        open_keys = {f['key']: f for f in kf if f.get('property') == self.prop and f.get('status') == 'open'}
        reported, known = [], []
        seen_keys = set()
        for v in self.violations:
            if v['key'] in seen_keys:
                continue
            seen_keys.add(v['key'])
            if v['key'] in open_keys:
                known.append(v)
            else:
                reported.append(v)
        self.cov['evaluations'] = self.evaluations
        self.cov['distinct_nontrivial'] = len(self.distinct)
        self.cov['rule'] = rule
        if exhaustive is not None:
            self.cov['exhaustive'] = exhaustive
        if extra:
            self.cov.update(extra)
        if self.notes:
            self.cov['notes'] = self.notes[:50]
        self.cov['known_findings_hit'] = [v['key'] for v in known]
        ev = {'property_id': self.prop, 'tier': self.tier, 'seed': seed(), 'level': self.level, 'coverage': self.cov,
              'assumptions': self.assumptions, 'wall_s': round(wall, 2), 'violations': len(reported)}
        with open(os.path.join(EVID, self.prop + '.json'), 'w') as f:
            json.dump(ev, f, indent=1, default=str)
            f.write('\n')
        for v in known:
            print('KNOWN-FINDING: property=%s %s' % (self.prop, open_keys[v['key']].get('what', v['what'])))
        for i, v in enumerate(reported[:20]):
            path = os.path.join(EVID, 'replays', '%s-%s-%d.json' % (self.prop, re.sub(r'[^A-Za-z0-9_.-]', '_', v['key'])[:60], i))
            with open(path, 'w') as f:
                json.dump({'property': self.prop, 'key': v['key'], 'what': v['what'], 'replay': v['replay']}, f, indent=1, default=str)
            print('VIOLATION property=%s replay=%s' % (self.prop, path))
            print('  ' + v['what'][:400])
        print('%s %s: %d evaluations, %d distinct non-trivial, %d states, %.1fs, violations=%d known=%d' % (
            self.prop, self.tier, self.evaluations, len(self.distinct), self.cov.get('states', 0), wall, len(reported), len(known)))
        return 1 if reported else 0


def main_wrapper(fn):
    try:
        rc = fn()
    except Undecided as e:
        print('UNDECIDED: %s' % e)
        rc = 2
    sys.stdout.flush()
    os._exit(_cleanup_and(rc))


def _cleanup_and(rc):
    if _scratch:
        shutil.rmtree(_scratch, ignore_errors=True)
    return rc
