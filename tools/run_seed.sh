#!/bin/sh
# usage: run_seed.sh <seed id> [property] [tier]: confirms the seeded change (if it has a demonstration) and runs the property's check
# against a scratch worktree with the change applied; results are stored next to the patch.
S=$1; D=/verif/seeded/$S
P=${2:-$(python3 -c "import json,sys; print(json.load(open('$D/meta.json')).get('property','${S%%-*}'))" 2>/dev/null || echo ${S%%-*})}
T=${3:-quick}
cd /verif
if [ -f $D/demo_test.go ] && [ ! -s $D/confirm.txt ]; then tools/confirm_seed.sh $D > $D/confirm.txt 2>&1; fi
timeout 3000 tools/mutant.sh $D/patch.diff bin/check $P --tier $T > $D/check.$P.$T.log 2>&1
rc=$?
{ echo "property=$P tier=$T exit=$rc"; grep -A1 "^VIOLATION\|^UNDECIDED\|^KNOWN" $D/check.$P.$T.log | cut -c1-300 | head -8; tail -1 $D/check.$P.$T.log | cut -c1-200; } > $D/check.$P.$T.txt
rm -f $D/check.$P.$T.log
echo "$S $P $T exit=$rc"
