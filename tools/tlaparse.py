"""Parser for TLA+ values as printed by TLC (simulation files, counterexamples, Print output).

  records  [a |-> 1, b |-> "x"]      -> dict
  functions (0 :> x @@ 1 :> y)       -> dict with the printed keys (ints stay ints)
  sequences / tuples <<a, b>>        -> list
  sets {a, b}                        -> list (order as printed)
  strings, integers, TRUE/FALSE      -> str, int, bool
"""
import re

_tok = re.compile(r'\s*(\|->|:>|@@|<<|>>|\[|\]|\(|\)|\{|\}|,|"(?:[^"\\]|\\.)*"|-?\d+|[A-Za-z_][A-Za-z0-9_]*)')


def tokenize(s):
    pos, out = 0, []
    s = s.rstrip()
    while pos < len(s):
        m = _tok.match(s, pos)
        if not m:
            if s[pos:].strip() == '':
                break
            raise ValueError('cannot tokenize at %r' % s[pos:pos + 40])
        out.append(m.group(1))
        pos = m.end()
    return out


class _P:
    def __init__(self, toks):
        self.t, self.i = toks, 0

    def peek(self):
        return self.t[self.i] if self.i < len(self.t) else None

    def next(self):
        x = self.t[self.i]
        self.i += 1
        return x

    def expect(self, x):
        y = self.next()
        if y != x:
            raise ValueError('expected %s got %s' % (x, y))

    def value(self):
        v = self.atom()
        # function printed without parentheses: a :> b @@ c :> d
        if self.peek() == ':>':
            return self.fcn_rest(v)
        return v

    def fcn_rest(self, first_key):
        d = {}
        k = first_key
        while True:
            self.expect(':>')
            d[k] = self.atom()
            if self.peek() == '@@':
                self.next()
                k = self.atom()
            else:
                return d

    def atom(self):
        t = self.next()
        if t == '<<':
            out = []
            while self.peek() != '>>':
                out.append(self.value())
                if self.peek() == ',':
                    self.next()
            self.next()
            return out
        if t == '{':
            out = []
            while self.peek() != '}':
                out.append(self.value())
                if self.peek() == ',':
                    self.next()
            self.next()
            return out
        if t == '[':
            d = {}
            while self.peek() != ']':
                k = self.next()
                self.expect('|->')
                d[k] = self.value()
                if self.peek() == ',':
                    self.next()
            self.next()
            return d
        if t == '(':
            v = self.value()
            self.expect(')')
            return v
        if t[0] == '"':
            return t[1:-1]
        if t == 'TRUE':
            return True
        if t == 'FALSE':
            return False
        if re.fullmatch(r'-?\d+', t):
            return int(t)
        return t  # model value / identifier


def parse(s):
    p = _P(tokenize(s))
    v = p.value()
    if p.peek() is not None:
        raise ValueError('trailing tokens: %s' % p.t[p.i:p.i + 5])
    return v


_state_re = re.compile(r'^(?:STATE_\d+ ==|State \d+:.*)$', re.M)


def states_of(text, only=None):
    """Split a TLC behaviour (simulation file or error trace) into states: list of {var: value}.
    `only`: iterable of variable names to parse (others skipped, which is much faster)."""
    chunks = _state_re.split(text)[1:]
    out = []
    for ch in chunks:
        st = {}
        # conjuncts start with '/\ name = ' at column 0
        parts = re.split(r'^/\\ ', ch, flags=re.M)[1:]
        for part in parts:
            m = re.match(r'([A-Za-z_][A-Za-z0-9_]*) = ', part)
            if not m:
                continue
            name = m.group(1)
            if only is not None and name not in only:
                continue
            body = part[m.end():]
            # cut at a blank line / trailing module footer
            body = re.split(r'\n\s*\n|\n=====', body)[0]
            st[name] = parse(body)
        out.append(st)
    return out


if __name__ == '__main__':
    import sys, json
    print(json.dumps(states_of(open(sys.argv[1]).read(), only=set(sys.argv[2:]) or None), indent=1))
