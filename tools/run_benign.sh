#!/bin/sh
# usage: run_benign.sh <benign id> [props...]: runs the quick checks of the touched properties against a scratch worktree with the
# behaviour-preserving change applied; every check must stay silent (exit 0).  Result lines in benign/<id>/result.txt
B=$1; shift; D=/verif/benign/$B
PROPS=${@:-$(python3 -c "import json; print(' '.join(json.load(open('$D/meta.json'))['properties_touched']))")}
cd /verif
for P in $PROPS; do
  timeout 3000 tools/mutant.sh $D/patch.diff bin/check $P --tier quick > $D/check.$P.log 2>&1
  rc=$?
  { echo "property=$P exit=$rc"; grep -A1 "^VIOLATION\|^UNDECIDED" $D/check.$P.log | cut -c1-400 | head -6; tail -1 $D/check.$P.log | cut -c1-200; } > $D/check.$P.txt
  rm -f $D/check.$P.log
  echo "$B $P exit=$rc"
done
