#!/usr/bin/env python3
"""Regenerates the seeded-changes table of DESIGN.md (between the SEEDTABLE markers) from seeded/<id>/{meta.json,confirm.txt,check.*.txt}."""
import glob, json, os, re
V = os.path.dirname(os.path.dirname(os.path.abspath(__file__)))
rows = []
for d in sorted(glob.glob(os.path.join(V, 'seeded', '*'))):
    sid = os.path.basename(d)
    meta = {}
    if os.path.exists(os.path.join(d, 'meta.json')):
        try:
            meta = json.load(open(os.path.join(d, 'meta.json')))
        except Exception:
            meta = {}
    summary = (meta.get('summary') or '').replace('\n', ' ').replace('|', '/')
    if not summary and sid.endswith('-revert'):
        summary = 'the fix of defect %s reverted' % sid.split('-')[0]
    summary = summary[:230] + ('...' if len(summary) > 230 else '')
    conf = ''
    cp = os.path.join(d, 'confirm.txt')
    if os.path.exists(cp):
        m = re.search(r'demo_on_clean_exit=(\d+) demo_with_change_exit=(\d+) suite_with_change_exit=(\d+)', open(cp).read())
        if m:
            conf = 'yes' if (m.group(1), m.group(3)) == ('0', '0') and m.group(2) != '0' else 'NO (%s)' % m.group(0)
    elif sid.endswith('-revert') or sid == 'C01-nomember':
        conf = 'n/a (own patch)'
    res = []
    for f in sorted(glob.glob(os.path.join(d, 'check.*.txt'))):
        t = open(f).read()
        m = re.search(r'property=(\S+) tier=(\S+) exit=(\d+)', t)
        v = re.search(r'^\s+(\w+):', t, flags=re.M)
        if m:
            res.append('%s %s: %s%s' % (m.group(1), m.group(2), {'0': 'MISSED', '1': 'caught', '2': 'undecided'}.get(m.group(3), m.group(3)),
                                        (' (%s)' % v.group(1)) if v and m.group(3) == '1' else ''))
    note = (meta.get('caught_after') or '')
    rows.append('| %s | %s | %s | %s | %s |' % (sid, summary, conf, '; '.join(res) or 'not run yet', note))
table = ('\n\n| seed | change | confirmed | result of the quick check | note |\n|---|---|---|---|---|\n' + '\n'.join(rows) + '\n')
p = os.path.join(V, 'DESIGN.md')
s = open(p).read()
if '<!-- SEEDTABLE -->' in s:
    s = re.sub(r'<!-- SEEDTABLE -->.*?<!-- /SEEDTABLE -->', '<!-- SEEDTABLE -->' + table + '<!-- /SEEDTABLE -->', s, flags=re.S)
else:
    s = s.replace('SEEDTABLE', '\n<!-- SEEDTABLE -->' + table + '<!-- /SEEDTABLE -->\n', 1)
open(p, 'w').write(s)
print(len(rows), 'rows')
# behaviour-preserving changes
brows = []
for d in sorted(glob.glob(os.path.join(V, 'benign', '*'))):
    bid = os.path.basename(d)
    try:
        meta = json.load(open(os.path.join(d, 'meta.json')))
    except Exception:
        meta = {}
    summary = (meta.get('summary') or '').replace('\n', ' ').replace('|', '/')
    summary = summary[:260] + ('...' if len(summary) > 260 else '')
    res = []
    for f in sorted(glob.glob(os.path.join(d, 'check.*.txt'))):
        t = open(f).read()
        m = re.search(r'property=(\S+) exit=(\d+)', t)
        if m:
            res.append('%s: %s' % (m.group(1), {'0': 'silent', '1': 'ALARM', '2': 'undecided'}.get(m.group(2), m.group(2))))
    brows.append('| %s | %s | %s |' % (bid, summary, '; '.join(res) or 'not run yet'))
btable = ('\n\n| change | what it does | quick checks of the touched properties |\n|---|---|---|\n' + '\n'.join(brows) + '\n')
s = open(p).read()
if '<!-- BENIGNTABLE -->' in s:
    s = re.sub(r'<!-- BENIGNTABLE -->.*?<!-- /BENIGNTABLE -->', '<!-- BENIGNTABLE -->' + btable + '<!-- /BENIGNTABLE -->', s, flags=re.S)
    open(p, 'w').write(s)
print(len(brows), 'benign rows')
