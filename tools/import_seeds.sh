#!/bin/sh
# usage: import_seeds.sh <agent out dir> <suffix>   -- copies change*/ to seeded/<property>-<suffix><i>/
O=$1; SUF=$2
for c in $O/change*/; do
  i=$(basename $c | sed 's/change//')
  P=$(python3 -c "import json;print(json.load(open('$c/meta.json'))['property'])")
  d=/verif/seeded/$P-$SUF$i; mkdir -p $d
  cp $c/patch.diff $c/demo_test.go $c/meta.json $d/
  echo $P-$SUF$i
done
