#!/bin/sh
# usage: multi_seed.sh <tier> <seed> [ids...]: all checks with VERIF_SEED=<seed>, evidence written elsewhere
T=$1; S=$2; shift 2
export VERIF_SEED=$S VERIF_EVIDENCE_DIR=/tmp/ev-seed-$S
exec "$(dirname "$0")/all_checks.sh" $T "$@"
