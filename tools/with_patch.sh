#!/bin/sh
# usage: with_patch.sh <patch.diff> <command...>   -- applies the patch to /repo, runs the command, always restores /repo
P=$(readlink -f "$1"); shift
cd /repo || exit 2
if [ -n "$(git status --porcelain --untracked-files=no)" ]; then echo "/repo has uncommitted changes"; exit 2; fi
git apply "$P" || { echo "patch does not apply"; exit 2; }
cd /verif
"$@"
rc=$?
git -C /repo checkout -- . 
git -C /repo clean -fdq 2>/dev/null
exit $rc
