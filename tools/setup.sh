#!/bin/sh
# offline setup: warm the Go build cache for the harness (cgo build of /repo) and check the tools are present
set -e
cd "$(dirname "$0")/.."
export GOFLAGS=-mod=mod GOPROXY=off GOSUMDB=off GOTOOLCHAIN=local
command -v tlc >/dev/null
command -v go1.26 >/dev/null
cp /repo/go.sum harness/go.sum
( cd harness && go1.26 build -tags verif -o /dev/null ./cmd/vh )
echo setup ok
