#!/bin/sh
# usage: all_checks.sh <tier> [ids...]   -- runs the checks one after the other, prints one summary line each
T=${1:-quick}; shift
IDS=${@:-C01 C02 C03 C04 C05 C06 C07 C08 C09 C10 C11 C12 C13 C14 C15 C16 C17 C18 C19 C20}
cd "$(dirname "$0")/.."
for id in $IDS; do
  s=$(date +%s)
  out=$(timeout 14400 bin/check $id --tier $T 2>&1); rc=$?
  e=$(date +%s)
  echo "$id tier=$T exit=$rc wall=$((e-s))s :: $(echo "$out" | grep -c '^VIOLATION') violations :: $(echo "$out" | tail -1 | cut -c1-160)"
  [ $rc -ne 0 ] && echo "$out" | grep -A1 '^VIOLATION\|^UNDECIDED' | head -8 | cut -c1-300
done
