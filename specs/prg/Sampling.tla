------------------------------ MODULE Sampling ------------------------------
(***************************************************************************
 The sampling helpers of random/rand.go at the level of source BYTES.

 UintN(n) (:93-123): max = n-1; size = number of bytes of max; mask = 2^bitlen(max) - 1;
 repeat { read `size` bytes; random = little-endian value & mask } until random <= max.
 One attempt on a chunk c in 0..256^size - 1 yields c & mask = c % (mask+1)
 (mask+1 is a power of two) and is accepted iff that is <= max.

 Exact uniformity (C15) is a counting statement: for every value v < n the
 number of chunks that are accepted with result v is the same (Uniform);
 since rejected attempts consume exactly `size` fresh bytes the loop is then
 exactly uniform too.  Checked by direct counting for every n <= MaxN.

 Permutation(n) (:131-142) is the inside-out Fisher-Yates driven by draws
 d_i = UintN(i+1); Samples(n, m) / Shuffle (:179-191) swap position i with
 i + UintN(n-i).  For exactly uniform draws the outcome is exactly uniform
 iff the map draws -> outcome is a bijection onto the n! permutations
 (resp. the n!/(n-m)! ordered samples): PermBijection, SampleBijection.
 ***************************************************************************)
EXTENDS Integers, Sequences, FiniteSets, TLC, Json

CONSTANTS MaxN,      \* UintN: every n in 1..MaxN (one-byte chunks: MaxN <= 256)
          MaxPerm    \* Fisher-Yates: every population size up to MaxPerm

(* ---------- UintN ---------- *)
RECURSIVE NBytes(_)
NBytes(x) == IF x = 0 THEN 0 ELSE 1 + NBytes(x \div 256)
RECURSIVE MaskOf(_, _)
MaskOf(max, m) == IF max <= m THEN m ELSE MaskOf(max, 2 * m + 1)     \* for max&mask != max { mask = mask<<1 | 1 }
                                                                       \* (max <= mask <=> max & mask = max for masks 2^k - 1)
Size(n) == NBytes(n - 1)
Mask(n) == MaskOf(n - 1, 0)
RECURSIVE Pow256(_)
Pow256(k) == IF k = 0 THEN 1 ELSE 256 * Pow256(k - 1)
Chunks(n) == 0..(Pow256(Size(n)) - 1)
Attempt(n, c) == LET r == c % (Mask(n) + 1) IN [acc |-> r <= n - 1, val |-> r]

InRange(n) == \A c \in Chunks(n) : Attempt(n, c).acc => Attempt(n, c).val \in 0..(n-1)
Uniform(n) == \A v \in 0..(n-1) :
                Cardinality({c \in Chunks(n) : Attempt(n, c).acc /\ Attempt(n, c).val = v}) = Pow256(Size(n)) \div (Mask(n) + 1)
\* an attempt is accepted with probability > 1/2: the loop terminates with probability 1
Progress(n) == 2 * Cardinality({c \in Chunks(n) : Attempt(n, c).acc}) > Pow256(Size(n))

(* ---------- Fisher-Yates ---------- *)
\* all draw sequences d with d[i] in 0..b[i]-1, for a sequence b of bounds
RECURSIVE DrawsB(_)
DrawsB(b) == IF b = <<>> THEN {<<>>}
             ELSE {Append(d, x) : d \in DrawsB(SubSeq(b, 1, Len(b) - 1)), x \in 0..(b[Len(b)] - 1)}
PermDraws(n)       == DrawsB([k \in 1..n |-> k])              \* d_i = UintN(i+1), i = 0..n-1
SampleDraws(n, m)  == DrawsB([k \in 1..m |-> n - k + 1])      \* d_i = UintN(n-i), i = 0..m-1

\* Permutation(n): for i in 0..n-1 { j = UintN(i+1); items[i] = items[j]; items[j] = i }   (0-based items, 1-based seq here)
RECURSIVE InsideOut(_, _, _)
InsideOut(items, d, i) ==          \* i: 1-based step, items: sequence of length n
  IF i > Len(d) THEN items
  ELSE LET j  == d[i] + 1
           a  == [items EXCEPT ![i] = items[j]]
           b  == [a EXCEPT ![j] = i - 1] IN
       InsideOut(b, d, i + 1)
PermOf(d) == InsideOut([k \in 1..Len(d) |-> 0], d, 1)

\* Samples(n, m): for i in 0..m-1 { j = UintN(n-i); swap(i, i+j) } applied to the identity arrangement
RECURSIVE Swaps(_, _, _)
Swaps(arr, d, i) ==
  IF i > Len(d) THEN arr
  ELSE LET a == i  b == i + d[i] IN Swaps([arr EXCEPT ![a] = arr[b], ![b] = arr[a]], d, i + 1)
SampleOf(n, d) == Swaps([k \in 1..n |-> k - 1], d, 1)

IsPerm(s, n) == {s[k] : k \in 1..Len(s)} = 0..(n-1) /\ Len(s) = n
RECURSIVE Fact(_)
Fact(n) == IF n = 0 THEN 1 ELSE n * Fact(n - 1)

PermBijection(n) ==
  LET D == PermDraws(n) IN
  /\ \A d \in D : IsPerm(PermOf(d), n)
  /\ Cardinality({PermOf(d) : d \in D}) = Fact(n) /\ Cardinality(D) = Fact(n)

SampleBijection(n, m) ==
  LET D == SampleDraws(n, m) IN
  /\ \A d \in D : IsPerm(SampleOf(n, d), n)
  /\ Cardinality({SubSeq(SampleOf(n, d), 1, m) : d \in D}) = Fact(n) \div Fact(n - m)
  /\ Cardinality(D) = Fact(n) \div Fact(n - m)

(* ---------- enumeration ---------- *)
VARIABLE job
Jobs == {[kind |-> "uintn", n |-> n, m |-> 0] : n \in 1..MaxN}
   \cup {[kind |-> "perm", n |-> n, m |-> n] : n \in 0..MaxPerm}
   \cup {[kind |-> "samples", n |-> n, m |-> m] : n \in 0..MaxPerm, m \in 0..MaxPerm}
Init == job \in {j \in Jobs : j.m <= j.n}
Next == UNCHANGED job
Spec == Init /\ [][Next]_job

Holds ==
  CASE job.kind = "uintn"   -> InRange(job.n) /\ Uniform(job.n) /\ Progress(job.n)
    [] job.kind = "perm"    -> PermBijection(job.n)
    [] job.kind = "samples" -> SampleBijection(job.n, job.m)

Emit ==
  CASE job.kind = "uintn" ->
         PrintT(<<"CASE", ToJson([kind |-> "uintn", n |-> job.n, size |-> Size(job.n), mask |-> Mask(job.n),
                                  table |-> [k \in 1..Pow256(Size(job.n)) |-> IF Attempt(job.n, k - 1).acc THEN Attempt(job.n, k - 1).val ELSE -1]])>>)
    [] job.kind = "perm" ->
         PrintT(<<"CASE", ToJson([kind |-> "perm", n |-> job.n,
                                  rows |-> {[d |-> d, out |-> PermOf(d)] : d \in PermDraws(job.n)}])>>)
    [] job.kind = "samples" ->
         PrintT(<<"CASE", ToJson([kind |-> "samples", n |-> job.n, m |-> job.m,
                                  rows |-> {[d |-> d, out |-> SampleOf(job.n, d)] : d \in SampleDraws(job.n, job.m)}])>>)
=============================================================================
