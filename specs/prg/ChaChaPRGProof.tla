---------------------------- MODULE ChaChaPRGProof ----------------------------
(* TLAPS: the position arithmetic of ChaChaPRG.tla for reads of EVERY size and behaviours of EVERY length.

   One generator of ChaChaPRG.tla, started from an arbitrary stored state (64*b + o bytes into the stream), with the
   history variable `total` = the stream position at which the next byte it returns must lie if its output is to tile
   the keystream without gap or overlap.  The transitions are those of ChaChaPRG.tla (Read with the (block, offset)
   arithmetic Adv, Store followed by Restore, which re-derives the cipher position from the byte counter).  Proved:
   the cipher position is always the byte counter and always 64*blk + off = total (SameStream and Tiles of
   ChaChaPRG.tla, which TLC checks for bounded read sizes and at most MaxOps operations), for all k in Nat.
   Checked with `tlapm ChaChaPRGProof.tla`. *)
EXTENDS Integers, TLAPS

VARIABLES cb, co, blk, off, total
vars == <<cb, co, blk, off, total>>

Init == \E b \in Nat, o \in 0..63 : cb = b /\ co = o /\ blk = b /\ off = o /\ total = 64 * b + o

Read(k) == /\ cb' = cb + (co + k) \div 64 /\ co' = (co + k) % 64
           /\ blk' = blk + (off + k) \div 64 /\ off' = (off + k) % 64
           /\ total' = total + k
\* Store() then RestoreChacha20PRG(): block counter = byte counter / 64, discard byte counter % 64 bytes
StoreRestore == /\ blk' = cb /\ off' = co /\ UNCHANGED <<cb, co, total>>

Next == (\E k \in Nat : Read(k)) \/ StoreRestore
Spec == Init /\ [][Next]_vars

IndInv == /\ cb \in Nat /\ co \in 0..63 /\ blk = cb /\ off = co
          /\ total = 64 * blk + off

THEOREM InitInv == Init => IndInv
  BY DEF Init, IndInv

LEMMA DivMod == ASSUME NEW x \in Nat PROVE /\ x \div 64 \in Nat /\ x % 64 \in 0..63 /\ x = 64 * (x \div 64) + (x % 64)
  OBVIOUS

THEOREM Consecution == IndInv /\ [Next]_vars => IndInv'
  <1>. SUFFICES ASSUME IndInv, [Next]_vars PROVE IndInv' OBVIOUS
  <1>1. ASSUME NEW k \in Nat, Read(k) PROVE IndInv'
    <2>1. co + k \in Nat BY DEF IndInv
    <2>2. PICK q \in Nat, r \in 0..63 : q = (co + k) \div 64 /\ r = (co + k) % 64 /\ co + k = 64 * q + r
      BY <2>1, DivMod
    <2>3. cb' = cb + q /\ co' = r /\ blk' = cb + q /\ off' = r /\ total' = total + k BY <1>1, <2>2 DEF Read, IndInv
    <2>4. total = 64 * cb + co /\ cb \in Nat /\ co \in 0..63 BY DEF IndInv
    <2>5a. co + k = 64 * q + r BY <2>2
    <2>5b. total' = total + k BY <2>3
    <2>5c. total = 64 * cb + co BY <2>4
    <2>5d. k \in Nat /\ q \in Nat /\ r \in Nat /\ cb \in Nat /\ co \in Nat BY <2>4
    <2>5. total' = 64 * (cb + q) + r BY <2>5a, <2>5b, <2>5c, <2>5d
    <2>. QED BY <2>2, <2>3, <2>4, <2>5 DEF IndInv
  <1>2. CASE StoreRestore
    BY <1>2 DEF StoreRestore, IndInv
  <1>3. CASE UNCHANGED vars
    BY <1>3 DEF vars, IndInv
  <1>. QED BY <1>1, <1>2, <1>3 DEF Next

THEOREM Safety == Spec => []IndInv
  BY InitInv, Consecution, PTL DEF Spec

\* a read of k bytes returns the interval [total, total + k): the next read starts exactly where this one ended
THEOREM ReadAdvancesByK == ASSUME IndInv, NEW k \in Nat, Read(k) PROVE 64 * blk' + off' = 64 * blk + off + k
  <1>1. co + k \in Nat BY DEF IndInv
  <1>2. PICK q \in Nat, r \in 0..63 : q = (co + k) \div 64 /\ r = (co + k) % 64 /\ co + k = 64 * q + r
    BY <1>1, DivMod
  <1>3. blk' = blk + q /\ off' = r /\ blk = cb /\ off = co /\ cb \in Nat /\ co \in 0..63 BY <1>2 DEF Read, IndInv
  <1>4. co + k = 64 * q + r BY <1>2
  <1>5. blk' = cb + q /\ off' = r /\ blk = cb /\ off = co BY <1>3
  <1>6. k \in Nat /\ q \in Nat /\ r \in Nat /\ cb \in Nat /\ co \in Nat BY <1>3
  <1>. QED BY <1>4, <1>5, <1>6
=============================================================================
