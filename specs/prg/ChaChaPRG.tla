------------------------------ MODULE ChaChaPRG ------------------------------
(***************************************************************************
 The ChaCha20-based PRG (random/chacha20.go) as a byte-stream machine.

 A generator is [cnt, blk, off]: cnt is the byte counter kept by the Go code
 (bytesCounter), (blk, off) is the position of the underlying ChaCha20 cipher:
 block counter and offset inside the 64-byte block.  Read(k) returns the
 keystream interval [64*blk + off, 64*blk + off + k) through one of two
 code paths (k <= 64: XOR of the zero message; k > 64: in place), advances
 the cipher and adds k to cnt.  Store serialises (seed, customizer, cnt);
 Restore sets blk = cnt \div 64 and discards cnt % 64 bytes (:189-196).

 Property C14: the concatenation of everything a generator returns is the
 keystream from 0 (SameStream), whatever the read sizes, and a restored
 generator continues exactly where the stored one stood (RestoreResumes).
 Every behaviour is emitted with the prescribed intervals and replayed on the
 real PRG against an independent RFC 8439 keystream.
 ***************************************************************************)
EXTENDS Integers, Sequences, FiniteSets, TLC, Json

CONSTANTS Sizes,      \* read sizes offered
          MaxOps,     \* operations per behaviour
          MaxGens,    \* generators alive at most
          Pattern,    \* "free" | "offsets": Read(1,k) for every k in 0..MaxPos, Fork, then reads on both
          MaxPos

VARIABLES gens,   \* sequence of generators
          hist    \* operations with the prescribed result
vars == <<gens, hist>>

Gen(cnt, blk, off) == [cnt |-> cnt, blk |-> blk, off |-> off]
CipherPos(g) == 64 * g.blk + g.off

Init == gens = <<Gen(0, 0, 0)>> /\ hist = <<>>

Read(i, k) ==
  /\ i \in 1..Len(gens)
  /\ LET g == gens[i]  p == CipherPos(g) IN
     /\ gens' = [gens EXCEPT ![i] = Gen(g.cnt + k, (p + k) \div 64, (p + k) % 64)]
     /\ hist' = Append(hist, [op |-> "read", g |-> i, k |-> k, from |-> p, path |-> IF k <= 64 THEN "zero-message" ELSE "in-place"])

\* Store() of generator i followed by RestoreChacha20PRG: a new generator
Fork(i) ==
  /\ i \in 1..Len(gens) /\ Len(gens) < MaxGens
  /\ LET c == gens[i].cnt IN
     /\ gens' = Append(gens, Gen(c, c \div 64, c % 64))
     /\ hist' = Append(hist, [op |-> "fork", g |-> i, k |-> 0, from |-> c, path |-> "restore"])

Allowed(op, i, k) ==
  IF Pattern = "free" THEN TRUE
  ELSE CASE Len(hist) = 0 -> op = "read" /\ i = 1
         [] Len(hist) = 1 -> op = "fork" /\ i = 1
         [] Len(hist) = 2 -> op = "read" /\ i = 2 /\ k = 200
         [] Len(hist) = 3 -> op = "read" /\ i = 1 /\ k = 200
         [] OTHER -> FALSE

ReadSizes == IF Pattern = "offsets" /\ Len(hist) = 0 THEN 0..MaxPos ELSE Sizes \cup {200}

Next ==
  \/ /\ Len(hist) < MaxOps
     /\ \/ \E i \in 1..Len(gens), k \in ReadSizes : Allowed("read", i, k) /\ Read(i, k)
        \/ \E i \in 1..Len(gens) : Allowed("fork", i, 0) /\ Fork(i)
  \/ (Len(hist) = MaxOps /\ UNCHANGED vars)
Spec == Init /\ [][Next]_vars

(* ---------- properties ---------- *)
\* the cipher position always equals the byte counter: what Read returns starts where the previous output ended
SameStream == \A i \in 1..Len(gens) : CipherPos(gens[i]) = gens[i].cnt /\ gens[i].off \in 0..63
\* per generator, the returned intervals tile [start, cnt) without gap or overlap
RECURSIVE Tiles(_, _, _)
Tiles(i, k, pos) ==   \* scanning hist from entry k: reads of generator i start at pos
  IF k > Len(hist) THEN pos = gens[i].cnt
  ELSE IF hist[k].op = "read" /\ hist[k].g = i
       THEN hist[k].from = pos /\ Tiles(i, k + 1, pos + hist[k].k)
       ELSE Tiles(i, k + 1, pos)
\* index in hist of the fork that created generator i (i >= 2): the (i-1)-th fork
ForkIdx(i) == CHOOSE k \in 1..Len(hist) : hist[k].op = "fork" /\ Cardinality({j \in 1..k : hist[j].op = "fork"}) = i - 1
RestoreResumes == \A i \in 1..Len(gens) :
                    IF i = 1 THEN Tiles(1, 1, 0) ELSE Tiles(i, ForkIdx(i) + 1, hist[ForkIdx(i)].from)

Emit == Len(hist) = MaxOps => PrintT(<<"CASE", ToJson([hist |-> hist])>>)
=============================================================================
