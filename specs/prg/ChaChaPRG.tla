------------------------------ MODULE ChaChaPRG ------------------------------
(***************************************************************************
 The ChaCha20-based PRG (random/chacha20.go) as a byte-stream machine.

 A generator is [cnt, blk, off]: cnt is the byte counter kept by the Go code
 (bytesCounter), (blk, off) is the position of the underlying ChaCha20 cipher:
 block counter and offset inside the 64-byte block.  Read(k) returns the
 keystream interval [64*blk + off, 64*blk + off + k) through one of two
 code paths (k <= 64: XOR of the zero message; k > 64: in place), advances
 the cipher and adds k to cnt.  Store serialises (seed, customizer, cnt);
 Restore sets blk = cnt \div 64 and discards cnt % 64 bytes (:189-196).

 Property C14: the concatenation of everything a generator returns is the
 keystream from 0 (SameStream), whatever the read sizes, and a restored
 generator continues exactly where the stored one stood (RestoreResumes).
 Every behaviour is emitted with the prescribed intervals and replayed on the
 real PRG against an independent RFC 8439 keystream.
 ***************************************************************************)
EXTENDS Integers, Sequences, FiniteSets, TLC, Json

CONSTANTS Sizes,      \* read sizes offered
          MaxOps,     \* operations per behaviour
          MaxGens,    \* generators alive at most
          Pattern,    \* "free" | "offsets": Read(1,k) for every k in 0..MaxPos, Fork, then reads on both
                      \* "far": a generator restored from a crafted state far into the stream, then reads and forks
          MaxPos,
          TruncBug    \* FALSE; TRUE (negative control): Restore truncates the byte counter to 32 bits before dividing

VARIABLES gens,   \* sequence of generators
          hist,   \* operations with the prescribed result
          stored  \* states returned by Store() and kept by the caller: values, restored at any later time
vars == <<gens, hist, stored>>

\* positions are kept as (block, offset) pairs: byte counts beyond 2^31 do not fit TLC's integers.
\* cb, co: the byte counter of the Go code (bytesCounter = 64*cb + co); blk, off: the position of the ChaCha20 cipher
Gen(cb, co, blk, off) == [cb |-> cb, co |-> co, blk |-> blk, off |-> off]
Pos(b, o) == [b |-> b, o |-> o]
Adv(b, o, k) == Pos(b + (o + k) \div 64, (o + k) % 64)

Init == gens = <<Gen(0, 0, 0, 0)>> /\ hist = <<>> /\ stored = <<>>

\* Blocks at the END of the stream are written as negative numbers: -1 is the last block 2^32 - 1 of a ChaCha20 stream, -2 the one
\* before (TLC's integers stop at 2^31).  A generator placed there reads only inside the stream: what lies beyond 2^38 bytes is
\* not defined by RFC 8439 (the library panics with "counter overflow", like a genuine generator after 256 GiB).
Read(i, k) ==
  /\ i \in 1..Len(gens)
  /\ (gens[i].blk < 0 => Adv(gens[i].blk, gens[i].off, k).b < 0)
  /\ LET g == gens[i]  c == Adv(g.cb, g.co, k)  p == Adv(g.blk, g.off, k) IN
     /\ gens' = [gens EXCEPT ![i] = Gen(c.b, c.o, p.b, p.o)]
     /\ hist' = Append(hist, [op |-> "read", g |-> i, k |-> k, from |-> Pos(g.blk, g.off), path |-> IF k <= 64 THEN "zero-message" ELSE "in-place"])
     /\ UNCHANGED stored

\* RestoreChacha20PRG on a state whose byte counter is 64*cb + co (:171-212): block counter = bytes / 64, discard bytes % 64
Restored(cb, co) == Gen(cb, co, IF TruncBug THEN cb % 67108864 ELSE cb, co)

\* Store() of generator i followed by RestoreChacha20PRG: a new generator
Fork(i) ==
  /\ i \in 1..Len(gens) /\ Len(gens) < MaxGens
  /\ gens' = Append(gens, Restored(gens[i].cb, gens[i].co))
  /\ hist' = Append(hist, [op |-> "fork", g |-> i, k |-> 0, from |-> Pos(gens[i].cb, gens[i].co), path |-> "restore"])
  /\ UNCHANGED stored

\* Store() of generator i, the state kept for later; RestoreChacha20PRG of a kept state, whatever its generator did since
Keep(i) ==
  /\ i \in 1..Len(gens) /\ Len(stored) < 3
  /\ stored' = Append(stored, Pos(gens[i].cb, gens[i].co))
  /\ hist' = Append(hist, [op |-> "store", g |-> i, k |-> Len(stored) + 1, from |-> Pos(gens[i].cb, gens[i].co), path |-> "-"])
  /\ UNCHANGED gens
Resume(k) ==
  /\ k \in 1..Len(stored) /\ Len(gens) < MaxGens
  /\ gens' = Append(gens, Restored(stored[k].b, stored[k].o))
  /\ hist' = Append(hist, [op |-> "restore", g |-> 0, k |-> k, from |-> stored[k], path |-> "restore"])
  /\ UNCHANGED stored

\* a state crafted by hand (seed || customizer || counter) and restored: replaces generator 1
FarBlocks == {67108863, 67108864, 67108865, 1073741831,      \* 2^26 - 1, 2^26, 2^26 + 1 (byte offsets around 2^32), 2^30 + 7
              255, 256, 65535, 65536, 16777215, 16777216}     \* the bytes of the block counter roll over
EndBlocks == {-3, -2, -1}                                      \* 2^32 - 3 .. 2^32 - 1: states inside the last blocks of the stream
Craft(b, o) ==
  /\ Len(hist) = 0
  /\ gens' = <<Restored(b, o)>>
  /\ hist' = Append(hist, [op |-> "craft", g |-> 1, k |-> 0, from |-> Pos(b, o), path |-> "restore"])
  /\ UNCHANGED stored

Allowed(op, i, k) ==
  CASE Pattern = "free" -> TRUE
    [] Pattern = "far"  -> Len(hist) > 0
    [] OTHER -> CASE Len(hist) = 0 -> op = "read" /\ i = 1
                  [] Len(hist) = 1 -> op = "fork" /\ i = 1
                  [] Len(hist) = 2 -> op = "read" /\ i = 2 /\ k = 200
                  [] Len(hist) = 3 -> op = "read" /\ i = 1 /\ k = 200
                  [] OTHER -> FALSE

ReadSizes == IF Pattern = "offsets" /\ Len(hist) = 0 THEN 0..MaxPos ELSE Sizes \cup {200}

Next ==
  \/ /\ Len(hist) < MaxOps
     /\ \/ \E i \in 1..Len(gens), k \in ReadSizes : Allowed("read", i, k) /\ Read(i, k)
        \/ \E i \in 1..Len(gens) : Allowed("fork", i, 0) /\ Fork(i)
        \/ (Pattern \in {"free", "far"} /\ Len(hist) > 0 /\ \E i \in 1..Len(gens) : Keep(i))
        \/ (Pattern \in {"free", "far"} /\ \E k \in 1..Len(stored) : Resume(k))
        \/ (Pattern = "far" /\ \E b \in FarBlocks \cup EndBlocks, o \in {0, 1, 63} : Craft(b, o))
  \/ (Len(hist) = MaxOps /\ UNCHANGED vars)
Spec == Init /\ [][Next]_vars

(* ---------- properties ---------- *)
\* the cipher position always equals the byte counter: what Read returns starts where the previous output ended
SameStream == \A i \in 1..Len(gens) : gens[i].blk = gens[i].cb /\ gens[i].off = gens[i].co /\ gens[i].off \in 0..63
\* per generator, the returned intervals tile the stream from its starting position without gap or overlap
RECURSIVE Tiles(_, _, _)
Tiles(i, k, pos) ==   \* scanning hist from entry k: the next read of generator i must start at pos
  IF k > Len(hist) THEN pos = Pos(gens[i].cb, gens[i].co)
  ELSE IF hist[k].op = "read" /\ hist[k].g = i
       THEN hist[k].from = pos /\ Tiles(i, k + 1, Adv(pos.b, pos.o, hist[k].k))
       ELSE Tiles(i, k + 1, pos)
\* index in hist of the fork that created generator i (i >= 2): the (i-1)-th fork
Creates(e) == e.op \in {"fork", "restore"}
ForkIdx(i) == CHOOSE k \in 1..Len(hist) : Creates(hist[k]) /\ Cardinality({j \in 1..k : Creates(hist[j])}) = i - 1
RestoreResumes == \A i \in 1..Len(gens) :
                    IF i = 1 THEN (IF Len(hist) > 0 /\ hist[1].op = "craft" THEN Tiles(1, 2, hist[1].from) ELSE Tiles(1, 1, Pos(0, 0)))
                    ELSE Tiles(i, ForkIdx(i) + 1, hist[ForkIdx(i)].from)

Emit == Len(hist) = MaxOps => PrintT(<<"CASE", ToJson([hist |-> hist])>>)
=============================================================================
