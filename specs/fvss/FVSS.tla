------------------------------ MODULE FVSS ------------------------------
(***************************************************************************
 Plain Feldman VSS (dkg_feldmanvss.go) as seen by one non-dealer participant:
 every sequence of deliveries (broadcast / private, from the dealer or from
 another participant) up to length MaxLen, then End().  Handlers transcribed
 branch by branch from the repaired code.

 Abstract values: polynomial names.  Vec("ok",P) commits to P; a share
 Share("ok",P) is P(me+1).  Vec("badpoint","PX") is a vector whose first
 point is the valid commitment of the constant polynomial PX and whose
 second point does not decode (the witness of defect D3: before the repair the
 code went on with the decoded prefix, and the share PX(me+1) produced keys).
 ***************************************************************************)
EXTENDS Integers, Sequences, FiniteSets, TLC, Json

CONSTANTS MaxLen,    \* number of deliveries before End
          FixD3      \* TRUE: the code as repaired.  FALSE only in negative controls

NONE == "none"
Msg(ch, o, t, k, P) == [ch |-> ch, o |-> o, t |-> t, k |-> k, P |-> P]
\* ch: "b" broadcast / "p" private;  o: "dealer" / "other"
Polys == {"P1", "P2"}
Alphabet ==
     {Msg("b", o, "vec", "ok", P) : o \in {"dealer", "other"}, P \in Polys}
\cup {Msg("b", "dealer", "vec", k, NONE) : k \in {"badsize", "notG2"}}
\cup {Msg("b", "dealer", "vec", "badpoint", "PX")}
\* a well-formed vector of a polynomial PZ with a root at this participant's evaluation point: its public key share is the
\* identity and no well-formed share can match it (the share 0 is not encodable)
\cup {Msg("b", "dealer", "vec", "ok", "PZ")}
\cup {Msg("b", o, "junk", k, NONE) : o \in {"dealer", "other"}, k \in {"empty", "badtag"}}
\cup {Msg("p", o, "share", "ok", P) : o \in {"dealer", "other"}, P \in Polys}
\cup {Msg("p", "dealer", "share", "ok", "PX")}
\cup {Msg("p", "dealer", "share", "bad", NONE)}

VARIABLES vA, vOK, vP, xR, xP, validKey, ended, res, hist, cbs
vars == <<vA, vOK, vP, xR, xP, validKey, ended, res, hist, cbs>>
View == <<vA, vOK, vP, xR, xP, validKey, ended, res, Len(hist)>>

Init == /\ vA = FALSE /\ vOK = FALSE /\ vP = NONE /\ xR = FALSE /\ xP = NONE /\ validKey = FALSE
        /\ ended = FALSE /\ res = NONE /\ hist = <<>> /\ cbs = <<>>

VerifyShare(x, v) == x # NONE /\ x = v                   \* dkg_feldmanvss.go:521

\* receiveVerifVector (dkg_feldmanvss.go:447)
RecvVec(m) ==
  IF m.o # "dealer" THEN UNCHANGED <<vA, vOK, vP, validKey>> /\ cbs' = Append(cbs, {})                   \* :449
  ELSE IF vA THEN UNCHANGED <<vA, vOK, vP, validKey>> /\ cbs' = Append(cbs, {<<"flag", "dealer">>})      \* :453
  ELSE IF m.k \in {"badsize"} \/ (FixD3 /\ m.k \in {"badpoint", "notG2"})                                \* :459,470 (+ return)
       THEN vA' = TRUE /\ validKey' = FALSE /\ UNCHANGED <<vOK, vP>> /\ cbs' = Append(cbs, {<<"disq", "dealer">>})
  ELSE \* valid vector, or (pinned tree, FixD3 = FALSE) an invalid one whose decoded prefix is used
       /\ vA' = TRUE /\ vOK' = TRUE /\ vP' = m.P
       /\ validKey' = IF xR THEN VerifyShare(xP, m.P) ELSE validKey                                      \* :481
       /\ cbs' = Append(cbs, IF m.k = "ok" THEN {} ELSE {<<"disq", "dealer">>})

\* receiveShare (dkg_feldmanvss.go:397)
RecvShare(m) ==
  IF m.o # "dealer" THEN UNCHANGED <<xR, xP, validKey>> /\ cbs' = Append(cbs, {})                        \* :399
  ELSE IF xR THEN UNCHANGED <<xR, xP, validKey>> /\ cbs' = Append(cbs, {<<"flag", "dealer">>})            \* :403
  ELSE IF m.k # "ok"                                                                                       \* :413,424,434
       THEN xR' = TRUE /\ validKey' = FALSE /\ UNCHANGED xP /\ cbs' = Append(cbs, {<<"flag", "dealer">>})
  ELSE /\ xR' = TRUE /\ xP' = m.P
       /\ validKey' = IF vA THEN vOK /\ VerifyShare(m.P, vP) ELSE validKey                               \* :441 (repaired: y # nil)
       /\ cbs' = Append(cbs, {})

Deliver(m) ==
  /\ ~ended /\ Len(hist) < MaxLen
  /\ hist' = Append(hist, m)
  /\ IF m.ch = "b"
     THEN IF m.t = "vec" THEN RecvVec(m) /\ UNCHANGED <<xR, xP>>
          ELSE UNCHANGED <<vA, vOK, vP, xR, xP, validKey>> /\ cbs' = Append(cbs, {<<"disq", m.o>>})      \* :225,233
     ELSE RecvShare(m) /\ UNCHANGED <<vA, vOK, vP>>
  /\ UNCHANGED <<ended, res>>

End ==                                                                                                     \* :162
  /\ ~ended
  /\ ended' = TRUE
  /\ res' = IF validKey THEN "keys" ELSE "fail"
  /\ UNCHANGED <<vA, vOK, vP, xR, xP, validKey, hist, cbs>>

Next == (\E m \in Alphabet : Deliver(m)) \/ End \/ (ended /\ UNCHANGED vars)
Spec == Init /\ [][Next]_vars

(* ---------------- the property, as a function of the history only ---------------- *)
FirstFromDealer(ch, t) ==
  LET I == {i \in 1..Len(hist) : hist[i].ch = ch /\ hist[i].o = "dealer" /\ (t = "any" \/ hist[i].t = t)} IN
  IF I = {} THEN Msg(ch, "dealer", "none", NONE, NONE) ELSE hist[CHOOSE i \in I : \A k \in I : i <= k]

GoodDeal == LET v == FirstFromDealer("b", "vec")  s == FirstFromDealer("p", "any") IN
            /\ v.t = "vec" /\ v.k = "ok"
            /\ s.t = "share" /\ s.k = "ok"
            /\ s.P = v.P

NeverKeysOnBadDeal == ended => (res = "keys" => GoodDeal)         \* C08, plain Feldman VSS clause
KeysOnGoodDeal     == ended => (GoodDeal => res = "keys")         \* honest dealing is accepted whatever else arrives

\* B3 enumeration: every complete history with the expected End class and callbacks, one JSON line each
Emit == ended => PrintT(<<"CASE", ToJson([hist |-> hist, res |-> res, cbs |-> cbs])>>)
=============================================================================
