------------------------------ MODULE PureOps ------------------------------
(***************************************************************************
 Operations documented as read-only / thread-safe (C19) are pure functions of
 their arguments: the specification state is only the table of results
 observed so far, key = (operation, argument id).

 The log (ndjson, from harness/concx) has two phases per run:
   "seq"   results of every (operation, arguments) pair computed alone, before any goroutine starts;
   "conc"  results returned to goroutines running mixes of the same operations concurrently
           on SHARED keys and ONE shared KMAC hasher (ECDSA: per-goroutine hashers).
 Seq records an entry (recording the same key twice requires the same result: determinism);
 Conc is enabled only if the result equals the recorded one, and if the logged
 argument buffers were byte-identical before and after the call.
 A log is accepted iff every line is consumed.
 ***************************************************************************)
EXTENDS Integers, Sequences, TLC, Json

CONSTANT TraceFile
Log == ndJsonDeserialize(TraceFile)

VARIABLES l, table
vars == <<l, table>>
Ev == Log[l]
Init == l = 1 /\ table = <<>>          \* function key -> result

Reset == l <= Len(Log) /\ Ev.e = "reset" /\ table' = <<>> /\ l' = l + 1
SeqEv == /\ l <= Len(Log) /\ Ev.e = "seq"
         /\ (Ev.key \in DOMAIN table => table[Ev.key] = Ev.result)
         /\ table' = [k \in DOMAIN table \cup {Ev.key} |-> IF k = Ev.key THEN Ev.result ELSE table[k]]
         /\ l' = l + 1
ConcEv == /\ l <= Len(Log) /\ Ev.e = "conc"
         /\ Ev.key \in DOMAIN table /\ table[Ev.key] = Ev.result      \* each call returns what it returns when run alone
         /\ Ev.argsUnchanged                                         \* arguments are left unmodified
         /\ UNCHANGED table /\ l' = l + 1
Next == Reset \/ SeqEv \/ ConcEv
Spec == Init /\ [][Next]_vars

Accepted == LET d == TLCGet("stats").diameter IN
            /\ PrintT(<<"TRACE_PREFIX", d - 1, Len(Log)>>)
            /\ d - 1 = Len(Log)
=============================================================================
