------------------------------ MODULE ECDSAVerify ------------------------------
(***************************************************************************
 ECDSA verification on P-256 / secp256k1 (ecdsa.go:84-198) as a staged decision
 procedure over classes of inputs, against its definition (C11):
   Verify(sig, msg, hasher) = TRUE <=> sig is 64 bytes r||s, 1 <= r, s < n, and (r, s) satisfies the ECDSA
   equation for the leftmost 256 bits of the hasher output;
   exactly the signatures produced by Sign and their (r, n-s) twins among the classes below.
 SignatureFormatCheck = FALSE implies Verify = FALSE.
 ***************************************************************************)
EXTENDS Integers, FiniteSets, TLC, Json

Curves  == {"P-256", "secp256k1"}
Hashers == {"SHA2_256", "SHA2_384", "SHA3_256", "SHA3_384", "Keccak_256", "KMAC128-32", "KMAC128-64", "KMAC128-31", "KMAC128-16", "nil"}
\* what the candidate is, relative to a signature (r, s) produced by Sign for the verifier's key and message
SigClasses == {"signed", "twin", "r=0", "s=0", "r=n", "s=n", "r=n+1", "s=n+1", "r=max", "s=max", "swapped", "otherkey", "othermsg",
               "bitflip-r", "bitflip-s", "len0", "len63", "len65", "len128"}

InRange(sc)  == sc \notin {"r=0", "s=0", "r=n", "s=n", "r=n+1", "s=n+1", "r=max", "s=max"}
RightLen(sc) == sc \notin {"len0", "len63", "len65", "len128"}
Equation(sc) == sc \in {"signed", "twin"}                 \* decided by construction of the class
HasherSize(h) == CASE h = "KMAC128-31" -> 31 [] h = "KMAC128-16" -> 16 [] h = "nil" -> 0 [] h \in {"SHA2_384", "SHA3_384"} -> 48
                   [] h = "KMAC128-64" -> 64 [] OTHER -> 32

VARIABLES cv, hs, sc, pc, verdict
vars == <<cv, hs, sc, pc, verdict>>
Init == cv \in Curves /\ hs \in Hashers /\ sc \in SigClasses /\ pc = "hasher" /\ verdict = "pending"
Done(v) == pc' = "done" /\ verdict' = v /\ UNCHANGED <<cv, hs, sc>>
Goto(p) == pc' = p /\ UNCHANGED <<cv, hs, sc, verdict>>

StageHasher == pc = "hasher" /\ (IF hs = "nil" THEN Done("err:nilHasher")                        \* ecdsa.go:154
                                  ELSE IF HasherSize(hs) < 32 THEN Done("err:hasherSize") ELSE Goto("length"))
StageLength == pc = "length" /\ (IF ~RightLen(sc) THEN Done("false") ELSE Goto("verify"))        \* :129
\* crypto/ecdsa.Verify: range check of r, s, then the equation
StageVerify == pc = "verify" /\ (IF ~InRange(sc) THEN Done("false") ELSE IF Equation(sc) THEN Done("true") ELSE Done("false"))
Next == StageHasher \/ StageLength \/ StageVerify \/ (pc = "done" /\ UNCHANGED vars)
Spec == Init /\ [][Next]_vars

Definition == IF hs = "nil" THEN "err:nilHasher" ELSE IF HasherSize(hs) < 32 THEN "err:hasherSize"
              ELSE IF RightLen(sc) /\ InRange(sc) /\ Equation(sc) THEN "true" ELSE "false"
FormatCheck == RightLen(sc) /\ InRange(sc)                 \* SignatureFormatCheck (:174-198)

DecidesDefinition   == pc = "done" => verdict = Definition
FormatCheckImplied  == (pc = "done" /\ verdict = "true") => FormatCheck
Emit == pc = "done" => PrintT(<<"CASE", ToJson([curve |-> cv, hasher |-> hs, sig |-> sc, expect |-> verdict, format |-> FormatCheck])>>)
=============================================================================
