------------------------------ MODULE APIMisuse ------------------------------
(***************************************************************************
 C09: every exported function that takes byte strings, lengths, indices or
 lists, called with every combination of argument classes.  The table gives
 for each call the documented outcome class:
    "ok"         the arguments are valid: the call must succeed
    "reject"     invalid input: a typed error (invalid inputs / invalid signature / nil hasher / hasher size /
                 not a BLS key / empty list / not enough shares / duplicated signer) or a false verdict
    "exception"  a documented exception (UintN(0), nil interface or callback arguments,
                 sizes whose documented cost is linear memory): anything may happen, not judged
 In every judged case the call must return (no panic, no abort, no memory error).
 Argument classes:  bytes  nil | empty | short (one byte less than nominal) | exact | long (one more) | huge (10 kB)
                    ints   relative to the valid range lo..hi:  min | neg | lo-1 | lo | hi | hi+1 | huge
                    algo   unknown(0) | bls | p256 | k1 | undefined(17) | negative(-1)
 ***************************************************************************)
EXTENDS Integers, Sequences, FiniteSets, TLC, Json

Bytes == {"nil", "empty", "short", "exact", "long", "huge"}
Ints  == {"min", "neg", "lo-1", "lo", "hi", "hi+1", "wrap", "huge"}        \* wrap: 256 + a valid value (out of range, congruent to a valid byte)
Algos == {"unknown", "bls", "p256", "k1", "undefined", "negative"}
Hashers == {"nil", "small", "ok", "big"}
Lists == {"nil", "empty", "one", "two", "many"}
KeyKinds == {"bls", "ecdsa"}

ValidAlgo(a) == a \in {"bls", "p256", "k1"}
ValidInt(i)  == i \in {"lo", "hi"}
C(fn, a, b, c, e) == [fn |-> fn, a |-> a, b |-> b, c |-> c, expect |-> e]
OkIf(p) == IF p THEN "ok" ELSE "reject"

Calls ==
     {C("DecodePrivateKey", al, b, "-", OkIf(ValidAlgo(al) /\ b = "exact")) : al \in Algos, b \in Bytes}
\cup {C("DecodePublicKey", al, b, "-", OkIf(ValidAlgo(al) /\ b = "exact")) : al \in Algos, b \in Bytes}
\cup {C("DecodePublicKeyCompressed", al, b, "-", OkIf(ValidAlgo(al) /\ b = "exact")) : al \in Algos, b \in Bytes}
\cup {C("GeneratePrivateKey", al, s, "-", OkIf(ValidAlgo(al) /\ s \in {"32", "256"})) : al \in Algos, s \in {"nil", "empty", "31", "32", "256", "257", "huge"}}
\cup {C("SignatureFormatCheck", al, b, "-", IF ValidAlgo(al) THEN "any" ELSE "reject") : al \in Algos, b \in Bytes}
\cup {C("AlgoString", al, "-", "-", "any") : al \in Algos}
\cup {C("HashAlgoString", al, "-", "-", "any") : al \in Algos}
\* signing and verification, per key kind
\cup {C("Sign", k, d, h, OkIf(h \in {"ok", "big"} /\ (k = "ecdsa" \/ h = "ok"))) : k \in KeyKinds, d \in {"nil", "empty", "exact", "huge"}, h \in Hashers}
\cup {C("Verify", k, s, h, IF h \in {"nil", "small"} \/ (k = "bls" /\ h = "big") THEN "reject" ELSE "any") : k \in KeyKinds, s \in Bytes, h \in Hashers}
\cup {C("BLSVerifyPOP", k, s, "-", IF k = "ecdsa" THEN "reject" ELSE "any") : k \in KeyKinds, s \in Bytes}
\cup {C("BLSGeneratePOP", k, "-", "-", OkIf(k = "bls")) : k \in KeyKinds}
\cup {C("SPOCKVerify", k, s1, s2, IF k = "ecdsa" THEN "reject" ELSE "any") : k \in KeyKinds, s1 \in Bytes, s2 \in Bytes}
\cup {C("SPOCKProve", k, d, h, OkIf(k = "bls" /\ h = "ok")) : k \in KeyKinds, d \in {"nil", "exact"}, h \in Hashers}
\* aggregation: list shapes x element classes
\cup {C("AggregateBLSSignatures", l, b, "-", OkIf(l \in {"one", "two", "many"} /\ b = "exact")) : l \in Lists, b \in Bytes}
\cup {C("AggregateBLSPublicKeys", l, k, "-", OkIf(l \in {"one", "two", "many"} /\ k = "bls")) : l \in Lists, k \in KeyKinds}
\cup {C("AggregateBLSPrivateKeys", l, k, "-", OkIf(l \in {"one", "two", "many"} /\ k = "bls")) : l \in Lists, k \in KeyKinds}
\cup {C("RemoveBLSPublicKeys", l, k, "-", OkIf(k = "bls")) : l \in Lists, k \in KeyKinds}
\cup {C("VerifyBLSSignatureOneMessage", l, s, h, IF l \in {"nil", "empty"} \/ h # "ok" THEN "reject" ELSE "any") : l \in Lists, s \in Bytes, h \in Hashers}
\cup {C("VerifyBLSSignatureManyMessages", l, s, m, "any-or-reject") : l \in Lists, s \in Bytes, m \in {"match", "fewer-messages", "fewer-hashers", "nil-hasher"}}
\cup {C("BatchVerifyBLSSignaturesOneMessage", l, s, m, "any-or-reject") : l \in Lists, s \in Bytes, m \in {"match", "fewer-signatures", "nil-hasher", "nil-signature"}}
\* threshold signatures
\cup {C("BLSThresholdKeyGen", n, t, s, OkIf(ValidInt(n) /\ ValidInt(t) /\ s = "32")) : n \in Ints, t \in Ints, s \in {"nil", "31", "32"}}
\cup {C("EnoughShares", t, n, "-", IF t \in {"min", "neg", "lo-1"} THEN "reject" ELSE "any") : t \in Ints, n \in Ints}
\cup {C("BLSReconstructThresholdSignature", cnt, sh, sg, "any-or-reject") :
        cnt \in {"none", "t", "t+1", "t+2", "t+3", "2t+2", "n"}, sh \in Bytes, sg \in {"ok", "dup", "neg", "n", "fewer", "nil"}}
\* reconstruction at the ends of the size range, with the first / last participants among the signers
\cup {C("BLSReconstructThresholdSignatureSize", n, who, sh, "any-or-reject") :
        n \in {"2", "3", "8", "9", "127", "128", "129", "253", "254"}, who \in {"first", "last", "both"}, sh \in {"exact", "short", "huge"}}
\cup {C("NewBLSThresholdSignatureInspector", t, l, "-", OkIf(ValidInt(t) /\ l \in {"two", "many"})) : t \in Ints, l \in Lists}
\cup {C("InspectorOp", op, i, b, "any-or-reject") :
        op \in {"TrustedAdd", "VerifyAndAdd", "VerifyShare", "HasShare", "ThresholdSignatureAfterAdds", "VerifyThresholdSignature"}, i \in Ints, b \in Bytes}
\* the participant variant (own index, own key), its operations, and the key kinds handed to both constructors
\cup {C("NewBLSThresholdSignatureParticipant", t, me, l, OkIf(ValidInt(t) /\ ValidInt(me) /\ l \in {"two", "many"})) : t \in Ints, me \in Ints, l \in Lists}
\cup {C("ThresholdConstructorKeys", grp, shr, own, OkIf(grp = "bls" /\ shr = "bls" /\ own \in {"match", "none"})) :
        grp \in KeyKinds, shr \in KeyKinds, own \in {"none", "match", "otherbls", "ecdsa"}}
\cup {C("ParticipantOp", op, i, b, "any-or-reject") :
        op \in {"TrustedAdd", "VerifyAndAdd", "VerifyShare", "HasShare", "ThresholdSignatureAfterAdds", "VerifyThresholdSignature", "SignShare"}, i \in Ints, b \in Bytes}
\* list shapes that are longer, not shorter, than the key list; foreign keys inside the lists
\cup {C("VerifyBLSSignatureManyMessages", l, s, m, "any-or-reject") : l \in Lists, s \in Bytes, m \in {"more-messages", "more-hashers", "fewer-keys", "ecdsa-key", "small-hasher"}}
\cup {C("BatchVerifyBLSSignaturesOneMessage", l, s, m, "any-or-reject") : l \in Lists, s \in Bytes, m \in {"more-signatures", "fewer-keys", "ecdsa-key", "small-hasher"}}
\cup {C("VerifyBLSSignatureOneMessageKeys", l, k, "-", IF k = "ecdsa" \/ l \in {"nil", "empty"} THEN "reject" ELSE "any") : l \in Lists, k \in KeyKinds}
\* remaining exported entry points that take byte strings or lists
\cup {C("SPOCKVerifyAgainstData", k, s, h, IF k = "ecdsa" \/ h # "ok" THEN "reject" ELSE "any") : k \in KeyKinds, s \in Bytes, h \in Hashers}
\cup {C("IsBLSSignatureIdentity", s, "-", "-", "any") : s \in Bytes}
\cup {C("SignatureAndHashHelpers", s, "-", "-", "any") : s \in Bytes}
\cup {C("KeyEquals", k1, k2, "-", "any") : k1 \in {"bls", "p256", "k1"}, k2 \in {"bls", "p256", "k1"}}
\cup {C("NewExpandMsgXOFKMAC128", tg, "-", "-", "ok") : tg \in {"empty", "short", "huge"}}
\cup {C("EncodePermutation", l, "-", "-", "any") : l \in {"nil", "empty", "perm", "notperm"}}
\cup {C("PRGRead", sz, "-", "-", "ok") : sz \in {"nil", "empty", "one", "64", "65", "big"}}
\* DKG: Start with every seed class, per protocol and role
\cup {C("DKGStart", p, role, sd, IF (role = "dealer" \/ p = "jf") /\ sd \in {"nil", "empty", "31"} THEN "reject" ELSE "any-or-reject") :
        p \in {"fvss", "qual", "jf"}, role \in {"dealer", "other"}, sd \in {"nil", "empty", "31", "32", "256", "huge"}}
\* DKG: floods of well-formed control messages, one for EVERY participant index (the dealer's and the receiver's own included)
\cup {C("DKGFlood", p, role, k, "any-or-reject") : p \in {"qual", "jf"}, role \in {"dealer", "other"},
        k \in {"answers-all", "complaints-all", "answers-then-complaints", "complaints-then-answers", "answers-all-before-vector"}}
\* DKG constructors; handlers with arbitrary messages are enumerated separately (DKGMessages below)
\cup {C("NewDKG", p, n, t, "any-or-reject") : p \in {"fvss", "qual", "jf"}, n \in Ints, t \in Ints}
\cup {C("NewDKGIndices", p, me, dl, OkIf(ValidInt(me) /\ (p = "jf" \/ ValidInt(dl)))) : p \in {"fvss", "qual", "jf"}, me \in Ints, dl \in Ints}
\* PRG and samplers
\cup {C("NewChacha20PRG", s, cu, "-", OkIf(s = "exact" /\ cu \in {"nil", "empty", "short", "exact"})) : s \in Bytes, cu \in Bytes}
\cup {C("RestoreChacha20PRG", s, "-", "-", OkIf(s = "exact")) : s \in Bytes}
\* a state of the right length with a forged byte counter: Restore returns (the keystream is only defined below 2^38 bytes: nothing is read there)
\cup {C("RestoreChacha20PRGCounter", cnt, "-", "-", "any") :
        cnt \in {"0", "63", "64", "65", "2^32-1", "2^32", "2^32+63", "2^38-65", "2^38-1", "2^38", "2^38+1", "2^44", "2^50", "2^63", "2^64-1"}}
\cup {C("UintN", n, "-", "-", IF n = "zero" THEN "exception" ELSE "ok") : n \in {"zero", "one", "two", "max"}}
\cup {C("Permutation", n, "-", "-", IF n = "huge" THEN "exception" ELSE OkIf(n \in {"zero", "one", "small"})) : n \in {"min", "neg", "zero", "one", "small", "huge"}}
\cup {C("SubPermutation", n, m, "-", IF n = "huge" THEN "exception" ELSE "any-or-reject") : n \in {"min", "neg", "zero", "one", "small", "huge"}, m \in {"min", "neg", "zero", "one", "small", "big"}}
\cup {C("Samples", n, m, f, IF f = "nilfunc" \/ n = "huge" THEN "exception" ELSE "any-or-reject") :
        n \in {"min", "neg", "zero", "one", "small"}, m \in {"min", "neg", "zero", "one", "small", "big"}, f \in {"func", "nilfunc"}}
\cup {C("Shuffle", n, f, "-", IF f = "nilfunc" THEN "exception" ELSE "any-or-reject") : n \in {"min", "neg", "zero", "one", "small"}, f \in {"func", "nilfunc"}}
\* hashers
\cup {C("NewKMAC_128", k, cu, o, IF o = "huge" THEN "exception" ELSE OkIf(k \in {"exact", "long", "huge"} /\ o \in {"zero", "one", "small"})) :
        k \in Bytes, cu \in {"nil", "empty", "huge"}, o \in {"min", "neg", "zero", "one", "small", "huge"}}
\cup {C("HasherOps", alg, d, "-", "ok") : alg \in {"SHA2_256", "SHA2_384", "SHA3_256", "SHA3_384", "Keccak_256", "KMAC128"}, d \in {"nil", "empty", "exact", "huge"}}

\* DKG message handlers: arbitrary tag, payload size class and origin at every phase
Tags   == {0, 1, 2, 3, 4, 255}
Sizes  == {"none", "1", "2", "3", "31", "32", "33", "34", "35", "vec-1", "vec", "vec+1", "huge"}   \* total message lengths; 2 = a complaint, 33 = a share, 34 = a complaint answer
Origs  == {-1, 0, 1, 2, 3, 256, 258, -255}      \* incl. out-of-range values congruent to an index modulo 256
Phases == {"new", "started", "timeout1", "timeout2", "ended",
           "restarted",       \* Start again after a failed End (C10 leaves reuse unspecified, C09 does not list it among the exceptions: no panic)
           "rerun"}           \* Start again after a complete, successful run
Roles  == {"other", "dealer"}                    \* the receiving instance is a plain participant / the dealer (who answers complaints)
DKGMessages == {[fn |-> "DKGMessage", a |-> p, b |-> ph, c |-> <<ch, tg, sz, o, rl>>, expect |-> "any-or-reject"] :
                  p \in {"fvss", "qual", "jf"}, ph \in Phases, ch \in {"b", "p"}, tg \in Tags, sz \in Sizes, o \in Origs, rl \in Roles}

VARIABLE call
Init == call \in Calls \cup DKGMessages
Next == UNCHANGED call
Spec == Init /\ [][Next]_call

WellFormed == call.expect \in {"ok", "reject", "any", "any-or-reject", "exception"}
Emit == PrintT(<<"CASE", ToJson(call)>>)
=============================================================================
