------------------------------ MODULE KeyGen ------------------------------
(***************************************************************************
 Key generation and the life cycle of key objects (C12).

 GeneratePrivateKey(algo, seed): accepted iff 32 <= |seed| <= 256 (common.go:37-38),
 the key is the documented derivation of the seed (a pure function: the harness
 recomputes it with its own HKDF), never zero, identical on every call.

 A private-key object has an origin (generated, decoded, aggregated) and a
 lazily computed, cached public key; PublicKey() may be called any number of times,
 on the object or on copies obtained by re-decoding its encoding.  In every state the
 public key is scalar * generator (PublicKeyIsScalarTimesGenerator is the obligation
 on the real code; in the model the cache can only ever hold that value).
 ***************************************************************************)
EXTENDS Integers, Sequences, FiniteSets, TLC, Json

CONSTANTS MaxSeed, MaxCalls

Algos == {"BLS", "P-256", "secp256k1"}
Accept(len) == len >= 32 /\ len <= 256

\* part 1: seed-length acceptance, every length
\* part 2: life cycle
Origins == {"generated", "decoded:1", "decoded:ord-1", "decoded:small", "decoded:leading-zero", "aggregated"}

VARIABLES job, cache, calls
vars == <<job, cache, calls>>
SeedJobs == {[kind |-> "seed", algo |-> a, len |-> l, origin |-> "-"] : a \in Algos, l \in 0..MaxSeed}
LifeJobs == {[kind |-> "life", algo |-> a, len |-> 0, origin |-> o] : a \in Algos, o \in Origins}
Init == job \in SeedJobs \cup {j \in LifeJobs : ~(j.origin = "aggregated" /\ j.algo # "BLS")} /\ cache = "empty" /\ calls = <<>>

\* PublicKey(): fills the cache on first use (bls.go:418-424, ecdsa.go:455-464)
CallPublicKey == job.kind = "life" /\ Len(calls) < MaxCalls /\ cache' = "scalar*G" /\ calls' = Append(calls, "PublicKey") /\ UNCHANGED job
\* re-decoding the encoding gives a fresh object with an empty cache and the same scalar
Redecode == job.kind = "life" /\ Len(calls) < MaxCalls /\ cache' = "empty" /\ calls' = Append(calls, "Redecode") /\ UNCHANGED job
Next == CallPublicKey \/ Redecode \/ (Len(calls) = MaxCalls /\ UNCHANGED vars) \/ (job.kind = "seed" /\ UNCHANGED vars)
Spec == Init /\ [][Next]_vars

CacheConsistent == cache \in {"empty", "scalar*G"}
CacheOnlyFills  == [][cache = "scalar*G" /\ calls' # calls /\ calls'[Len(calls')] = "PublicKey" => cache' = "scalar*G"]_vars

Emit == (job.kind = "seed" \/ Len(calls) = MaxCalls) =>
          PrintT(<<"CASE", ToJson([job |-> job, accept |-> Accept(job.len), calls |-> calls])>>)
=============================================================================
