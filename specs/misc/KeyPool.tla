------------------------------ MODULE KeyPool ------------------------------
(***************************************************************************
 Life cycle of a POOL of BLS private-key objects with lazily cached public
 keys (C12, second sentence: "the public key of every private key, whether
 generated, decoded or aggregated, equals the private scalar times the group
 generator and is cached consistently").

 A private-key object carries a scalar - here a formal linear combination of
 the base scalars a (a generated key) and b (a decoded key) - and a cache that
 is either empty or holds a public-key value (bls.go: prKeyBLSBLS12381.pk).
   PK(i)        PublicKey(): computes scalar*g2 on first use and keeps it   (bls.go:418-424)
   Redecode(i)  DecodePrivateKey(Encode()): a fresh object, same scalar, empty cache
   PKAll        PublicKey() on every object of the pool (one step, so that the
                "all inputs cached" situations are reached by short behaviours)
   Agg(s)       AggregateBLSPrivateKeys over the list s of 2..3 objects, repeats
                allowed (the same object twice, a key next to a sum that contains
                it): a fresh object with the sum of the scalars; in the design its
                cache is empty whatever the caches of the inputs are
                                                                              (bls_multisig.go:95-125)
 The pool starts with the two base objects with empty caches.  Every behaviour
 of at most MaxLen actions is printed; the harness executes it on real objects
 and then asks every object of the pool for its public key, which must encode
 to (reference) scalar * generator.

 StaleBug = TRUE is the negative control: an aggregation "optimised" to
 pre-fill the new cache from whichever input caches happen to be filled
 violates CacheIsScalarTimesG.
 ***************************************************************************)
EXTENDS Integers, Sequences, FiniteSets, TLC, Json

CONSTANTS MaxLen,     \* number of actions
          MaxPool,    \* objects in the pool at most
          StaleBug    \* FALSE

Base == {"a", "b"}
Zero == [x \in Base |-> 0]
Unit(x) == [y \in Base |-> IF x = y THEN 1 ELSE 0]
Plus(u, v) == [x \in Base |-> u[x] + v[x]]
NONE == [x \in Base |-> -1]                   \* empty cache

VARIABLES pool,   \* sequence of [val, cache]
          hist
vars == <<pool, hist>>

Init == /\ pool = <<[val |-> Unit("a"), cache |-> NONE], [val |-> Unit("b"), cache |-> NONE]>>
        /\ hist = <<>>

RECURSIVE SumSeq(_, _)
SumSeq(s, f) == IF s = <<>> THEN Zero ELSE Plus(f[Head(s)], SumSeq(Tail(s), f))
\* lists of 2..3 pool indices, non-decreasing (the order of the list is immaterial: the harness permutes it)
Lists(n) == {<<i, j>> : i \in 1..n, j \in 1..n} \cup {<<i, j, k>> : i \in 1..n, j \in 1..n, k \in 1..n}
NonDecreasing(s) == \A k \in 1..(Len(s) - 1) : s[k] <= s[k + 1]

PK(i) == /\ pool' = [pool EXCEPT ![i].cache = IF @ = NONE THEN pool[i].val ELSE @]
         /\ hist' = Append(hist, [op |-> "PK", i |-> i, s |-> <<>>])

Redecode(i) == /\ Len(pool) < MaxPool
               /\ pool' = Append(pool, [val |-> pool[i].val, cache |-> NONE])
               /\ hist' = Append(hist, [op |-> "Redecode", i |-> i, s |-> <<>>])

PKAll == /\ \E i \in 1..Len(pool) : pool[i].cache = NONE
         /\ pool' = [i \in 1..Len(pool) |-> [pool[i] EXCEPT !.cache = IF @ = NONE THEN pool[i].val ELSE @]]
         /\ hist' = Append(hist, [op |-> "PKAll", i |-> 0, s |-> <<>>])

Agg(s) == /\ Len(pool) < MaxPool
          /\ LET vals   == [i \in 1..Len(pool) |-> pool[i].val]
                 sum    == SumSeq(s, vals)
                 filled == SelectSeq(s, LAMBDA i : pool[i].cache # NONE)
                 stale  == IF StaleBug /\ filled # <<>> THEN SumSeq(filled, [i \in 1..Len(pool) |-> pool[i].cache]) ELSE NONE IN
             pool' = Append(pool, [val |-> sum, cache |-> stale])
          /\ hist' = Append(hist, [op |-> "Agg", i |-> 0, s |-> s])

Next == \/ /\ Len(hist) < MaxLen
           /\ \/ \E i \in 1..Len(pool) : PK(i) \/ Redecode(i)
              \/ PKAll
              \/ \E s \in Lists(Len(pool)) : NonDecreasing(s) /\ Agg(s)
        \/ (Len(hist) = MaxLen /\ UNCHANGED vars)
Spec == Init /\ [][Next]_vars

\* C12: a filled cache holds scalar * generator, and filling is the only change a cache ever sees
CacheIsScalarTimesG == \A i \in 1..Len(pool) : pool[i].cache \in {NONE, pool[i].val}
CacheOnlyFills      == [][\A i \in 1..Len(pool) : pool[i].cache # NONE => pool'[i].cache = pool[i].cache]_vars
ScalarsNeverChange  == [][\A i \in 1..Len(pool) : pool'[i].val = pool[i].val]_vars

Emit == Len(hist) = MaxLen =>
          PrintT(<<"CASE", ToJson([job |-> [kind |-> "pool", algo |-> "BLS", len |-> 0, origin |-> "-"], accept |-> TRUE, calls |-> <<>>,
                                   hist |-> hist, vals |-> [i \in 1..Len(pool) |-> <<pool[i].val["a"], pool[i].val["b"]>>]])>>)
=============================================================================
