------------------------------ MODULE KeyPool ------------------------------
(***************************************************************************
 Life cycle of a POOL of BLS private-key objects with lazily cached public
 keys (C12, second sentence: "the public key of every private key, whether
 generated, decoded or aggregated, equals the private scalar times the group
 generator and is cached consistently").

 A private-key object carries a scalar - here a formal linear combination of
 the base scalars a (a generated key) and b (a decoded key) - and a cache that
 is either empty or holds a public-key value (bls.go: prKeyBLSBLS12381.pk).
   PK(i)        PublicKey(): computes scalar*g2 on first use and keeps it   (bls.go:418-424)
   Redecode(i)  DecodePrivateKey(Encode()): a fresh object, same scalar, empty cache
   Agg(S)       AggregateBLSPrivateKeys over the objects S (as a list in index
                order): a fresh object with the sum of the scalars; in the
                design its cache is empty whatever the caches of the inputs are
                                                                              (bls_multisig.go:95-125)
 The pool starts with the two base objects with empty caches.  Every behaviour
 of at most MaxLen actions is printed; the harness executes it on real objects
 and then asks every object of the pool for its public key, which must encode
 to (reference) scalar * generator.

 StaleBug = TRUE is the negative control: an aggregation "optimised" to
 pre-fill the new cache from whichever input caches happen to be filled
 violates CacheIsScalarTimesG.
 ***************************************************************************)
EXTENDS Integers, Sequences, FiniteSets, TLC, Json

CONSTANTS MaxLen,     \* number of actions
          MaxPool,    \* objects in the pool at most
          StaleBug    \* FALSE

Base == {"a", "b"}
Zero == [x \in Base |-> 0]
Unit(x) == [y \in Base |-> IF x = y THEN 1 ELSE 0]
Plus(u, v) == [x \in Base |-> u[x] + v[x]]
NONE == [x \in Base |-> -1]                   \* empty cache

VARIABLES pool,   \* sequence of [val, cache]
          hist
vars == <<pool, hist>>

Init == /\ pool = <<[val |-> Unit("a"), cache |-> NONE], [val |-> Unit("b"), cache |-> NONE]>>
        /\ hist = <<>>

RECURSIVE SumOver(_, _)
SumOver(S, f) == IF S = {} THEN Zero ELSE LET i == CHOOSE j \in S : TRUE IN Plus(f[i], SumOver(S \ {i}, f))

PK(i) == /\ pool' = [pool EXCEPT ![i].cache = IF @ = NONE THEN pool[i].val ELSE @]
         /\ hist' = Append(hist, [op |-> "PK", i |-> i, s |-> {}])

Redecode(i) == /\ Len(pool) < MaxPool
               /\ pool' = Append(pool, [val |-> pool[i].val, cache |-> NONE])
               /\ hist' = Append(hist, [op |-> "Redecode", i |-> i, s |-> {}])

Agg(S) == /\ Len(pool) < MaxPool
          /\ LET sum    == SumOver(S, [i \in S |-> pool[i].val])
                 filled == {i \in S : pool[i].cache # NONE}
                 stale  == IF StaleBug /\ filled # {} THEN SumOver(filled, [i \in filled |-> pool[i].cache]) ELSE NONE IN
             pool' = Append(pool, [val |-> sum, cache |-> stale])
          /\ hist' = Append(hist, [op |-> "Agg", i |-> 0, s |-> S])

Next == \/ /\ Len(hist) < MaxLen
           /\ \/ \E i \in 1..Len(pool) : PK(i) \/ Redecode(i)
              \/ \E S \in SUBSET (1..Len(pool)) : Cardinality(S) \in 2..3 /\ Agg(S)
        \/ (Len(hist) = MaxLen /\ UNCHANGED vars)
Spec == Init /\ [][Next]_vars

\* C12: a filled cache holds scalar * generator, and filling is the only change a cache ever sees
CacheIsScalarTimesG == \A i \in 1..Len(pool) : pool[i].cache \in {NONE, pool[i].val}
CacheOnlyFills      == [][\A i \in 1..Len(pool) : pool[i].cache # NONE => pool'[i].cache = pool[i].cache]_vars
ScalarsNeverChange  == [][\A i \in 1..Len(pool) : pool'[i].val = pool[i].val]_vars

Emit == Len(hist) = MaxLen =>
          PrintT(<<"CASE", ToJson([job |-> [kind |-> "pool", algo |-> "BLS", len |-> 0, origin |-> "-"], accept |-> TRUE, calls |-> <<>>,
                                   hist |-> hist, vals |-> [i \in 1..Len(pool) |-> <<pool[i].val["a"], pool[i].val["b"]>>]])>>)
=============================================================================
