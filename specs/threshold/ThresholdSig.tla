---------------------------- MODULE ThresholdSig ----------------------------
(***************************************************************************
 Sequential semantics of the stateful threshold-signature inspector /
 participant (bls_thresholdsign.go:217-471), one operator per public method.

 A signature share offered for signer i is abstracted by its kind:
   "v"  the valid share of signer i
   "i"  a decodable G1 point that is not signer i's share (another signer's share, a random point)
   "g"  a decodable curve point outside G1 (s + T)
   "m"  48 bytes that do not decode (bad header, x >= p, ...)
 State: the retained shares (signer -> kind) and whether the threshold
 signature has been reconstructed and cached.
 ***************************************************************************)
EXTENDS Integers, FiniteSets, Sequences, TLC

CONSTANTS N, T

Idx   == 0..(N-1)
Kinds == {"v", "i", "g", "m"}

InitSt == [shares |-> <<>>, cached |-> FALSE]        \* shares: function with domain \subseteq Idx
Has(st, i)  == i \in DOMAIN st.shares
Enough(st)  == Cardinality(DOMAIN st.shares) = T + 1       \* enoughShares(): len(shares) == t+1   (:282)
With(st, i, k) == [st EXCEPT !.shares = [j \in DOMAIN st.shares \cup {i} |-> IF j = i THEN k ELSE st.shares[j]]]
Bool(b) == IF b THEN "true" ELSE "false"
Ret(st, r) == [st |-> st, ret |-> r]

Op(name, i, k) == [name |-> name, i |-> i, k |-> k]

ApplyOp(op, st) ==
  CASE op.name = "TrustedAdd" ->                                          \* :328
         IF op.i \notin Idx THEN Ret(st, "II")
         ELSE IF Has(st, op.i) THEN Ret(st, "dup")
         ELSE IF Enough(st) THEN Ret(st, "true")
         ELSE LET s2 == With(st, op.i, op.k) IN Ret(s2, Bool(Enough(s2)))
    [] op.name = "VerifyAndAdd" ->                                        \* :363
         IF op.i \notin Idx THEN Ret(st, "II")
         ELSE IF Has(st, op.i) THEN Ret(st, "dup")
         ELSE IF op.k = "v" /\ ~Enough(st)
              THEN LET s2 == With(st, op.i, "v") IN Ret(s2, "true," \o Bool(Enough(s2)))
              ELSE Ret(st, Bool(op.k = "v") \o "," \o Bool(Enough(st)))
    [] op.name = "HasShare" ->                                            \* :294
         IF op.i \notin Idx THEN Ret(st, "II") ELSE Ret(st, Bool(Has(st, op.i)))
    [] op.name = "EnoughShares" -> Ret(st, Bool(Enough(st)))              \* :274
    [] op.name = "VerifyShare" ->                                         \* :246  (pure)
         IF op.i \notin Idx THEN Ret(st, "II") ELSE Ret(st, Bool(op.k = "v"))
    [] op.name = "VerifyThresholdSignature" -> Ret(st, Bool(op.k = "ts")) \* :263  (pure) k: "ts" the group signature | "other"
    [] op.name = "ThresholdSignature" ->                                  \* :406, :434
         IF st.cached THEN Ret(st, "sig")
         ELSE IF ~Enough(st) THEN Ret(st, "notEnough")
         ELSE IF \E j \in DOMAIN st.shares : st.shares[j] = "m" THEN Ret(st, "invalidSig")
         ELSE IF \E j \in DOMAIN st.shares : st.shares[j] # "v" THEN Ret(st, "II")     \* post-verification :461
         ELSE Ret([st EXCEPT !.cached = TRUE], "sig")

Ops == {Op("TrustedAdd", i, k) : i \in Idx \cup {-1, N}, k \in Kinds}
  \cup {Op("VerifyAndAdd", i, k) : i \in Idx \cup {-1, N}, k \in Kinds}
  \cup {Op("HasShare", i, "-") : i \in Idx \cup {-1, N}}
  \cup {Op("VerifyShare", i, k) : i \in Idx \cup {N}, k \in {"v", "i"}}
  \cup {Op("EnoughShares", 0, "-"), Op("ThresholdSignature", 0, "-"),
        Op("VerifyThresholdSignature", 0, "ts"), Op("VerifyThresholdSignature", 0, "other")}
=============================================================================
