---------------------------- MODULE ThresholdSigInd ----------------------------
(* Apalache: Inv of ThresholdSigAbs is an inductive invariant of the share pool for every group size 2..MaxN and every
   threshold 1..n-1 (the constants are symbolic), and every step satisfies the action properties.
     apalache-mc check --cinit=CInit --init=Init    --inv=IndInv    --length=0 ThresholdSigInd.tla     (initialisation)
     apalache-mc check --cinit=CInit --init=IndInit --inv=IndInv    --length=1 ThresholdSigInd.tla     (consecution)
     apalache-mc check --cinit=CInit --init=IndInit --inv=StepProps --length=1 ThresholdSigInd.tla     (action properties) *)
EXTENDS ThresholdSigAbs

CONSTANTS
  \* @type: Int;
  N,
  \* @type: Int;
  T

VARIABLES
  \* @type: Set(Int);
  held,
  \* @type: Set(Int);
  bad,
  \* @type: Bool;
  cached

MaxN == 12
CInit == N \in 2..MaxN /\ T \in 1..(MaxN - 1) /\ T < N

Init == held = {} /\ bad = {} /\ cached = FALSE
IndInit == /\ held \in SUBSET (0..(MaxN - 1)) /\ bad \in SUBSET (0..(MaxN - 1)) /\ cached \in BOOLEAN
           /\ Inv(N, T, held, bad, cached)
Next == R(N, T, held, bad, cached, held', bad', cached')
IndInv == Inv(N, T, held, bad, cached)
StepProps == Monotone(T, held, bad, cached, held', bad', cached')
=============================================================================
