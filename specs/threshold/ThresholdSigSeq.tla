---------------------------- MODULE ThresholdSigSeq ----------------------------
(* every operation sequence of length MaxLen on one inspector, with the prescribed return of every call (binding B1),
   and the object invariants of properties C06 / C18 *)
EXTENDS ThresholdSig, Json

CONSTANTS MaxLen, Alphabet   \* Alphabet: "full" | "adds" | "core"

VARIABLES st, hist
vars == <<st, hist>>

Core == {Op("TrustedAdd", i, k) : i \in {0, 1}, k \in {"v", "i", "m"}}
   \cup {Op("VerifyAndAdd", i, k) : i \in {1, 2}, k \in {"v", "i"}}
   \cup {Op("ThresholdSignature", 0, "-"), Op("EnoughShares", 0, "-"), Op("HasShare", 0, "-")}

Alpha == IF Alphabet = "full" THEN Ops
         ELSE IF Alphabet = "core" THEN Core
         ELSE {o \in Ops : o.name \in {"TrustedAdd", "VerifyAndAdd", "ThresholdSignature", "EnoughShares"} /\ o.i \in Idx}

Init == st = InitSt /\ hist = <<>>
Step(op) == /\ Len(hist) < MaxLen
            /\ LET r == ApplyOp(op, st) IN st' = r.st /\ hist' = Append(hist, [op |-> op, ret |-> r.ret])
Next == (\E op \in Alpha : Step(op)) \/ (Len(hist) = MaxLen /\ UNCHANGED vars)
Spec == Init /\ [][Next]_vars

AtMostTPlus1     == Cardinality(DOMAIN st.shares) <= T + 1
CachedOnlyValid  == st.cached => Enough(st) /\ \A j \in DOMAIN st.shares : st.shares[j] = "v"
EnoughMonotone   == [][Enough(st) => Enough(st')]_vars
SharesOnlyGrow   == [][\A j \in DOMAIN st.shares : j \in DOMAIN st'.shares /\ st'.shares[j] = st.shares[j]]_vars
CacheStable      == [][st.cached => st'.cached]_vars
\* the object never hands out a signature unless every retained share is valid
NeverBadSignature == \A k \in 1..Len(hist) : (hist[k].op.name = "ThresholdSignature" /\ hist[k].ret = "sig") =>
                        \A j \in DOMAIN st.shares : st.shares[j] = "v"

\* every step of this implementation-shaped specification is a step of the abstract share pool (ThresholdSigAbs.tla), whose
\* invariant Apalache proves inductive for every group size up to 12 and every threshold (ThresholdSigInd.tla)
Abs == INSTANCE ThresholdSigAbs
Held(s) == DOMAIN s.shares
Bad(s)  == {j \in DOMAIN s.shares : s.shares[j] # "v"}
RefinesAbs == [][Abs!R(N, T, Held(st), Bad(st), st.cached, Held(st'), Bad(st'), st'.cached)]_vars
AbsInv     == Abs!Inv(N, T, Held(st), Bad(st), st.cached)

Emit == Len(hist) = MaxLen => PrintT(<<"CASE", ToJson([hist |-> hist])>>)
=============================================================================
