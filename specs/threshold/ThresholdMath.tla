---------------------------- MODULE ThresholdMath ----------------------------
(***************************************************************************
 The Lagrange-coefficient computation of bls_thresholdsign_core.c:29-83
 (Fr_lagrange_coeff_at_zero), transcribed with its batching of 8 indices
 per 64-bit limb and its sign tracking, over a small prime field F_Q
 (Q = 257 > 254, so all signer indices stay distinct).  The algorithm does
 not depend on the field, so checking the transcription over F_Q for the
 index sequences below checks the batching / sign logic itself.

 Reconstruction from shares s_k = P(ind[k]) is Sum_k Coeff(k) * s_k.  It equals
 P(0) for EVERY polynomial of degree <= t iff, for every monomial x^e,
      Sum_k Coeff(k) * ind[k]^e = [e = 0]          (0 <= e <= t)
 which is the invariant Interpolates.  Index sequences: every ordered
 (t+1)-subset of 1..n for small n (every subset, every order), and structured
 long sequences straddling the limb batches (sizes 7,8,9,15,16,17,...,
 indices up to 254, ascending / descending / interleaved).
 ***************************************************************************)
EXTENDS Integers, Sequences, FiniteSets, TLC, Json

CONSTANTS Q,         \* 257
          MaxN,      \* exhaustive part: all ordered (t+1)-subsets of 1..n, n <= MaxN
          Sizes,     \* structured part: the values of t+1
          Mutation   \* "none"; negative controls: "nosign" (sign of the denominator not tracked), "batch9" (9 indices per limb)

Loops == IF Mutation = "batch9" THEN 9 ELSE 64 \div 8   \* `loops`: indices multiplied into one limb

RECURSIVE PowMod(_, _)
PowMod(b, e) == IF e = 0 THEN 1 ELSE (b * PowMod(b, e - 1)) % Q
InvMod(a) == CHOOSE x \in 1..(Q-1) : (x * a) % Q = 1
Min(a, b) == IF a < b THEN a ELSE b

\* one limb: positions j \in from..to of ind (1-based), skipping position i.  Returns [num, den, flips, factors]
RECURSIVE Limb(_, _, _, _, _)
Limb(ind, i, j, to, acc) ==
  IF j > to THEN acc
  ELSE IF j = i THEN Limb(ind, i, j + 1, to, acc)
  ELSE LET lower == ind[j] < ind[i]
           d     == IF lower THEN ind[i] - ind[j] ELSE ind[j] - ind[i] IN
       Limb(ind, i, j + 1, to, [num |-> (acc.num * ind[j]) % Q, den |-> (acc.den * d) % Q,
                                flips |-> acc.flips + (IF lower /\ Mutation # "nosign" THEN 1 ELSE 0), factors |-> acc.factors + 1])

\* the while loop over the batches: positions 1..Len(ind) in groups of `Loops`
RECURSIVE Batches(_, _, _, _)
Batches(ind, i, j, acc) ==
  IF j > Len(ind) THEN acc
  ELSE LET to == Min(Len(ind), j + Loops - 1)
           l  == Limb(ind, i, j, to, [num |-> 1, den |-> 1, flips |-> 0, factors |-> 0]) IN
       Batches(ind, i, to + 1, [num |-> (acc.num * l.num) % Q, den |-> (acc.den * l.den) % Q,
                                flips |-> acc.flips + l.flips,
                                maxf |-> IF l.factors > acc.maxf THEN l.factors ELSE acc.maxf])

Coeff(ind, i) ==
  LET b   == Batches(ind, i, 1, [num |-> 1, den |-> 1, flips |-> 0, maxf |-> 0])
      den == IF b.flips % 2 = 1 THEN (Q - b.den) % Q ELSE b.den IN
  (b.num * InvMod(den)) % Q

RECURSIVE SumTo(_, _, _)
SumTo(ind, e, k) == IF k = 0 THEN 0 ELSE (SumTo(ind, e, k - 1) + Coeff(ind, k) * PowMod(ind[k], e)) % Q

Interp(ind) == [e \in 0..(Len(ind) - 1) |-> SumTo(ind, e, Len(ind))]

(* ---------- index sequences ---------- *)
RECURSIVE Inj(_, _)
\* all injective sequences of length k over S
Inj(S, k) == IF k = 0 THEN {<<>>} ELSE UNION {{Append(s, x) : x \in S \ {s[j] : j \in 1..Len(s)}} : s \in Inj(S, k - 1)}

Small == UNION {UNION {{[n |-> n, ind |-> s] : s \in Inj(1..n, k)} : k \in 2..n} : n \in 2..MaxN}

Asc(k)   == [j \in 1..k |-> j]
Desc(k)  == [j \in 1..k |-> 255 - j]
Mixed(k) == [j \in 1..k |-> IF j % 2 = 1 THEN (j + 1) \div 2 ELSE 255 - (j \div 2)]
Scat(k)  == [j \in 1..k |-> ((j * 37 + 11) % 254) + 1]
Structured == UNION {{[n |-> 254, ind |-> f] : f \in {Asc(k), Desc(k), Mixed(k), Scat(k)}} : k \in Sizes}

VARIABLE c
Init == c \in Small \cup Structured
Next == UNCHANGED c
Spec == Init /\ [][Next]_c

Interpolates == \A e \in 0..(Len(c.ind) - 1) : Interp(c.ind)[e] = (IF e = 0 THEN 1 ELSE 0)
\* every limb multiplies at most 8 indices below 2^8: the 64-bit products cannot overflow
LimbFits == \A i \in 1..Len(c.ind) :
              Batches(c.ind, i, 1, [num |-> 1, den |-> 1, flips |-> 0, maxf |-> 0]).maxf * 8 <= 64
Emit == PrintT(<<"CASE", ToJson(c)>>)
=============================================================================
