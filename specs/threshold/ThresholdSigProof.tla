---------------------------- MODULE ThresholdSigProof ----------------------------
(* TLAPS: the invariant of the abstract share pool (ThresholdSigAbs.tla) is inductive for EVERY group size N and threshold T
   (natural numbers), and every step satisfies the action properties.  Checked with `tlapm ThresholdSigProof.tla`. *)
EXTENDS ThresholdSigAbs, FiniteSetTheorems, TLAPS

CONSTANTS N, T
ASSUME NT == N \in Nat /\ T \in Nat

VARIABLES held, bad, cached
vars == <<held, bad, cached>>

Init == held = {} /\ bad = {} /\ cached = FALSE
Next == R(N, T, held, bad, cached, held', bad', cached')
Spec == Init /\ [][Next]_vars
IndInv == Inv(N, T, held, bad, cached)

LEMMA HeldFinite == ASSUME NEW h, h \subseteq 0..(N - 1) PROVE IsFiniteSet(h) /\ Cardinality(h) \in Nat
  <1>1. IsFiniteSet(0..(N - 1)) BY NT, FS_Interval
  <1>2. IsFiniteSet(h) BY <1>1, FS_Subset
  <1>. QED BY <1>2, FS_CardinalityType

THEOREM InitInv == Init => IndInv
  <1>. SUFFICES ASSUME Init PROVE IndInv OBVIOUS
  <1>1. Cardinality({}) = 0 BY FS_EmptySet
  <1>. QED BY <1>1, NT DEF Init, IndInv, Inv, Enough

THEOREM Consecution == IndInv /\ [Next]_vars => IndInv'
  <1>. SUFFICES ASSUME IndInv, [Next]_vars PROVE IndInv' OBVIOUS
  <1>0. IsFiniteSet(held) /\ Cardinality(held) \in Nat BY HeldFinite DEF IndInv, Inv
  <1>1. CASE AddTrusted(N, T, held, bad, cached, held', bad', cached')
    <2>1. PICK i \in 0..(N - 1) : i \notin held /\ ~Enough(T, held) /\ held' = held \cup {i} /\ cached' = cached
          /\ (bad' = bad \/ bad' = bad \cup {i})
      BY <1>1 DEF AddTrusted
    <2>2. Cardinality(held') = Cardinality(held) + 1 BY <1>0, <2>1, FS_AddElement
    <2>3. Cardinality(held) <= T BY <1>0, <2>1, NT DEF IndInv, Inv, Enough
    <2>4. Cardinality(held') <= T + 1 BY <1>0, <2>2, <2>3, NT
    <2>5. ~cached BY <2>1 DEF IndInv, Inv
    <2>. QED BY <2>1, <2>4, <2>5 DEF IndInv, Inv
  <1>2. CASE AddVerified(N, T, held, bad, cached, held', bad', cached')
    <2>1. PICK i \in 0..(N - 1) : i \notin held /\ ~Enough(T, held) /\ held' = held \cup {i} /\ cached' = cached /\ bad' = bad
      BY <1>2 DEF AddVerified
    <2>2. Cardinality(held') = Cardinality(held) + 1 BY <1>0, <2>1, FS_AddElement
    <2>3. Cardinality(held) <= T BY <1>0, <2>1, NT DEF IndInv, Inv, Enough
    <2>4. Cardinality(held') <= T + 1 BY <1>0, <2>2, <2>3, NT
    <2>5. ~cached BY <2>1 DEF IndInv, Inv
    <2>. QED BY <2>1, <2>4, <2>5 DEF IndInv, Inv
  <1>3. CASE Reconstruct(N, T, held, bad, cached, held', bad', cached')
    BY <1>3 DEF Reconstruct, IndInv, Inv
  <1>4. CASE Stutter(held, bad, cached, held', bad', cached')
    BY <1>4 DEF Stutter, IndInv, Inv
  <1>5. CASE UNCHANGED vars
    BY <1>5 DEF vars, IndInv, Inv
  <1>. QED BY <1>1, <1>2, <1>3, <1>4, <1>5 DEF Next, R

THEOREM Safety == Spec => []IndInv
  BY InitInv, Consecution, PTL DEF Spec

\* every step from a state satisfying the invariant keeps what is retained, never reverts EnoughShares, keeps the cache
THEOREM StepProperties == IndInv /\ Next => Monotone(T, held, bad, cached, held', bad', cached')
  <1>. SUFFICES ASSUME IndInv, Next PROVE Monotone(T, held, bad, cached, held', bad', cached') OBVIOUS
  <1>1. CASE AddTrusted(N, T, held, bad, cached, held', bad', cached')
    <2>1. PICK i \in 0..(N - 1) : i \notin held /\ ~Enough(T, held) /\ held' = held \cup {i} /\ cached' = cached
          /\ (bad' = bad \/ bad' = bad \cup {i})
      BY <1>1 DEF AddTrusted
    <2>. QED BY <2>1 DEF Monotone, IndInv, Inv
  <1>2. CASE AddVerified(N, T, held, bad, cached, held', bad', cached')
    <2>1. PICK i \in 0..(N - 1) : i \notin held /\ ~Enough(T, held) /\ held' = held \cup {i} /\ cached' = cached /\ bad' = bad
      BY <1>2 DEF AddVerified
    <2>. QED BY <2>1 DEF Monotone, IndInv, Inv
  <1>3. CASE Reconstruct(N, T, held, bad, cached, held', bad', cached')
    BY <1>3 DEF Reconstruct, Monotone, IndInv, Inv
  <1>4. CASE Stutter(held, bad, cached, held', bad', cached')
    BY <1>4 DEF Stutter, Monotone, IndInv, Inv
  <1>. QED BY <1>1, <1>2, <1>3, <1>4 DEF Next, R
=============================================================================
