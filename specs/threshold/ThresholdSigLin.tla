---------------------------- MODULE ThresholdSigLin ----------------------------
(***************************************************************************
 Linearisability of recorded concurrent histories of ONE real threshold-
 signature object (C18) against the sequential semantics of ThresholdSig.

 The log (ndjson, written by harness/thresh/conc.go) is ordered by one global
 atomic counter: "inv" (goroutine g invokes op) was stamped before the real
 call, "res" (it returned ret) after it.  The state change is an internal
 step Lin(g) between the two: TLC searches for an assignment of
 linearisation points; a history is accepted iff some sequential order,
 consistent with the recorded real-time order, explains every return value.
 Histories are concatenated, separated by "reset" events.
 Acceptance: the high-water mark of the log position reaches the end
 (TLCSet/TLCGet register 1; run with -workers 1, depth-first queue).
 ***************************************************************************)
EXTENDS ThresholdSig, Json

CONSTANT TraceFile
Log == ndJsonDeserialize(TraceFile)

VARIABLES l, st, pend      \* pend: goroutine -> [op, done, ret]
vars == <<l, st, pend>>

Ev == Log[l]
Init == /\ TLCSet(1, 1) /\ l = 1 /\ st = InitSt /\ pend = <<>>

Remove(f, g) == [x \in DOMAIN f \ {g} |-> f[x]]

Reset == /\ l <= Len(Log) /\ Ev.e = "reset"
         /\ DOMAIN pend = {}
         /\ st' = InitSt /\ pend' = <<>> /\ l' = l + 1

Inv == /\ l <= Len(Log) /\ Ev.e = "inv"
       /\ Ev.g \notin DOMAIN pend
       /\ pend' = [x \in DOMAIN pend \cup {Ev.g} |->
                     IF x = Ev.g THEN [op |-> Op(Ev.name, Ev.i, Ev.k), done |-> FALSE, ret |-> ""] ELSE pend[x]]
       /\ l' = l + 1 /\ UNCHANGED st

Lin(g) == /\ g \in DOMAIN pend /\ ~pend[g].done
          /\ LET r == ApplyOp(pend[g].op, st) IN
             /\ st' = r.st
             /\ pend' = [pend EXCEPT ![g].done = TRUE, ![g].ret = r.ret]
          /\ UNCHANGED l

Res == /\ l <= Len(Log) /\ Ev.e = "res"
       /\ Ev.g \in DOMAIN pend /\ pend[Ev.g].done /\ pend[Ev.g].ret = Ev.ret
       /\ pend' = Remove(pend, Ev.g)
       /\ l' = l + 1 /\ UNCHANGED st

Next == Reset \/ Inv \/ Res \/ \E g \in DOMAIN pend : Lin(g)
Spec == Init /\ [][Next]_vars

\* state constraint used only to maintain the high-water mark
Mark == TLCSet(1, IF TLCGet(1) < l THEN l ELSE TLCGet(1))
Accepted == /\ PrintT(<<"TRACE_PREFIX", TLCGet(1) - 1, Len(Log)>>)
            /\ TLCGet(1) = Len(Log) + 1

\* the sequential invariants hold along every explored linearisation
AtMostTPlus1    == Cardinality(DOMAIN st.shares) <= T + 1
CachedOnlyValid == st.cached => Enough(st) /\ \A j \in DOMAIN st.shares : st.shares[j] = "v"
=============================================================================
