---------------------------- MODULE ThresholdSigAbs ----------------------------
(***************************************************************************
 The share pool of the stateful threshold-signature object, reduced to what
 its invariants talk about: the set of signers whose share is retained
 (held), the subset of retained shares that are not the signer's valid share
 (bad), and whether the reconstructed signature is cached.

 R(n, t, ...) is the transition relation of the pool for a group of n
 signers with threshold t; Inv is the inductive invariant behind the clauses
 of C06 / C18 ("at most t+1 shares and at most one share per signer are ever
 retained, EnoughShares never reverts to false, once ThresholdSignature has
 succeeded every later call returns the same valid signature").

 Used twice:
  * ThresholdSigInd.tla (Apalache): Inv is inductive for R for EVERY
    2 <= n <= MaxN and 1 <= t < n (symbolic constants), and every R-step
    satisfies the action properties Monotone;
  * ThresholdSigSeq.tla (TLC): every step of the implementation-shaped
    specification ThresholdSig.tla is an R-step under the abstraction
    held = DOMAIN shares, bad = {j : shares[j] # "v"} (RefinesAbs).
 ***************************************************************************)
EXTENDS Integers, FiniteSets

Enough(t, h) == Cardinality(h) = t + 1

\* TrustedAdd(i, share): retained iff the index is valid, new, and the pool is not full; validity is not looked at
AddTrusted(n, t, h, b, c, h2, b2, c2) ==
  \E i \in 0..(n - 1) : \E valid \in BOOLEAN :
     /\ i \notin h /\ ~Enough(t, h)
     /\ h2 = h \cup {i}
     /\ b2 = IF valid THEN b ELSE b \cup {i}
     /\ c2 = c

\* VerifyAndAdd(i, share): retained iff valid index, new, verified, pool not full
AddVerified(n, t, h, b, c, h2, b2, c2) ==
  \E i \in 0..(n - 1) :
     /\ i \notin h /\ ~Enough(t, h)
     /\ h2 = h \cup {i} /\ b2 = b /\ c2 = c

\* ThresholdSignature(): the first success caches; needs exactly t+1 retained shares, all valid
Reconstruct(n, t, h, b, c, h2, b2, c2) ==
  /\ ~c /\ Enough(t, h) /\ b = {}
  /\ h2 = h /\ b2 = b /\ c2 = TRUE

\* every other call, every rejected call, every failed reconstruction
Stutter(h, b, c, h2, b2, c2) == h2 = h /\ b2 = b /\ c2 = c

R(n, t, h, b, c, h2, b2, c2) ==
  \/ AddTrusted(n, t, h, b, c, h2, b2, c2)
  \/ AddVerified(n, t, h, b, c, h2, b2, c2)
  \/ Reconstruct(n, t, h, b, c, h2, b2, c2)
  \/ Stutter(h, b, c, h2, b2, c2)

Inv(n, t, h, b, c) ==
  /\ h \subseteq 0..(n - 1)
  /\ b \subseteq h
  /\ Cardinality(h) <= t + 1                       \* at most t+1 shares (one per signer: h is a set)
  /\ c => (Enough(t, h) /\ b = {})                 \* a cached signature was built from t+1 valid shares

\* action properties of every R-step from a state satisfying Inv
Monotone(t, h, b, c, h2, b2, c2) ==
  /\ h \subseteq h2                                \* retained shares are never dropped
  /\ (b2 \cap h) = b                               \* ... nor re-classified
  /\ (Enough(t, h) => h2 = h)                      \* EnoughShares never reverts; a full pool is frozen
  /\ (c => c2)                                     \* the cache is stable
=============================================================================
