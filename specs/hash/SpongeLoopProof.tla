---------------------------- MODULE SpongeLoopProof ----------------------------
(* TLAPS: the loop invariant of SpongeLoop.tla for EVERY rate >= 1, every write length and any number of writes; every iteration
   consumes at least one byte (termination of the loop).  Checked with `tlapm SpongeLoopProof.tla`. *)
EXTENDS SpongeLoop, TLAPS

ASSUME RatePos == Rate \in Nat /\ Rate >= 1

THEOREM InitInv == Init => LoopInv
  BY RatePos DEF Init, LoopInv

LEMMA Distrib == ASSUME NEW b \in Nat PROVE (b + 1) * Rate = b * Rate + Rate
  BY RatePos

THEOREM Consecution == LoopInv /\ [Next]_vars => LoopInv'
  <1>. SUFFICES ASSUME LoopInv, [Next]_vars PROVE LoopInv' OBVIOUS
  <1>0. /\ bufSize \in Nat /\ blocks \in Nat /\ rem \in Nat /\ slen \in Nat /\ fin \in BOOLEAN /\ bufSize < Rate
        /\ blocks * Rate + bufSize + rem = slen /\ blocks * Rate \in Nat
    BY RatePos DEF LoopInv
  <1>1. ASSUME NEW k \in Nat, Write(k) PROVE LoopInv'
    BY <1>0, <1>1, RatePos DEF Write, LoopInv
  <1>2. CASE Fast
    <2>1. (blocks + 1) * Rate = blocks * Rate + Rate BY <1>0, Distrib
    <2>2. bufSize' = bufSize /\ blocks' = blocks + 1 /\ rem' = rem - Rate /\ slen' = slen /\ fin' = fin /\ rem >= Rate /\ bufSize = 0
      BY <1>2 DEF Fast
    <2>. QED BY <1>0, <2>1, <2>2, RatePos DEF LoopInv
  <1>3. CASE Buffered
    <2>. DEFINE todo == Min(Rate - bufSize, rem)
    <2>0. todo \in Nat /\ todo >= 1 /\ todo <= rem /\ bufSize + todo <= Rate
      BY <1>0, <1>3, RatePos DEF Buffered, Min
    <2>1. rem' = rem - todo /\ slen' = slen /\ fin' = fin BY <1>3 DEF Buffered
    <2>2. CASE bufSize + todo = Rate
      <3>1. bufSize' = 0 /\ blocks' = blocks + 1 BY <1>3, <2>2 DEF Buffered
      <3>2. (blocks + 1) * Rate = blocks * Rate + Rate BY <1>0, Distrib
      <3>. HIDE DEF todo
      <3>. QED BY <1>0, <2>0, <2>1, <2>2, <3>1, <3>2, RatePos DEF LoopInv
    <2>3. CASE bufSize + todo # Rate
      <3>1. bufSize' = bufSize + todo /\ blocks' = blocks BY <1>3, <2>3 DEF Buffered
      <3>. HIDE DEF todo
      <3>. QED BY <1>0, <2>0, <2>1, <2>3, <3>1, RatePos DEF LoopInv
    <2>. QED BY <2>2, <2>3
  <1>4. CASE Finalise
    BY <1>0, <1>4 DEF Finalise, LoopInv
  <1>5. CASE Reset
    BY <1>0, <1>5, RatePos DEF Reset, LoopInv
  <1>6. CASE UNCHANGED vars
    BY <1>0, <1>6 DEF vars, LoopInv
  <1>. QED BY <1>1, <1>2, <1>3, <1>4, <1>5, <1>6 DEF Next, Iterate

THEOREM Safety == Spec => []LoopInv
  BY InitInv, Consecution, PTL DEF Spec

\* every iteration consumes at least one byte: the loop of a write of k bytes ends after at most k iterations
THEOREM Progress == LoopInv /\ Iterate => (rem' \in Nat /\ rem' < rem)
  <1>. SUFFICES ASSUME LoopInv, Iterate PROVE rem' \in Nat /\ rem' < rem OBVIOUS
  <1>0. bufSize \in Nat /\ rem \in Nat /\ bufSize < Rate BY DEF LoopInv
  <1>1. CASE Fast BY <1>0, <1>1, RatePos DEF Fast
  <1>2. CASE Buffered BY <1>0, <1>2, RatePos DEF Buffered, Min
  <1>. QED BY <1>1, <1>2 DEF Iterate

\* when SumHash appends the padding byte, its position lies inside the block
THEOREM PaddingFits == LoopInv /\ Finalise => bufSize + 1 <= Rate
  BY RatePos DEF LoopInv, Finalise
=============================================================================
