---------------------------- MODULE KmacPadProof ----------------------------
(* TLAPS: the bytepad formula of KmacPad.tla (Fixed = TRUE: pad = (w - len % w) % w with w = 168) pads EVERY length to a multiple
   of the rate with fewer than w bytes, whatever the key length and however long its length header is; and the formula of the
   pinned tree before the repair of D7 (pad = w - len % w) adds a whole superfluous block exactly when the length is already a
   multiple of w.  KmacPad.tla checks the same with TLC for key lengths 0..1200 and two windows.  `tlapm KmacPadProof.tla`. *)
EXTENDS Integers, TLAPS

W == 168
Pad(u)    == (W - (u % W)) % W
OldPad(u) == W - (u % W)

LEMMA DivMod == ASSUME NEW u \in Nat PROVE \E q \in Nat, r \in 0..167 : u = 168 * q + r /\ u % 168 = r
  <1>1. u % 168 \in 0..167 /\ u \div 168 \in Nat /\ u = 168 * (u \div 168) + (u % 168) OBVIOUS
  <1>. QED BY <1>1

THEOREM PadOK == ASSUME NEW u \in Nat PROVE Pad(u) \in 0..(W - 1) /\ (u + Pad(u)) % W = 0
  <1>1. PICK q \in Nat, r \in 0..167 : u = 168 * q + r /\ u % 168 = r BY DivMod
  <1>2. CASE r = 0
    <2>1. Pad(u) = 0 BY <1>1, <1>2 DEF Pad, W
    <2>2. u + Pad(u) = 168 * q BY <1>1, <1>2, <2>1
    <2>3. (168 * q) % 168 = 0 OBVIOUS
    <2>. QED BY <2>1, <2>2, <2>3 DEF W
  <1>3. CASE r # 0
    <2>1. 168 - r \in 1..167 BY <1>3
    <2>2. (168 - r) % 168 = 168 - r BY <2>1
    <2>3. Pad(u) = 168 - r BY <1>1, <2>2 DEF Pad, W
    <2>4. u + Pad(u) = 168 * (q + 1) BY <1>1, <2>3
    <2>5. (168 * (q + 1)) % 168 = 0 OBVIOUS
    <2>. QED BY <2>1, <2>3, <2>4, <2>5 DEF W
  <1>. QED BY <1>2, <1>3

\* the defect D7: the old formula is right except on the block boundaries, where it appends a whole block of zeros
THEOREM OldPadWrongExactlyOnBoundaries == ASSUME NEW u \in Nat PROVE (OldPad(u) \in 0..(W - 1)) <=> (u % W # 0)
  <1>1. PICK q \in Nat, r \in 0..167 : u = 168 * q + r /\ u % 168 = r BY DivMod
  <1>. QED BY <1>1 DEF OldPad, W
=============================================================================
