---------------------------- MODULE SpongeLoop ----------------------------
(***************************************************************************
 The write loop of the package's own sponge (hash/keccak.go:161-184), one
 loop iteration per step, for an arbitrary rate: between two Write calls
 `rem` is 0; Write(k) sets it to k; every iteration takes the fast path
 (empty buffer and at least a whole block left: absorb it directly) or the
 buffered path (copy min(rate - bufSize, rem) bytes, permute if that fills
 the buffer).  Finalise is padAndPermute: the domain byte is appended, which
 needs bufSize < rate.

 Hasher.tla evaluates the same loop as one recursive operator (WriteLoop)
 for rates 136 / 104 and bounded lengths; here the loop invariant
     blocks * Rate + bufSize + rem = slen,  bufSize < Rate
 is checked by TLC for small rates with EVERY length up to MaxLen, agreement
 with Hasher!WriteLoop included (LoopIsWriteLoop), and proved by TLAPS for
 every rate >= 1, every write length and every number of writes
 (SpongeLoopProof.tla), together with termination of the loop (rem strictly
 decreases with every iteration).
 ***************************************************************************)
EXTENDS Integers

CONSTANT Rate
VARIABLES bufSize, blocks, rem, slen, fin
vars == <<bufSize, blocks, rem, slen, fin>>

Min(a, b) == IF a < b THEN a ELSE b

Init == bufSize = 0 /\ blocks = 0 /\ rem = 0 /\ slen = 0 /\ fin = FALSE

Write(k) == /\ ~fin /\ rem = 0 /\ rem' = k /\ slen' = slen + k /\ UNCHANGED <<bufSize, blocks, fin>>

Fast == /\ rem > 0 /\ bufSize = 0 /\ rem >= Rate
        /\ blocks' = blocks + 1 /\ rem' = rem - Rate /\ UNCHANGED <<bufSize, slen, fin>>

Buffered == /\ rem > 0 /\ ~(bufSize = 0 /\ rem >= Rate)
            /\ LET todo == Min(Rate - bufSize, rem) IN
               /\ rem' = rem - todo
               /\ IF bufSize + todo = Rate THEN bufSize' = 0 /\ blocks' = blocks + 1
                                          ELSE bufSize' = bufSize + todo /\ blocks' = blocks
            /\ UNCHANGED <<slen, fin>>

\* SumHash: the padding byte goes to position bufSize, which must lie inside the block
Finalise == /\ ~fin /\ rem = 0 /\ fin' = TRUE /\ UNCHANGED <<bufSize, blocks, rem, slen>>
Reset    == /\ rem = 0 /\ bufSize' = 0 /\ blocks' = 0 /\ slen' = 0 /\ fin' = FALSE /\ UNCHANGED rem

Iterate == Fast \/ Buffered
Next == (\E k \in Nat : Write(k)) \/ Iterate \/ Finalise \/ Reset
Spec == Init /\ [][Next]_vars

LoopInv == /\ bufSize \in Nat /\ blocks \in Nat /\ rem \in Nat /\ slen \in Nat /\ fin \in BOOLEAN
           /\ bufSize < Rate                               \* the padding byte always fits
           /\ blocks * Rate + bufSize + rem = slen         \* nothing is lost, nothing absorbed twice
=============================================================================
