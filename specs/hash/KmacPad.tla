------------------------------ MODULE KmacPad ------------------------------
(***************************************************************************
 Lengths of the KMAC128 encodings of NIST SP 800-185 as built by hash/kmac.go:
   left_encode(v)   : 1 + (number of bytes of v, at least 1)
   encode_string(K) : left_encode(8*|K|) || K
   bytepad(X, 168)  : left_encode(168) || X || 0^pad,  length a multiple of 168, pad < 168
 PadOK is the property of bytepad; Fixed = FALSE is the pinned tree's formula
 (pad = w - len % w), which fails it exactly when the encoded key fills whole
 blocks (|K| = 163, 331, ...: defect D7).  TLC also emits the set of key lengths
 sitting on a block boundary so that the harness tests exactly those (and their neighbours).
 ***************************************************************************)
EXTENDS Integers, FiniteSets, TLC, Json

CONSTANTS MaxKey, Fixed
W == 168
RECURSIVE NBytes(_)
NBytes(v) == IF v < 256 THEN 1 ELSE 1 + NBytes(v \div 256)
LeftEnc(v) == 1 + NBytes(v)
EncString(k) == LeftEnc(8 * k) + k
Unpadded(k) == LeftEnc(W) + EncString(k)
Pad(k) == IF Fixed THEN (W - (Unpadded(k) % W)) % W ELSE W - (Unpadded(k) % W)

PadOK(k) == (Unpadded(k) + Pad(k)) % W = 0 /\ Pad(k) \in 0..(W - 1)
Boundary == {k \in 0..MaxKey : Unpadded(k) % W = 0}

VARIABLE key
Init == key \in 0..MaxKey
Next == UNCHANGED key
Spec == Init /\ [][Next]_key
Holds == PadOK(key)
Emit == key = 0 => PrintT(<<"CASE", ToJson([boundary |-> Boundary])>>)
=============================================================================
