------------------------------ MODULE KmacPad ------------------------------
(***************************************************************************
 Lengths of the KMAC128 encodings of NIST SP 800-185 as built by hash/kmac.go:
   left_encode(v)   : 1 + (number of bytes of v, at least 1)
   encode_string(K) : left_encode(8*|K|) || K
   bytepad(X, 168)  : left_encode(168) || X || 0^pad,  length a multiple of 168, pad < 168
 PadOK is the property of bytepad; Fixed = FALSE is the pinned tree's formula
 (pad = w - len % w), which fails it exactly when the encoded key fills whole
 blocks (|K| = 163, 331, ...: defect D7).  TLC also emits the set of key lengths
 sitting on a block boundary so that the harness tests exactly those (and their neighbours).
 ***************************************************************************)
EXTENDS Integers, FiniteSets, TLC, Json

CONSTANTS MaxKey, Fixed
W == 168
RECURSIVE NBytes(_)
NBytes(v) == IF v < 256 THEN 1 ELSE 1 + NBytes(v \div 256)
LeftEnc(v) == 1 + NBytes(v)
EncString(k) == LeftEnc(8 * k) + k
Unpadded(k) == LeftEnc(W) + EncString(k)
Pad(k) == IF Fixed THEN (W - (Unpadded(k) % W)) % W ELSE W - (Unpadded(k) % W)

PadOK(k) == (Unpadded(k) + Pad(k)) % W = 0 /\ Pad(k) \in 0..(W - 1)
\* key lengths looked at: 0..MaxKey, and windows around the lengths where left_encode(8*|K|) grows by a byte
\* (8*|K| = 2^16 at |K| = 8192, 2^24 at |K| = 2097152): the header of the encoded key is 3, 4, 5 bytes long
Window   == (0..MaxKey) \cup (8000..8600) \cup (2096900..2097500)
Boundary == {k \in Window : Unpadded(k) % W = 0}
\* the key lengths at which the length header of the encoded key grows by a byte (first length with the longer header)
HeaderSteps == {k \in Window \ {0} : LeftEnc(8 * k) # LeftEnc(8 * (k - 1))}
HeaderGrows == \A k \in Window : LeftEnc(8 * k) = (IF 8 * k < 256 THEN 2 ELSE IF 8 * k < 65536 THEN 3 ELSE IF 8 * k < 16777216 THEN 4 ELSE 5)

VARIABLE key
Init == key \in Window
Next == UNCHANGED key
Spec == Init /\ [][Next]_key
Holds == PadOK(key) /\ (key = 0 => HeaderGrows)
Emit == key = 0 => PrintT(<<"CASE", ToJson([boundary |-> Boundary, steps |-> HeaderSteps])>>)
=============================================================================
