---------------------------- MODULE SpongeLoopMC ----------------------------
(* TLC: SpongeLoop for a small rate and every write length up to MaxLen, at most MaxWrites writes; the step-wise loop ends where the
   recursive operator of Hasher.tla (WriteLoop) says. *)
EXTENDS SpongeLoop, TLC

CONSTANTS MaxLen, MaxWrites
VARIABLES nw, start       \* writes so far; [bs, bl, k]: the state in which the running write began
mvars == <<vars, nw, start>>

RECURSIVE WriteLoop(_, _, _)
WriteLoop(bs, bl, len) ==       \* Hasher!WriteLoop without the fast-path counter
  IF len = 0 THEN [bs |-> bs, bl |-> bl]
  ELSE IF bs = 0 /\ len >= Rate THEN WriteLoop(0, bl + 1, len - Rate)
       ELSE LET todo == Min(Rate - bs, len) IN
            IF bs + todo = Rate THEN WriteLoop(0, bl + 1, len - todo) ELSE WriteLoop(bs + todo, bl, len - todo)

MCInit == Init /\ nw = 0 /\ start = [bs |-> 0, bl |-> 0, k |-> 0]
MCNext == \/ \E k \in 0..MaxLen : nw < MaxWrites /\ Write(k) /\ nw' = nw + 1 /\ start' = [bs |-> bufSize, bl |-> blocks, k |-> k]
          \/ (Iterate /\ UNCHANGED <<nw, start>>)
          \/ (Finalise /\ UNCHANGED <<nw, start>>)
          \/ (Reset /\ nw < MaxWrites /\ nw' = nw + 1 /\ start' = [bs |-> 0, bl |-> 0, k |-> 0])
MCSpec == MCInit /\ [][MCNext]_mvars

LoopIsWriteLoop == rem = 0 => LET r == WriteLoop(start.bs, start.bl, start.k) IN r.bs = bufSize /\ r.bl = blocks
ClosedForm      == rem = 0 => bufSize = slen % Rate /\ blocks = slen \div Rate
Terminates      == [][Iterate => rem' < rem]_mvars
=============================================================================
