------------------------------ MODULE Hasher ------------------------------
(***************************************************************************
 Hasher objects (hash/keccak.go, hash/sha3.go, hash/legacy_keccak.go,
 hash/sha2.go, hash/kmac.go) as stream machines, plus the byte-level buffer
 logic of the package's own sponge.

 Stream semantics (C13): `slen` bytes written since the last Reset (or since
 construction: a never-reset object behaves as a reset one).
   SumHash       = Digest(stream[0..slen))
   ComputeHash(x)= Digest(x), independent of anything written before
   sponge  : SumHash / ComputeHash finalise the object; a Write or a second SumHash on a finalised sponge is outside the
             documented use: the model takes the step ("dirty"), prescribes nothing for its result (expect = -2), and requires
             the next Reset or ComputeHash to restore the documented behaviour completely
   sha2    : Write after SumHash continues the same stream; ComputeHash resets and finalises (conservative)
   kmac    : SumHash and ComputeHash work on clones: the stream is untouched
 The stream content is fixed by the harness (a position-dependent pattern),
 so a history is determined by its operation names and lengths.

 Sponge buffer (Class = "sponge"), transcribed from hash/keccak.go:161-219:
   bufNil (lazy-initialisation sentinel), bufSize, blocks absorbed.
   write: fast path (empty buffer and >= rate bytes left: absorb directly) / buffered path.
 Invariants: between calls bufSize < Rate (so the padding byte always fits),
 blocks*Rate + bufSize = slen, and the first write on a never-reset object
 behaves as after Reset.
 ***************************************************************************)
EXTENDS Integers, Sequences, FiniteSets, TLC, Json

CONSTANTS Rate,     \* 136 (SHA3-256, Keccak-256) | 104 (SHA3-384); ignored for the other classes
          Class,    \* "sponge" | "sha2" | "kmac"
          MaxOps,
          Lens,     \* lengths offered to Write / ComputeHash
          Record    \* TRUE: keep the history (for Emit); FALSE: buffer invariants over all lengths, no history

VARIABLES slen, fin, bufNil, bufSize, blocks, fast, hist, nops, dirty
vars == <<slen, fin, bufNil, bufSize, blocks, fast, hist, nops, dirty>>

Init == /\ slen = 0 /\ fin = FALSE /\ bufNil = TRUE /\ bufSize = -1 /\ blocks = 0 /\ fast = 0
        /\ hist = <<>> /\ nops = 0 /\ dirty = FALSE

Min(a, b) == IF a < b THEN a ELSE b

\* the write loop: returns [bs, bl, fp] = buffer fill, blocks absorbed, blocks absorbed through the fast path
RECURSIVE WriteLoop(_, _, _, _)
WriteLoop(bs, bl, fp, len) ==
  IF len = 0 THEN [bs |-> bs, bl |-> bl, fp |-> fp]
  ELSE IF bs = 0 /\ len >= Rate
       THEN WriteLoop(0, bl + 1, fp + 1, len - Rate)                         \* :166 fast path
       ELSE LET todo == Min(Rate - bs, len) IN
            IF bs + todo = Rate THEN WriteLoop(0, bl + 1, fp, len - todo)   \* :176 buffer full: permute
            ELSE WriteLoop(bs + todo, bl, fp, len - todo)

Log(op, k, expect) == IF Record THEN hist' = Append(hist, [op |-> op, k |-> k, expect |-> expect]) ELSE hist' = hist

Reset ==
  /\ slen' = 0 /\ fin' = FALSE
  /\ bufNil' = FALSE /\ bufSize' = 0 /\ blocks' = 0 /\ fast' = 0                \* :127 Reset -> setBuf(0,0)
  /\ dirty' = FALSE
  /\ Log("Reset", 0, -1)

\* a step outside the documented use of a finalised sponge: taken, not judged
Misuse(op, k) ==
  /\ Class = "sponge" /\ fin
  /\ dirty' = TRUE
  /\ UNCHANGED <<slen, fin, bufNil, bufSize, blocks, fast>>
  /\ Log(op, k, -2)

Write(k) ==
  \/ Misuse("Write", k)
  \/ /\ ~fin
     /\ slen' = slen + k /\ fin' = fin /\ dirty' = dirty
     /\ IF Class = "sponge"
        THEN LET r == WriteLoop(IF bufNil THEN 0 ELSE bufSize, blocks, fast, k) IN   \* :162 nil sentinel -> empty buffer
             bufNil' = FALSE /\ bufSize' = r.bs /\ blocks' = r.bl /\ fast' = r.fp
        ELSE UNCHANGED <<bufNil, bufSize, blocks, fast>>
     /\ Log("Write", k, -1)

\* SumHash: digest of the slen bytes written so far
Sum ==
  \/ Misuse("SumHash", 0)
  \/ /\ ~fin
     /\ fin' = (Class = "sponge") /\ dirty' = dirty
     /\ IF Class = "sponge"
        THEN bufNil' = FALSE /\ bufSize' = Rate /\ blocks' = blocks + 1 /\ fast' = fast   \* :188 pad, permute, setBuf(0, rate)
        ELSE UNCHANGED <<bufNil, bufSize, blocks, fast>>
     /\ UNCHANGED slen
     /\ Log("SumHash", 0, slen)

\* ComputeHash(x), |x| = k: digest of x alone
Compute(k) ==
  /\ fin' = (Class # "kmac")
  /\ slen' = IF Class = "kmac" THEN slen ELSE k
  /\ IF Class = "sponge"
     THEN LET r == WriteLoop(0, 0, 0, k) IN
          bufNil' = FALSE /\ bufSize' = Rate /\ blocks' = r.bl + 1 /\ fast' = r.fp
     ELSE UNCHANGED <<bufNil, bufSize, blocks, fast>>
  /\ dirty' = FALSE
  /\ Log("ComputeHash", k, k)

Next ==
  \/ /\ nops < MaxOps /\ nops' = nops + 1
     /\ \/ Reset \/ Sum
        \/ \E k \in Lens : Write(k) \/ Compute(k)
  \/ (nops = MaxOps /\ UNCHANGED vars)
Spec == Init /\ [][Next]_vars
View == <<slen, fin, bufNil, bufSize, blocks, nops, dirty>>

(* ---------- invariants ---------- *)
BufferBounded == Class = "sponge" /\ ~fin /\ ~bufNil => bufSize \in 0..(Rate - 1)      \* the padding byte always fits
BufferAccounts == Class = "sponge" /\ ~fin => blocks * Rate + (IF bufNil THEN 0 ELSE bufSize) = slen
NilOnlyFresh  == Class = "sponge" /\ bufNil => slen = 0 /\ blocks = 0 /\ ~fin
FastPathOnlyWhole == fast <= blocks
\* only a finalised sponge can be misused, and Reset / ComputeHash end the unspecified episode
DirtyOnlyFinalised == dirty => (Class = "sponge" /\ fin)

Emit == (Record /\ nops = MaxOps) => PrintT(<<"CASE", ToJson([hist |-> hist])>>)
=============================================================================
