------------------------------ MODULE PoP ------------------------------
(***************************************************************************
 Proofs of possession (bls_multisig.go:53-94) and their separation from every
 signature (C16).

 Domain separation rests on the KMAC key strings: signatures made through
 NewExpandMsgXOFKMAC128(tag) are keyed with  tag \o SigSuite,  proofs of
 possession with PopSuite (bls.go:75-82,114-132).  KeysNeverCollide checks,
 for every tag built from up to MaxFrag fragments (the fragments of the two
 suite strings themselves, the empty string, other letters), that the two
 keys differ: a statement about concatenation over all tags.  Given that,
 hash points under the two keys are distinct atoms of the algebra and a PoP
   PoP(x) = x * H_pop(encode(pk_x))
 is a different element from any x * H_tag(m), in particular from the
 signature of the public-key bytes.
 ***************************************************************************)
EXTENDS Algebra, TLC, Json, Sequences

CONSTANT MaxFrag

H2C      == "BLS12381G1_XOF:KMAC128_SSWU_RO_"
SigSuite == "BLS_SIG_" \o H2C \o "POP_"
PopSuite == "BLS_POP_" \o H2C \o "POP_"
Frags == {"", "BLS_", "SIG_", "POP_", "BLS_POP_", "BLS_SIG_", H2C, "x", "BLS_POP_" \o H2C, PopSuite, SigSuite}

RECURSIVE Concats(_)
Concats(n) == IF n = 0 THEN {""} ELSE {a \o f : a \in Concats(n - 1), f \in Frags}
Tags == Concats(MaxFrag)

KeysNeverCollide == \A tag \in Tags : tag \o SigSuite # PopSuite

\* cases: verifying key, candidate class
KeyForms == {"x1", "x2", "zero"}
PkOf(n) == CASE n = "x1" -> Pk("x1") [] n = "x2" -> Pk("x2") [] n = "zero" -> PkZero
\* messages: "pop1" = pk_x1 bytes hashed under the PoP key, "sig1" = the same bytes hashed under tag \o SigSuite; likewise for x2
Cands == {"pop-own", "pop-other", "sig-of-pkbytes", "identity", "plusT", "negated", "badenc"}
MsgPop(n) == IF n = "x2" THEN "pop2" ELSE "pop1"
MsgSig(n) == IF n = "x2" THEN "sig2" ELSE "sig1"
Other(n)  == IF n = "x1" THEN "x2" ELSE "x1"
Elem(cd, n) ==
  CASE cd = "pop-own"        -> Sig(PkOf(n), MsgPop(n))
    [] cd = "pop-other"      -> Sig(PkOf(Other(n)), MsgPop(Other(n)))
    [] cd = "sig-of-pkbytes" -> Sig(PkOf(n), MsgSig(n))            \* a plain signature of the public key bytes, any application tag
    [] cd = "plusT"          -> E1Add(Sig(PkOf(n), MsgPop(n)), E1(ZeroC, 0, 1))
    [] cd = "negated"        -> E1Neg(Sig(PkOf(n), MsgPop(n)))
    [] OTHER                 -> E1Zero

VARIABLES key, cand
Init == key \in KeyForms /\ cand \in Cands
Next == UNCHANGED <<key, cand>>
Spec == Init /\ [][Next]_<<key, cand>>

\* BLSVerifyPOP(pk, s) = Verify(pk, s, encode(pk), popHasher)
VerifyPOP(n, cd) == /\ cd # "badenc" /\ ~PkIsIdentity(PkOf(n)) /\ InG1(Elem(cd, n))
                    /\ PairingEq(Elem(cd, n), <<[pk |-> PkOf(n), m |-> MsgPop(n)]>>)
\* the same candidate checked as a signature of the public-key bytes under an application tag
VerifySig(n, cd) == /\ cd # "badenc" /\ ~PkIsIdentity(PkOf(n)) /\ InG1(Elem(cd, n))
                    /\ PairingEq(Elem(cd, n), <<[pk |-> PkOf(n), m |-> MsgSig(n)]>>)

Sound          == VerifyPOP(key, cand) <=> (cand = "pop-own" /\ key # "zero")
PopIsNoSig     == cand \in {"pop-own", "pop-other"} => ~VerifySig(key, cand)
SigIsNoPop     == cand = "sig-of-pkbytes" => ~VerifyPOP(key, cand)

Emit == PrintT(<<"CASE", ToJson([key |-> key, cand |-> cand, pop |-> VerifyPOP(key, cand), sig |-> VerifySig(key, cand)])>>)
EmitTags == (key = "x1" /\ cand = "pop-own") => PrintT(<<"CASE", ToJson([tags |-> Tags])>>)
=============================================================================
