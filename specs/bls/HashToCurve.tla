---------------------------- MODULE HashToCurve ----------------------------
(***************************************************************************
 The hash-to-G1 pipeline behind every BLS signature (C01 "the hash-to-curve
 image of the hasher output"), as a case graph: bls.go:530-545 hashes the
 message with the 128-byte expander, bls12381_utils.c:727-741 (map_to_G1)
 splits the output into two 64-byte big-endian chunks, reduces each modulo p
 (hash_to_field, L = 64) and hands the two field elements to the simplified
 SWU map on E1', adds the two points there, applies the 11-isogeny and
 clears the cofactor (RFC 9380, suite BLS12381G1_*_SSWU_RO_).

 A chunk is abstracted by its residue class and by whether the 64-byte
 integer is the reduced representative:
    residue   "zero" | "one" | "minusone" | "sq" | "nsq"
              (sq / nsq: a generic u for which g(x1) is / is not a square:
               first or second candidate of the SSWU map)
    rep       "reduced" (< p) | "plusp" (residue + p) | "high" (residue + k*p, the largest k that fits 512 bits)
 and the pair by the relation of the two residues:
    "indep" | "same" (u1 = u0) | "neg" (u1 = -u0)

 Stages (pc): reduce -> map0 -> map1 -> add -> iso -> clear -> done.
 What the model decides, and the harness checks on the real code through
 Sign under the secret key 1 against the reference of harness/ref/h2c.go:
   * Representative-independence: the image depends on the residues only.
   * Which addition case arises on E1' (generic / doubling / inverse points)
     and hence when H is the point at infinity: exactly for u1 = -u0
     (then EVERY key signs the identity signature for that expander output).
   * Symmetry: swapping the two chunks does not change the image.
 ***************************************************************************)
EXTENDS Integers, Sequences, FiniteSets, TLC, Json

Residues == {"zero", "one", "minusone", "sq", "nsq"}
Reps     == {"reduced", "plusp", "high"}
Rels     == {"indep", "same", "neg"}

VARIABLES c0, c1, rel, pc, u0, u1, q0, q1, sum, h
vars == <<c0, c1, rel, pc, u0, u1, q0, q1, sum, h>>

Chunk(r, p) == [res |-> r, rep |-> p]
\* the residue of the second chunk is determined by the relation unless independent
Neg(r) == CASE r = "zero" -> "zero" [] r = "one" -> "minusone" [] r = "minusone" -> "one" [] OTHER -> r   \* g(x1(-u)) = g(x1(u)): same branch
Consistent(a, b, rl) == CASE rl = "same" -> b.res = a.res
                          [] rl = "neg"  -> b.res = Neg(a.res)
                          [] OTHER       -> TRUE

Init == /\ c0 \in {Chunk(r, p) : r \in Residues, p \in Reps}
        /\ c1 \in {Chunk(r, p) : r \in Residues, p \in Reps}
        /\ rel \in Rels
        /\ Consistent(c0, c1, rel)
        /\ ~(rel = "indep" /\ c0.res = c1.res /\ c0.res \in {"zero", "one", "minusone"})     \* that would be "same"
        /\ ~(rel = "indep" /\ c1.res = Neg(c0.res) /\ c0.res \in {"one", "minusone"})          \* that would be "neg"
        /\ pc = "reduce" /\ u0 = "-" /\ u1 = "-" /\ q0 = "-" /\ q1 = "-" /\ sum = "-" /\ h = "-"

\* hash_to_field: the representative is forgotten                                     (bls12381_utils.c:716-722)
Reduce == pc = "reduce" /\ u0' = c0.res /\ u1' = c1.res /\ pc' = "map0" /\ UNCHANGED <<c0, c1, rel, q0, q1, sum, h>>

\* map_to_curve_simple_swu: u = 0 takes the exceptional x1 = B/(Z*A); otherwise the first candidate when g(x1) is a square, else the second;
\* the sign of y follows sgn0(u), so SSWU(-u) = -SSWU(u) for u # 0, and SSWU(0) is a point of its own
Map(u) == CASE u = "zero" -> "exceptional" [] u = "nsq" -> "second" [] OTHER -> "first"
Map0 == pc = "map0" /\ q0' = Map(u0) /\ pc' = "map1" /\ UNCHANGED <<c0, c1, rel, u0, u1, q1, sum, h>>
Map1 == pc = "map1" /\ q1' = Map(u1) /\ pc' = "add" /\ UNCHANGED <<c0, c1, rel, u0, u1, q0, sum, h>>

\* addition on E1': equal inputs double, opposite inputs cancel (u = 0: SSWU(0) = SSWU(-0), so "neg" with zero residues is a doubling)
Add == /\ pc = "add"
       /\ sum' = CASE rel = "same" -> "double"
                   [] rel = "neg" /\ u0 = "zero" -> "double"
                   [] rel = "neg" -> "infinity"
                   [] OTHER -> "generic"
       /\ pc' = "iso" /\ UNCHANGED <<c0, c1, rel, u0, u1, q0, q1, h>>

\* the isogeny and the cofactor clearing are group homomorphisms: infinity stays infinity; any other sum lands in G1
Iso   == pc = "iso"   /\ pc' = "clear" /\ UNCHANGED <<c0, c1, rel, u0, u1, q0, q1, sum, h>>
Clear == pc = "clear" /\ h' = (IF sum = "infinity" THEN "identity" ELSE "point") /\ pc' = "done" /\ UNCHANGED <<c0, c1, rel, u0, u1, q0, q1, sum>>

Next == Reduce \/ Map0 \/ Map1 \/ Add \/ Iso \/ Clear \/ (pc = "done" /\ UNCHANGED vars)
Spec == Init /\ [][Next]_vars /\ WF_vars(Next)

\* the image is the identity exactly for opposite non-zero field elements
IdentityIffOpposite == pc = "done" => (h = "identity" <=> (rel = "neg" /\ c0.res # "zero"))
\* nothing after the first stage looks at the representative
RepresentativeForgotten == [][pc # "reduce" => UNCHANGED <<u0, u1>>]_vars
Termination == <>(pc = "done")

Emit == pc = "done" => PrintT(<<"CASE", ToJson([c0 |-> c0, c1 |-> c1, rel |-> rel, add |-> sum, h |-> h])>>)
=============================================================================
