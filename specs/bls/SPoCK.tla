------------------------------ MODULE SPoCK ------------------------------
(***************************************************************************
 SPOCKVerify(pk1, p1, pk2, p2) (spock.go:89-121, bls_core.c:487-524) against its
 definition (C17):
    TRUE <=> p1, p2 canonical encodings of elements of G1, neither key the identity,
             e(p1, pk2) = e(p2, pk1).
 The pairing of an E1-form p with a public key pk is the bilinear form
    Bil(p, pk)[k, k', m] = p.c[k, m] * pk[k']   (symmetrised in k, k': secret keys commute)
 plus the foreign part p.d * pk; torsion is killed by the pairing, hence the
 separate membership checks.
 ***************************************************************************)
EXTENDS Algebra, TLC, Json

CONSTANT DropSecondMembership     \* FALSE; TRUE in the negative control: only the first proof is checked to be in G1

KeyForms == {"x1", "x2", "nx1", "zero"}
PkOf(n) == CASE n = "x1" -> Pk("x1") [] n = "x2" -> Pk("x2") [] n = "nx1" -> PkNeg(Pk("x1")) [] n = "zero" -> PkZero
ProofClasses == {"honest", "otherdata", "otherkey", "scaled", "negated", "plusT", "plusD", "identity", "badenc", "wronglen"}
Decodable(pc) == pc \notin {"badenc", "wronglen"}
\* the element a proof of class pc attributed to key form n encodes
Proof(pc, n) ==
  LET h == Sig(PkOf(n), "m1") IN
  CASE pc = "honest"    -> h
    [] pc = "otherdata" -> Sig(PkOf(n), "m2")
    [] pc = "otherkey"  -> Sig(Pk("x3"), "m1")
    [] pc = "scaled"    -> E1Scale(2, h)
    [] pc = "negated"   -> E1Neg(h)
    [] pc = "plusT"     -> E1Add(h, E1(ZeroC, 0, 1))
    [] pc = "plusD"     -> E1Add(h, E1(ZeroC, 1, 0))
    [] OTHER            -> E1Zero

Triples == Keys \X Keys \X Msgs
Bil(p, pk) == [t \in Triples |-> p.c[<<t[1], t[3]>>] * pk[t[2]]]
Sym(f) == [t \in Triples |-> IF t[1] = t[2] THEN f[t] ELSE f[t] + f[<<t[2], t[1], t[3]>>]]
PairEq(p1, pk2, p2, pk1) ==
  /\ Sym(Bil(p1, pk2)) = Sym(Bil(p2, pk1))
  /\ \A k \in Keys : p1.d * pk2[k] = p2.d * pk1[k]

VARIABLES k1, c1, k2, c2
vars == <<k1, c1, k2, c2>>
Init == k1 \in KeyForms /\ k2 \in KeyForms /\ c1 \in ProofClasses /\ c2 \in ProofClasses
Next == UNCHANGED vars
Spec == Init /\ [][Next]_vars

Definition(a1, p1, a2, p2) ==
  /\ Decodable(p1) /\ Decodable(p2)
  /\ InG1(Proof(p1, a1)) /\ InG1(Proof(p2, a2))
  /\ ~PkIsIdentity(PkOf(a1)) /\ ~PkIsIdentity(PkOf(a2))
  /\ PairEq(Proof(p1, a1), PkOf(a2), Proof(p2, a2), PkOf(a1))

\* the staged procedure of the code
Staged(a1, p1, a2, p2) ==
  IF p1 = "wronglen" \/ p2 = "wronglen" THEN FALSE                               \* spock.go:96
  ELSE IF PkIsIdentity(PkOf(a1)) \/ PkIsIdentity(PkOf(a2)) THEN FALSE            \* :100
  ELSE IF p1 = "badenc" \/ ~InG1(Proof(p1, a1)) THEN FALSE                       \* bls_core.c:492-497
  ELSE IF p2 = "badenc" \/ (~DropSecondMembership /\ ~InG1(Proof(p2, a2))) THEN FALSE   \* :499-504
  ELSE PairEq(Proof(p1, a1), PkOf(a2), Proof(p2, a2), PkOf(a1))                 \* e(p1, -pk2) e(p2, pk1) = 1

DecidesDefinition == Staged(k1, c1, k2, c2) = Definition(k1, c1, k2, c2)
SwapSymmetric     == Definition(k1, c1, k2, c2) = Definition(k2, c2, k1, c1)
\* two honest proofs over the same data always verify (keys non-identity)
HonestVerifies    == (c1 = "honest" /\ c2 = "honest" /\ k1 # "zero" /\ k2 # "zero") => Definition(k1, c1, k2, c2)

Emit == PrintT(<<"CASE", ToJson([k1 |-> k1, p1 |-> c1, k2 |-> k2, p2 |-> c2, expect |-> Definition(k1, c1, k2, c2)])>>)
=============================================================================
