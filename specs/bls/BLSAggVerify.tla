------------------------------ MODULE BLSAggVerify ------------------------------
(***************************************************************************
 VerifyBLSSignatureManyMessages (bls_multisig.go:330-470, bls_core.c:76-248)
 with its Go bookkeeping: two maps (per distinct hash, per distinct key
 representation), the choice of the cheaper grouping, the flattening with
 per-group counts in Go map-iteration order, and the two C loops consuming the
 flat arrays through running offsets.  Checked against the definition (C02):

   TRUE  <=>  s is a canonical encoding of an element of G1,  no input key is the identity,
              e(s, g2) = Prod_i e(H(m_i), pk_i)

 for every input list up to MaxLen over key objects {a, a2, na, b, id}
 (a2: the same point as a held in another object with another internal representation,
 na = -a, id = identity) and three messages, every signature class, and EVERY iteration
 order of the two Go maps.
 A pairing product Prod e(A_j, B_j) is represented by its exponent: the E1-form Sum B_j (x) A_j.
 ***************************************************************************)
EXTENDS Algebra, TLC, Json, SequencesExt

CONSTANTS MaxLen,
          Bug          \* "none"; negative controls: "offset" (per-message loop does not advance its key offset)

KeyObjs == {"a", "a2", "na", "b", "id"}
Val(k) == CASE k = "a" -> Pk("x1") [] k = "a2" -> Pk("x1") [] k = "na" -> PkNeg(Pk("x1")) [] k = "b" -> Pk("x2") [] k = "id" -> PkZero
Inputs == UNION {[1..n -> [k : KeyObjs, m : Msgs]] : n \in 1..MaxLen}
SigClasses == {"agg", "aggPlusT", "aggPlusD", "dropLast", "identity", "badenc"}

PairsOf(inp) == [i \in 1..Len(inp) |-> [pk |-> Val(inp[i].k), m |-> inp[i].m]]
ElemOf(sc, inp) ==
  CASE sc = "agg"      -> SumSigs(PairsOf(inp))
    [] sc = "aggPlusT" -> E1Add(SumSigs(PairsOf(inp)), E1(ZeroC, 0, 1))
    [] sc = "aggPlusD" -> E1Add(SumSigs(PairsOf(inp)), E1(ZeroC, 1, 0))
    [] sc = "dropLast" -> SumSigs(SubSeq(PairsOf(inp), 1, Len(inp) - 1))
    [] OTHER           -> E1Zero

Definition(inp, sc) ==
  /\ sc # "badenc"
  /\ InG1(ElemOf(sc, inp))
  /\ \A i \in 1..Len(inp) : ~PkIsIdentity(Val(inp[i].k))
  /\ PairingEq(ElemOf(sc, inp), PairsOf(inp))

(* ---------- the implementation's bookkeeping ---------- *)
DistinctMsgs(inp) == {inp[i].m : i \in 1..Len(inp)}
DistinctKeys(inp) == {inp[i].k : i \in 1..Len(inp)}          \* by object representation: a and a2 are different map keys
UsePerMessage(inp) == Cardinality(DistinctMsgs(inp)) < Cardinality(DistinctKeys(inp))     \* :392

\* mapPerHash[h] = the keys signed on h, in input order; mapPerPk[k] = the messages of key k, in input order
KeysOf(inp, h) == SelectSeq([i \in 1..Len(inp) |-> IF inp[i].m = h THEN inp[i].k ELSE "-"], LAMBDA x : x # "-")
MsgsOf(inp, k) == SelectSeq([i \in 1..Len(inp) |-> IF inp[i].k = k THEN inp[i].m ELSE "-"], LAMBDA x : x # "-")

RECURSIVE FlatK(_, _)
FlatK(inp, order) == IF order = <<>> THEN <<>> ELSE KeysOf(inp, order[1]) \o FlatK(inp, Tail(order))
RECURSIVE FlatM(_, _)
FlatM(inp, order) == IF order = <<>> THEN <<>> ELSE MsgsOf(inp, order[1]) \o FlatM(inp, Tail(order))

RECURSIVE SumPk(_, _, _)
SumPk(flat, from, n) == IF n = 0 THEN PkZero ELSE PkAdd(Val(flat[from]), SumPk(flat, from + 1, n - 1))

\* bls_verifyPerDistinctMessage: for group i, aggregated key = sum of pks_per_hash[i] keys starting at offset
RECURSIVE PerMsgLoop(_, _, _, _)
PerMsgLoop(order, counts, flat, offset) ==
  IF order = <<>> THEN E1Zero
  ELSE E1Add(Sig(SumPk(flat, offset + 1, counts[1]), order[1]),
             PerMsgLoop(Tail(order), Tail(counts), flat, IF Bug = "offset" THEN offset ELSE offset + counts[1]))

\* bls_verifyPerDistinctKey: for group i, the hash points of its hashes_per_pk[i] messages are summed (index_offset runs on)
RECURSIVE SumH(_, _, _, _)
SumH(pk, flat, from, n) == IF n = 0 THEN E1Zero ELSE E1Add(Sig(pk, flat[from]), SumH(pk, flat, from + 1, n - 1))
RECURSIVE PerKeyLoop(_, _, _, _)
PerKeyLoop(order, counts, flat, offset) ==
  IF order = <<>> THEN E1Zero
  ELSE E1Add(SumH(Val(order[1]), flat, offset + 1, counts[1]), PerKeyLoop(Tail(order), Tail(counts), flat, offset + counts[1]))

\* the verdict computed through the chosen grouping, for one iteration order of the map
VerdictWith(inp, sc, order) ==
  IF sc = "badenc" THEN FALSE                                                  \* E1_read_bytes
  ELSE IF \E i \in 1..Len(inp) : PkIsIdentity(Val(inp[i].k)) THEN FALSE        \* :381 (Go, before any pairing)
  ELSE IF ~InG1(ElemOf(sc, inp)) THEN FALSE                                    \* E1_in_G1
  ELSE LET prod == IF UsePerMessage(inp)
                   THEN PerMsgLoop(order, [i \in 1..Len(order) |-> Len(KeysOf(inp, order[i]))], FlatK(inp, order), 0)
                   ELSE PerKeyLoop(order, [i \in 1..Len(order) |-> Len(MsgsOf(inp, order[i]))], FlatM(inp, order), 0)
           s == ElemOf(sc, inp)
       IN s.c = prod.c /\ s.d = 0                                              \* e(s, -g2) * prod = 1

Orders(inp) == IF UsePerMessage(inp) THEN SetToSeqs(DistinctMsgs(inp)) ELSE SetToSeqs(DistinctKeys(inp))
\* SetToSeqs (SequencesExt): every arrangement of the set as a sequence

VARIABLES inp, sc
Init == inp \in Inputs /\ sc \in SigClasses
Next == UNCHANGED <<inp, sc>>
Spec == Init /\ [][Next]_<<inp, sc>>

\* both groupings, in every map iteration order, decide the definition
GroupingDecidesDefinition == \A order \in Orders(inp) : VerdictWith(inp, sc, order) = Definition(inp, sc)
\* one message: the definition of VerifyBLSSignatureOneMessage is Verify under the sum of the keys
OneMessageDefinition(i, s) ==
  /\ s # "badenc" /\ InG1(ElemOf(s, i))
  /\ ~PkIsIdentity(SumPk([j \in 1..Len(i) |-> i[j].k], 1, Len(i)))
  /\ PairingEq(ElemOf(s, i), <<[pk |-> SumPk([j \in 1..Len(i) |-> i[j].k], 1, Len(i)), m |-> i[1].m]>>)

Emit == PrintT(<<"CASE", ToJson([inp |-> inp, sig |-> sc, expect |-> Definition(inp, sc),
                                 path |-> IF UsePerMessage(inp) THEN "per-message" ELSE "per-key",
                                 onemsg |-> IF Cardinality(DistinctMsgs(inp)) = 1 THEN (IF OneMessageDefinition(inp, sc) THEN "true" ELSE "false") ELSE "n/a"])>>)
=============================================================================
