------------------------------ MODULE Serialization ------------------------------
(***************************************************************************
 Decoders as decision trees over classes of byte strings (C05): each decoder
 is modelled stage by stage as the code checks things, and compared with the
 documented acceptance set
        accept(b)  <=>  b is THE canonical encoding of an element of the documented set
 (so that accept => re-encode = input).  Every class combination is emitted
 and concretised with reference encoders (ZCash compressed G1/G2, big-endian
 scalars, X9.62 raw / compressed points); the real decoder must accept or
 reject as the model says and re-encode accepted inputs to the same bytes.

 dec:  "bls-sk" | "bls-pk" | "bls-sig" (signature parsing in aggregation)
       "ecdsa-sk" | "ecdsa-pk-raw" | "ecdsa-pk-comp"   (each for the two curves, chosen by the harness)
 ***************************************************************************)
EXTENDS Integers, FiniteSets, TLC, Json

CONSTANT InfinityLoopBound    \* "all" (repaired code): every byte after the header of an infinity encoding is checked
                              \* "skip-last" (pinned tree, negative control): the last byte is not

Scalars == {"0", "1", "mid", "ord-1", "ord", "ord+1", "max"}        \* relative to the group order
ScalarOK(v) == v \in {"1", "mid", "ord-1"}

SkCases(dec, lens, ok) == {[dec |-> dec, len |-> l, val |-> v, cbit |-> 1, ibit |-> 0, sbit |-> 0, body |-> "-"] : l \in lens, v \in Scalars}

\* compressed point encodings: flag bits x body class
PointBodies == {"valid", "xgep", "nonresidue", "oncurve-outside-subgroup", "subgroup+smallorder"}
InfBodies   == {"zeros", "garbage-first", "garbage-mid", "garbage-last"}
PointCases(dec, okLen, lens) ==
     {[dec |-> dec, len |-> l, val |-> "-", cbit |-> c, ibit |-> 0, sbit |-> s, body |-> b] : l \in lens, c \in {0, 1}, s \in {0, 1}, b \in PointBodies}
\cup {[dec |-> dec, len |-> okLen, val |-> "-", cbit |-> c, ibit |-> 1, sbit |-> s, body |-> b] : c \in {0, 1}, s \in {0, 1}, b \in InfBodies}

\* ECDSA raw public keys: X || Y
RawBodies == {"valid", "valid-leading-zero", "y-negated", "xgep", "ygep", "not-on-curve", "all-zero"}
RawCases == {[dec |-> "ecdsa-pk-raw", len |-> l, val |-> "-", cbit |-> 1, ibit |-> 0, sbit |-> 0, body |-> b] : l \in {0, 63, 64, 65, 128}, b \in RawBodies}
\* ECDSA compressed public keys: prefix byte || X;  prefix class
Prefixes == {"02", "03", "00", "01", "04", "05", "06", "07", "ff"}
CompBodies == {"valid", "xgep", "not-on-curve"}
CompCases == {[dec |-> "ecdsa-pk-comp", len |-> l, val |-> p, cbit |-> 1, ibit |-> 0, sbit |-> 0, body |-> b] : l \in {0, 32, 33, 34, 65}, p \in Prefixes, b \in CompBodies}
        \* a VALID encoding of the point in another X9.62 form (uncompressed 04||X||Y, hybrid 06/07||X||Y), 65 bytes: not a compressed key
        \cup {[dec |-> "ecdsa-pk-comp", len |-> 65, val |-> p, cbit |-> 1, ibit |-> 0, sbit |-> 0, body |-> "valid-xy"] : p \in {"04", "06", "07"}}
        \* and the raw decoder handed a compressed or prefixed encoding
RawOther == {[dec |-> "ecdsa-pk-raw", len |-> l, val |-> "-", cbit |-> 1, ibit |-> 0, sbit |-> 0, body |-> b] : l \in {33, 65}, b \in {"compressed-form", "prefixed-04"}}

Cases == SkCases("bls-sk", {0, 1, 31, 32, 33, 64}, 32) \cup SkCases("ecdsa-sk", {0, 1, 31, 32, 33, 64}, 32)
    \cup PointCases("bls-pk", 96, {0, 48, 95, 96, 97, 192}) \cup PointCases("bls-sig", 48, {0, 47, 48, 49, 96})
    \cup RawCases \cup CompCases \cup RawOther

VARIABLES c, pc, verdict
vars == <<c, pc, verdict>>
Init == c \in Cases /\ pc = "length" /\ verdict = "pending"

OkLen(d) == CASE d \in {"bls-sk", "ecdsa-sk"} -> 32 [] d = "bls-pk" -> 96 [] d = "bls-sig" -> 48 [] d = "ecdsa-pk-raw" -> 64 [] d = "ecdsa-pk-comp" -> 33
Done(v) == pc' = "done" /\ verdict' = v /\ UNCHANGED c
Goto(p) == pc' = p /\ UNCHANGED <<c, verdict>>

IsPoint == c.dec \in {"bls-pk", "bls-sig"}
StageLength == pc = "length" /\ (IF c.len # OkLen(c.dec) THEN Done("reject") ELSE
                                 IF IsPoint THEN Goto("flags") ELSE IF c.dec \in {"bls-sk", "ecdsa-sk"} THEN Goto("range") ELSE Goto("coords"))
StageRange  == pc = "range" /\ (IF ScalarOK(c.val) THEN Done("accept") ELSE Done("reject"))      \* Fr_star_read_bytes / rawDecodePrivateKey
\* E1_read_bytes / E2_read_bytes (bls12381_utils.c:494-568, 789-867)
StageFlags  == pc = "flags" /\
  (IF c.cbit = 0 THEN Done("reject")                                                   \* compression bit
   ELSE IF c.ibit = 1
        THEN IF c.sbit = 1 THEN Done("reject")                                         \* in[0] & 0x3F
             ELSE IF c.body = "zeros" THEN Done("accept")
             ELSE IF c.body = "garbage-last" /\ InfinityLoopBound = "skip-last" THEN Done("accept")   \* defect D4
             ELSE Done("reject")
        ELSE Goto("coords"))
StageCoords == pc = "coords" /\
  (CASE IsPoint -> (IF c.body \in {"xgep", "nonresidue"} THEN Done("reject") ELSE Goto("subgroup"))
     [] c.dec = "ecdsa-pk-raw" -> (IF c.body \in {"valid", "valid-leading-zero", "y-negated"} THEN Done("accept") ELSE Done("reject"))
     [] c.dec = "ecdsa-pk-comp" -> (IF c.val \in {"02", "03"} /\ c.body = "valid" THEN Done("accept") ELSE Done("reject")))
\* public keys must be in G2 (bls.go:351); signatures are only required to be on the curve when aggregated (by design)
StageSubgroup == pc = "subgroup" /\
  (IF c.dec = "bls-pk" /\ c.body # "valid" THEN Done("reject") ELSE Done("accept"))

Next == StageLength \/ StageRange \/ StageFlags \/ StageCoords \/ StageSubgroup \/ (pc = "done" /\ UNCHANGED vars)
Spec == Init /\ [][Next]_vars

\* the documented acceptance set: canonical encodings only
Canonical ==
  /\ c.len = OkLen(c.dec)
  /\ CASE c.dec \in {"bls-sk", "ecdsa-sk"} -> ScalarOK(c.val)
       [] c.dec = "bls-pk"  -> c.cbit = 1 /\ ((c.ibit = 1 /\ c.sbit = 0 /\ c.body = "zeros") \/ (c.ibit = 0 /\ c.body = "valid"))
       [] c.dec = "bls-sig" -> c.cbit = 1 /\ ((c.ibit = 1 /\ c.sbit = 0 /\ c.body = "zeros")
                                              \/ (c.ibit = 0 /\ c.body \in {"valid", "oncurve-outside-subgroup", "subgroup+smallorder"}))
       [] c.dec = "ecdsa-pk-raw"  -> c.body \in {"valid", "valid-leading-zero", "y-negated"}
       [] c.dec = "ecdsa-pk-comp" -> c.val \in {"02", "03"} /\ c.body = "valid"

AcceptsExactlyCanonical == pc = "done" => (verdict = "accept" <=> Canonical)
Emit == pc = "done" => PrintT(<<"CASE", ToJson([c |-> c, expect |-> verdict])>>)
=============================================================================
