------------------------------ MODULE BLSAggregation ------------------------------
(***************************************************************************
 Key and signature aggregation as group homomorphisms (C04;
 bls_multisig.go:112-261) over the symbolic algebra.

 A case is a sequence of base keys (a multiset with an order) from
 {x1, x2, nx1 = -x1, x3} with repetitions allowed, cut into a part A and a
 part B.  For one message m1 the algebra gives the values every function
 must return:
    AggPub(all) = Sum pk_i            AggPriv(all) |-> the same linear form
    AggSig(all) = Sig(Sum pk_i, m1) = Sign(AggPriv(all))
    Remove(AggPub(A \o B), B) = AggPub(A)           nesting: Agg([Agg(A), Agg(B)]) = Agg(A \o B)
 and which of them are the identity (identity key / identity signature
 encodings, IsBLSSignatureIdentity).  The invariants are the homomorphism laws
 in the algebra; the emitted cases drive the real functions, whose outputs are
 compared with reference group arithmetic on the concrete scalars.
 ***************************************************************************)
EXTENDS Algebra, TLC, Json

CONSTANT MaxLen

Names == {"x1", "x2", "nx1", "x3"}
Val(n) == IF n = "nx1" THEN PkNeg(Pk("x1")) ELSE Pk(n)

RECURSIVE PkSum(_)
PkSum(s) == IF s = <<>> THEN PkZero ELSE PkAdd(Val(s[1]), PkSum(Tail(s)))
SigSum(s) == Sig(PkSum(s), "m1")
RECURSIVE SigSumTerms(_)
SigSumTerms(s) == IF s = <<>> THEN E1Zero ELSE E1Add(Sig(Val(s[1]), "m1"), SigSumTerms(Tail(s)))

VARIABLES keys, cut
Init == /\ keys \in UNION {[1..n -> Names] : n \in 1..MaxLen}
        /\ cut \in 0..MaxLen
        /\ cut <= Len(keys)
Next == UNCHANGED <<keys, cut>>
Spec == Init /\ [][Next]_<<keys, cut>>

A == SubSeq(keys, 1, cut)
B == SubSeq(keys, cut + 1, Len(keys))

\* the sum of the signatures is the signature of the sum of the keys
SigHomomorphism == SigSumTerms(keys) = SigSum(keys)
\* aggregation is additive over concatenation (nesting) and removal is its inverse
Nesting  == PkAdd(PkSum(A), PkSum(B)) = PkSum(keys)
Removal  == PkAdd(PkSum(keys), PkNeg(PkSum(B))) = PkSum(A)
\* the aggregate is the identity exactly when the linear form vanishes
IdentityExact == (PkIsIdentity(PkSum(keys)) <=> IsZeroE1(SigSum(keys)))

Coeffs(f) == [x1 |-> f["x1"], x2 |-> f["x2"], x3 |-> f["x3"]]
Emit == PrintT(<<"CASE", ToJson([keys |-> keys, cut |-> cut,
                                 total |-> Coeffs(PkSum(keys)), partA |-> Coeffs(PkSum(A)), partB |-> Coeffs(PkSum(B)),
                                 totalIsIdentity |-> PkIsIdentity(PkSum(keys)), aIsIdentity |-> PkIsIdentity(PkSum(A))])>>)
=============================================================================
