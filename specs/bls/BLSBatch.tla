------------------------------ MODULE BLSBatch ------------------------------
(***************************************************************************
 BatchVerifyBLSSignaturesOneMessage (bls_multisig.go:480-562, bls_core.c:285-474)
 against its definition (C03):  result[i] = Verify(pk_i, sig_i, m)  for every i.

 Entry classes (per index):
   "ok"        the valid signature of key i
   "bad"       an invalid signature in G1, unrelated to everything else
   "dp","dm"   valid signature + d  /  valid signature - d  (d a fixed point of G1): individually invalid,
               but their errors cancel in any sum that contains both with EQUAL coefficients
   "malformed" 48 bytes that do not decode          "short"  a string of another length
   "nong1"     a curve point outside G1              "idsig"  the identity signature
   "idkey"     the valid signature but the key is the identity
 Pipeline: Go pre-marking and substitution of (identity key, identity signature) for short / identity-key entries;
 C pre-marking of undecodable / non-G1 signatures (replaced by the identity pair, marked INVALID);
 a fresh non-zero random coefficient per leaf; aggregation tree with the len/2 split; top-down isolation.

 A node carries the set of error terms below it.  With independent random coefficients (Coeffs = "random") a
 node verifies iff every leaf below it verifies (error terms cannot cancel, except with probability 2^-128);
 with a constant coefficient (Coeffs = "constant", negative control) +d and -d cancel.
 ***************************************************************************)
EXTENDS Integers, Sequences, FiniteSets, TLC, Json

CONSTANTS MaxN, Classes, Coeffs, Split      \* Split: "len/2" as in the code; "wrong" (negative control): the walk swaps left and right lengths

VARIABLE inp
Init == inp \in UNION {[1..n -> Classes] : n \in 1..MaxN}
Next == UNCHANGED inp
Spec == Init /\ [][Next]_inp

Definition(i) == inp[i] = "ok"

\* Go: entries replaced by the identity pair, result forced to false (bls_multisig.go:518-529)
GoMarked(i) == inp[i] \in {"short", "idkey"}
\* C: signature undecodable or outside G1: identity pair, INVALID (bls_core.c:444-449)
CMarked(i)  == ~GoMarked(i) /\ inp[i] \in {"malformed", "nong1"}
\* error term of a leaf as the tree sees it: 0 = verifies alone
Err(i) == IF GoMarked(i) \/ CMarked(i) THEN "0"          \* the identity pair verifies
          ELSE CASE inp[i] = "ok" -> "0" [] inp[i] = "dp" -> "+d" [] inp[i] = "dm" -> "-d"
                 [] inp[i] = "idsig" -> "k" \o ToString(i)   \* e(0,.) e(h, pk_i) # 1: an error proportional to the key
                 [] OTHER -> "e" \o ToString(i)

\* does the aggregate of leaves from..to verify?
NodeOK(from, to) ==
  LET errs == [i \in from..to |-> Err(i)] IN
  IF Coeffs = "random" THEN \A i \in from..to : errs[i] = "0"
  ELSE /\ \A i \in from..to : errs[i] \in {"0", "+d", "-d"}
       /\ Cardinality({i \in from..to : errs[i] = "+d"}) = Cardinality({i \in from..to : errs[i] = "-d"})

RightLen(len, mode) == IF mode = "len/2" THEN len \div 2 ELSE len - (len \div 2)

\* build_tree (bls_core.c:319): a node covers leaves lo..hi; right_len = len/2, left_len = len - right_len
RECURSIVE Build(_, _)
Build(lo, len) ==
  IF len = 1 THEN [lo |-> lo, hi |-> lo, leaf |-> TRUE, l |-> <<>>, r |-> <<>>]
  ELSE LET right == RightLen(len, "len/2")  left == len - right IN
       [lo |-> lo, hi |-> lo + len - 1, leaf |-> FALSE, l |-> Build(lo, left), r |-> Build(lo + left, right)]

\* bls_batch_verify_tree (:370): walks the tree with ITS OWN computation of the split to address the results array
RECURSIVE Walk(_, _, _, _)
Walk(node, at, len, res) ==      \* results of this node live in res[at .. at+len-1]
  IF NodeOK(node.lo, node.hi)
  THEN [i \in DOMAIN res |-> IF i \in at..(at + len - 1) /\ res[i] = "U" THEN "V" ELSE res[i]]   \* do not overwrite invalid results
  ELSE IF node.leaf THEN [res EXCEPT ![at] = "I"]
  ELSE LET right == RightLen(len, Split)  left == len - right
           r1    == Walk(node.l, at, left, res)
       IN Walk(node.r, at + left, right, r1)

N == Len(inp)
CResults == Walk(Build(1, N), 1, N, [i \in 1..N |-> IF CMarked(i) THEN "I" ELSE "U"])
\* Go merge (bls_multisig.go:553-560): only entries not pre-marked false take the C result
Result(i) == IF GoMarked(i) THEN FALSE ELSE CResults[i] = "V"

AgreesWithVerify == \A i \in 1..N : Result(i) = Definition(i)
NoneUndefined    == \A i \in 1..N : CResults[i] # "U"

Emit == PrintT(<<"CASE", ToJson([inp |-> inp])>>)
=============================================================================
