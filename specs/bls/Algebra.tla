------------------------------ MODULE Algebra ------------------------------
(***************************************************************************
 A symbolic algebra of the BLS12-381 pairing groups, just rich enough to
 decide every verdict the BLS properties talk about.

   * formal secret keys  k \in Keys  (independent indeterminates)
   * formal hash points  m \in Msgs  (one per distinct (hasher key, message) pair:
     H(m) are independent generators of G1 as far as any verifier can tell)
   * a public key (element of G2) is a linear form over Keys:   [Keys -> Int]
   * an element of E1 is  Sum c[k,m] * (k * H(m))  +  d * D  +  t * T
       c : [Keys \X Msgs -> Int]   the part in G1 spanned by the signatures in play
       d : Int                     multiple of a foreign point D of G1 (independent of everything)
       t : 0..2                    multiple of a point T of order 3 on E1, outside G1
 Concretisation assigns independent uniform scalars to the keys and real hash
 points to the messages, so two formal elements are equal iff their concrete
 values are equal, except with probability about 2^-250 (Schwartz-Zippel).

 The pairing e(s, g2) = Prod e(H(m_i), pk_i) holds iff the G1 part of s is
 Sum pk_i (x) H(m_i) and d = 0: the pairing kills T (its order is prime to r),
 which is exactly why membership in G1 is a separate obligation (InG1).
 ***************************************************************************)
EXTENDS Integers, Sequences, FiniteSets

CONSTANTS Keys, Msgs

Atoms  == Keys \X Msgs
ZeroC  == [a \in Atoms |-> 0]
E1(c, d, t) == [c |-> c, d |-> d, t |-> t % 3]
E1Zero == E1(ZeroC, 0, 0)
E1Add(a, b) == E1([x \in Atoms |-> a.c[x] + b.c[x]], a.d + b.d, a.t + b.t)
E1Neg(a)    == E1([x \in Atoms |-> -a.c[x]], -a.d, 3 - a.t)
E1Scale(n, a) == E1([x \in Atoms |-> n * a.c[x]], n * a.d, ((n % 3) + 3) * a.t)
InG1(a)     == a.t = 0
IsZeroE1(a) == a.c = ZeroC /\ a.d = 0 /\ a.t = 0

\* public keys
PkZero == [k \in Keys |-> 0]
Pk(k)  == [j \in Keys |-> IF j = k THEN 1 ELSE 0]
PkAdd(a, b) == [k \in Keys |-> a[k] + b[k]]
PkNeg(a)    == [k \in Keys |-> -a[k]]
PkIsIdentity(a) == a = PkZero

\* the signature of message m by the secret key behind the linear form pk:  pk (x) H(m)
Sig(pk, m) == E1([x \in Atoms |-> IF x[2] = m THEN pk[x[1]] ELSE 0], 0, 0)

RECURSIVE SumSigs(_)
\* pairs: sequence of [pk, m]
SumSigs(pairs) == IF pairs = <<>> THEN E1Zero ELSE E1Add(Sig(pairs[1].pk, pairs[1].m), SumSigs(Tail(pairs)))

\* e(s, g2) = Prod e(H(m_i), pk_i)
PairingEq(s, pairs) == s.c = SumSigs(pairs).c /\ s.d = 0
=============================================================================
