------------------------------ MODULE BLSVerify ------------------------------
(***************************************************************************
 PublicKey.Verify as a staged decision procedure (bls.go:199-231,
 bls_core.c:256-275) over classes of inputs, against its definition (C01):

   Verify(pk, sig, m, hasher) = TRUE  <=>  sig is the canonical compressed encoding
                                           of sk * H(m), pk is not the identity.

 A candidate signature is  (encoding class, element of E1):
   enc "canon"      the canonical 48-byte compressed encoding of the element
       "identity"   the canonical encoding of the point at infinity
       other        a string that is not a canonical encoding of any point: wrong length, compression bit clear,
                    x >= p, x with x^3+4 a non-residue, infinity flag with other bits / bytes set
 Stages (pc): hasher -> length -> key identity -> E1 read -> G1 membership -> pairing.
 ***************************************************************************)
EXTENDS Algebra, TLC, Json

CONSTANT DropMembershipCheck    \* FALSE; TRUE only in the negative control (bls_core.c:265 removed)

KeyForms == {<<"x1", 1>>, <<"x2", 1>>, <<"x1", -1>>, <<"x1+x2", 1>>, <<"zero", 0>>}
PkOf(kf) == CASE kf[1] = "x1" -> (IF kf[2] = 1 THEN Pk("x1") ELSE PkNeg(Pk("x1")))
              [] kf[1] = "x2" -> Pk("x2")
              [] kf[1] = "x1+x2" -> PkAdd(Pk("x1"), Pk("x2"))
              [] kf[1] = "zero" -> PkZero

Hashers == {"kmac", "custom128", "size127", "size129", "nil"}
BadEncodings == {"len0", "len1", "len47", "len49", "len96", "len200", "uncompressed", "xgep", "nonresidue",
                 "inf+signbit", "inf+xbits", "inf+lastbyte", "inf+midbyte"}

\* what the candidate was computed from, relative to the verifier's (pk, m):
SigClasses == {"valid", "otherkey", "othermsg", "negated", "plusT", "plus2T", "plusD", "double", "identity"} \cup BadEncodings

\* the element a candidate of class sc encodes (for decodable classes), the verifier using key form kf and message "m1"
ElemOf(sc, kf) ==
  LET v == Sig(PkOf(kf), "m1") IN
  CASE sc = "valid"    -> v
    [] sc = "otherkey" -> Sig(Pk("x3"), "m1")
    [] sc = "othermsg" -> Sig(PkOf(kf), "m2")
    [] sc = "negated"  -> E1Neg(v)
    [] sc = "plusT"    -> E1Add(v, E1(ZeroC, 0, 1))
    [] sc = "plus2T"   -> E1Add(v, E1(ZeroC, 0, 2))
    [] sc = "plusD"    -> E1Add(v, E1(ZeroC, 1, 0))
    [] sc = "double"   -> E1Scale(2, v)
    [] sc = "identity" -> E1Zero
    [] OTHER           -> E1Zero

VARIABLES kf, hs, sc, pc, verdict
vars == <<kf, hs, sc, pc, verdict>>

Init == /\ kf \in KeyForms /\ hs \in Hashers /\ sc \in SigClasses
        /\ pc = "hasher" /\ verdict = "pending"

Done(v) == pc' = "done" /\ verdict' = v /\ UNCHANGED <<kf, hs, sc>>
Goto(p) == pc' = p /\ UNCHANGED <<kf, hs, sc, verdict>>

StageHasher  == pc = "hasher" /\ (IF hs = "nil" THEN Done("err:nilHasher")                       \* bls.go:138
                                   ELSE IF hs \in {"size127", "size129"} THEN Done("err:hasherSize")
                                   ELSE Goto("length"))
StageLength  == pc = "length" /\ (IF sc \in {"len0", "len1", "len47", "len49", "len96", "len200"} THEN Done("false")   \* :206
                                   ELSE Goto("keyid"))
StageKeyId   == pc = "keyid" /\ (IF PkIsIdentity(PkOf(kf)) THEN Done("false") ELSE Goto("read"))   \* :213
StageRead    == pc = "read" /\ (IF sc \in BadEncodings THEN Done("false") ELSE Goto("member"))     \* E1_read_bytes
StageMember  == pc = "member" /\ (IF ~DropMembershipCheck /\ ~InG1(ElemOf(sc, kf)) THEN Done("false") ELSE Goto("pairing"))  \* E1_in_G1
StagePairing == pc = "pairing" /\ (IF PairingEq(ElemOf(sc, kf), <<[pk |-> PkOf(kf), m |-> "m1"]>>) THEN Done("true") ELSE Done("false"))

Next == StageHasher \/ StageLength \/ StageKeyId \/ StageRead \/ StageMember \/ StagePairing \/ (pc = "done" /\ UNCHANGED vars)
Spec == Init /\ [][Next]_vars

(* ---------- the definition ---------- *)
HasherOK == hs \in {"kmac", "custom128"}
Definition ==
  IF hs = "nil" THEN "err:nilHasher"
  ELSE IF ~HasherOK THEN "err:hasherSize"
  ELSE IF sc \notin BadEncodings /\ ~PkIsIdentity(PkOf(kf)) /\ ElemOf(sc, kf) = Sig(PkOf(kf), "m1") THEN "true"
  ELSE "false"

DecidesDefinition == pc = "done" => verdict = Definition
\* exactly one 48-byte string is accepted per (key, message, hasher): only class "valid" can yield TRUE
UniqueAccepted    == (pc = "done" /\ verdict = "true") => sc = "valid"
IdentityKeyRejects == (pc = "done" /\ PkIsIdentity(PkOf(kf)) /\ HasherOK) => verdict = "false"

Emit == pc = "done" => PrintT(<<"CASE", ToJson([key |-> kf, hasher |-> hs, sig |-> sc, expect |-> verdict])>>)
=============================================================================
