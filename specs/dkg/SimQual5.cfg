CONSTANTS
  FixD1 = TRUE
  FixD2 = TRUE
  N = 4
  T = 1
  Dealers = {0}
  Byz = {0}
  MaxB = 6
  MaxP = 2
  Slack = 1
  Polys = {"P1", "P2"}
  SimMode = TRUE
SPECIFICATION Spec
INVARIANT Agreement
INVARIANT KeysConsistent
INVARIANT NoHonestBlamed
INVARIANT HonestDealerQualified
INVARIANT BadDealerDisqualified
CHECK_DEADLOCK FALSE
