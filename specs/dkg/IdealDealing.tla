---------------------------- MODULE IdealDealing ----------------------------
(***************************************************************************
 The ideal functionality a verifiable dealing (one dealer of Feldman-VSS-Qual,
 or every dealer of Joint-Feldman) is meant to implement, as seen by the honest
 participants collectively: for every dealer there is ONE verdict, undecided
 until the protocol ends and never revised afterwards; an honest dealer is
 never disqualified; a qualified dealer is committed to exactly one polynomial.
 DKGNet refines this specification under the mapping given there.
 ***************************************************************************)
EXTENDS TLC
VARIABLES verdict, commit
CONSTANT honestDealers
vars == <<verdict, commit>>
NONE == "none"

Init == /\ \A d \in DOMAIN verdict : verdict[d] = "undecided"
        /\ \A d \in DOMAIN commit : commit[d] = NONE

\* the protocol ends: every dealer gets its final verdict at once
Decide == /\ \A d \in DOMAIN verdict : verdict[d] = "undecided"
          /\ \A d \in DOMAIN verdict : /\ verdict'[d] \in {"qualified", "disqualified"}
                                        /\ (d \in honestDealers => verdict'[d] = "qualified")
                                        /\ (verdict'[d] = "qualified" <=> commit'[d] # NONE)
          /\ DOMAIN verdict' = DOMAIN verdict /\ DOMAIN commit' = DOMAIN commit

Next == Decide
Spec == Init /\ [][Next]_vars
=============================================================================
