------------------------------ MODULE RefDealing ------------------------------
(***************************************************************************
 Dealings of a protocol-following dealer whose polynomial has a special
 SHAPE (C07 / C08 / C01 / C10): the case matrix that harness/dkgsim/refdealer.go
 executes with a dealer implemented in reference arithmetic and REAL receivers.

 In the terms of DKGNode.tla such a dealer is an honest dealer of one
 polynomial name: well-formed vector, consistent shares, correct answers.
 The shape is a property of the concrete polynomial P(x) = a_0 + ... + a_t x^t
 that the abstraction forgets, and that the library's own dealer produces with
 probability 2^-255 only:
    generic      every coefficient non-zero
    zero-const   a_0 = 0: the dealer contributes the identity to the group key
    zero-middle  some a_k = 0 with 0 < k < t   (needs t >= 2)
    zero-lead    a_t = 0: the degree drops
    two-zeros    two zero coefficients
    root         P(j+1) = 0 for the participant j that is not running: its public key share is the identity key
    equal        all coefficients equal;   rminus1: coefficients r - 1
    cancel       Joint-Feldman, n = 3: the dealer deals the opposite of the real participant's polynomial (the third is silent):
                 the qualified polynomials sum to zero
 What the specification prescribes (checked on the real End() outputs against reference arithmetic):
    Qualified    the dealer is never complained about, flagged or disqualified
    Outcome      "keys", except "fail" (a DKG failure at every participant, the instance not running afterwards) when the group
                 key is the identity: Feldman-VSS-Qual with a_0 = 0, Joint-Feldman with cancelling polynomials
    IdentityShare the participant whose public key share is the identity key (it verifies nothing), if any
 ***************************************************************************)
EXTENDS Integers, Sequences, FiniteSets, TLC, Json

\* A BYZANTINE reference dealer commits to P with its vector and takes shares and answers from a RELATED polynomial Q: well-formed,
\* inconsistent, and chosen so that a slip in the evaluation of the vector (a skipped factor, a shifted index, a lost sign) could
\* make the two agree.  Every honest receiver complains, finds the answer wrong and disqualifies the dealer.
Relations == {"none", "div-x", "mul-x", "shift-1", "shift+1", "neg", "plus-c", "double", "reverse",
              "garbage-after-identity",       \* a malformed vector: A_0, the identity, then bytes that encode no point; every share is a_0
              "two-answers-before-vector",    \* two receivers are sent malformed shares and complain; both complaints are answered before the
                                              \* vector is broadcast, one answer right, one wrong
              "const-at-target",              \* with shape horner-double: the receiver at the special point is sent a_0 instead of P(x)
              "answer-complaint-vector"}      \* a receiver complains about a malformed share; the others see the dealer's wrong answer first, then
                                              \* the complaint, then the vector
Shapes == {"generic", "zero-const", "zero-middle", "zero-lead", "root", "equal", "rminus1", "two-zeros", "cancel",
           "horner-double",   \* a_(t-1) = x.a_t at the point x of the first real receiver: the Horner evaluation there starts by adding a point to itself
           "own-root"}   \* Joint-Feldman, a rushing dealer: P(own point) = minus the sum of the shares the others sent it: its own summed share is zero
\* (protocol, n, t, reference dealer, participant that is not running or -1)
Nets == {<<"qual", 3, 1, 0, -1>>, <<"qual", 4, 2, 1, -1>>, <<"qual", 4, 2, 3, 2>>, <<"qual", 5, 3, 0, 4>>, <<"qual", 6, 2, 5, 1>>,
         <<"qual", 4, 1, 0, 3>>, <<"jf", 3, 1, 0, -1>>, <<"jf", 4, 2, 2, -1>>, <<"jf", 5, 3, 4, -1>>,
         <<"jf", 3, 1, 0, 2>>, <<"jf", 3, 1, 1, 0>>, <<"jf", 3, 1, 2, 1>>}

VARIABLE c
Applicable(net, shape) ==
  /\ (shape = "root" => net[5] >= 0 /\ net[1] = "qual")
  /\ (shape = "cancel" <=> (net[1] = "jf" /\ net[5] >= 0))
  /\ (shape \in {"zero-middle", "two-zeros"} => net[3] >= 2)
  /\ (shape = "own-root" => net[1] = "jf" /\ net[5] < 0)
RelApplicable(shape, rel) ==
  CASE rel = "none"  -> TRUE
    [] rel = "div-x" -> shape = "zero-const"            \* Q = P / x is a polynomial only then
    [] rel = "garbage-after-identity" -> shape = "zero-middle"
    [] rel = "two-answers-before-vector" -> shape = "generic"
    [] rel = "answer-complaint-vector" -> shape = "generic"
    [] rel = "const-at-target" -> shape = "horner-double"
    [] OTHER         -> shape = "generic"
Init == c \in {[proto |-> net[1], n |-> net[2], t |-> net[3], dealer |-> net[4], silent |-> net[5], shape |-> s, order |-> o, relation |-> r] :
                 net \in Nets, s \in Shapes, o \in 0..2, r \in Relations}
        /\ Applicable(<<c.proto, c.n, c.t, c.dealer, c.silent>>, c.shape)
        /\ RelApplicable(c.shape, c.relation)
        /\ (c.relation = "two-answers-before-vector" => c.proto = "qual" /\ c.n - 1 - (IF c.silent >= 0 THEN 1 ELSE 0) >= 3)
        /\ (c.relation = "answer-complaint-vector" => c.n - 1 - (IF c.silent >= 0 THEN 1 ELSE 0) >= 2 /\ c.order = 0)
        /\ (c.relation # "none" => c.order \in {0, 1})
Next == UNCHANGED c
Spec == Init /\ [][Next]_c

Disqualified(x) == x.relation # "none"            \* by every honest receiver (C08); its polynomial then counts for nothing (C07)
GroupKeyIsIdentity(x) == (x.proto = "qual" /\ x.shape = "zero-const") \/ x.shape = "cancel"
Outcome(x) == IF Disqualified(x) THEN (IF x.proto = "qual" THEN "fail" ELSE "keys") ELSE IF GroupKeyIsIdentity(x) THEN "fail" ELSE "keys"
IdentityShare(x) == IF x.shape = "root" THEN x.silent ELSE IF x.shape = "own-root" THEN x.dealer ELSE -1

\* sanity of the matrix: every shape is exercised in both protocols where it applies, and both outcomes occur
Emit == PrintT(<<"CASE", ToJson([proto |-> c.proto, n |-> c.n, t |-> c.t, dealer |-> c.dealer, silent |-> c.silent, shape |-> c.shape,
                                 order |-> c.order, relation |-> IF c.relation = "none" THEN "" ELSE c.relation, disqualified |-> Disqualified(c),
                                 outcome |-> Outcome(c), identityShare |-> IF Disqualified(c) THEN -1 ELSE IdentityShare(c)])>>)
=============================================================================
