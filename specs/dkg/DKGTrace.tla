---------------------------- MODULE DKGTrace ----------------------------
(***************************************************************************
 Trace validation (binding B2): the ndjson log written by the Go executor
 (harness/dkgsim) while it drives REAL onflow/crypto DKG objects is a
 behaviour of DKGNet.  One event per executed step, with its arguments
 (who received from whom, the landing round chosen for what was emitted,
 the Byzantine scripts in abstract form) and what the real participant did
 in that step: the messages it emitted (abstracted from their bytes) and the
 processor callbacks (kind, reporter, target) it made; the final event
 carries the real End() classes and disqualified sets.  All events are
 fully logged, so validation is linear in the length of the log.
 Many traces of one configuration are concatenated, separated by "reset".
 ***************************************************************************)
EXTENDS DKGNet, Json

CONSTANT TraceFile

TraceLog == ndJsonDeserialize(TraceFile)

VARIABLE l            \* position in Trace
tvars == <<vars, l>>

Ev == TraceLog[l]
IsEvent(a) == l <= Len(TraceLog) /\ Ev.a = a /\ l' = l + 1
SeqToSet(s) == {s[i] : i \in 1..Len(s)}

\* what the real participant(s) emitted and reported in this step equals what the specification computes
ObsMatches == /\ obs'.out = Ev.out
              /\ obs'.fl  = SeqToSet(Ev.fl)

ResMatches == \A p \in Honest : /\ res'[p].cls  = Ev.res[ToString(p)].cls
                                /\ res'[p].disq = SeqToSet(Ev.res[ToString(p)].disq)

ScriptOf(js) == [b \in Byz |-> [bc |-> js[ToString(b)].bc,
                                pv |-> [p \in Honest |-> js[ToString(b)].pv[ToString(p)]]]]

TraceInit == Init /\ l = 1

TReset ==
  /\ IsEvent("reset")
  /\ node' = I_node /\ res' = I_res /\ bq' = I_bq /\ pq' = I_pq /\ bptr' = I_ptr /\ pptr' = I_ptr
  /\ round' = 1 /\ phase' = I_phase /\ usedB' = 0 /\ usedP' = I_usedP /\ blamed' = FALSE
  /\ obs' = NoObs /\ last' = I_last

TByz      == IsEvent("byz") /\ ByzCommit(ScriptOf(Ev.script))
TDeliverB == IsEvent("db")  /\ DeliverB(Ev.p, Ev.s) /\ last'.land = Ev.land /\ ObsMatches
TDeliverP == IsEvent("dp")  /\ DeliverP(Ev.p, Ev.s) /\ last'.land = Ev.land /\ ObsMatches
TAdvance  == IsEvent("adv") /\ Advance /\ ObsMatches /\ (round = 3 => ResMatches)

TraceNext == TReset \/ TByz \/ TDeliverB \/ TDeliverP \/ TAdvance

TraceSpec == TraceInit /\ [][TraceNext]_tvars

\* acceptance: every line was consumed (initial state + one state per line)
TraceAccepted ==
  LET d == TLCGet("stats").diameter IN
  /\ PrintT(<<"TRACE_PREFIX", d - 1, Len(TraceLog)>>)
  /\ d - 1 = Len(TraceLog)
=============================================================================
