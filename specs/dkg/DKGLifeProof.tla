---------------------------- MODULE DKGLifeProof ----------------------------
(* TLAPS: the invariant of the DKG instance life cycle (DKGLifeAbs.tla) is inductive, and every step satisfies the action
   properties, so the single-use rules of C10 hold after call sequences of EVERY length, for both kinds of protocol.
   Checked with `tlapm DKGLifeProof.tla`. *)
EXTENDS DKGLifeAbs, TLAPS

CONSTANT Timeouts
ASSUME TB == Timeouts \in BOOLEAN

VARIABLES phase, nto, cs, ct, ce
vars == <<phase, nto, cs, ct, ce>>

Init == phase = "new" /\ nto = 0 /\ cs = 0 /\ ct = 0 /\ ce = 0
Next == L(Timeouts, phase, nto, cs, ct, ce, phase', nto', cs', ct', ce')
Spec == Init /\ [][Next]_vars
IndInv == Inv(Timeouts, phase, nto, cs, ct, ce)

THEOREM InitInv == Init => IndInv
  BY TB DEF Init, IndInv, Inv, Phases

THEOREM Consecution == IndInv /\ [Next]_vars => IndInv'
  <1>. SUFFICES ASSUME IndInv, [Next]_vars PROVE IndInv' OBVIOUS
  <1>1. CASE StartOK(phase, nto, cs, ct, ce, phase', nto', cs', ct', ce')
    BY <1>1, TB DEF StartOK, IndInv, Inv, Phases
  <1>2. CASE Timeouts /\ Timeout(phase, nto, cs, ct, ce, phase', nto', cs', ct', ce')
    BY <1>2, TB DEF Timeout, IndInv, Inv, Phases
  <1>3. CASE EndOK(Timeouts, phase, nto, cs, ct, ce, phase', nto', cs', ct', ce')
    BY <1>3, TB DEF EndOK, IndInv, Inv, Phases
  <1>4. CASE Other(phase, nto, cs, ct, ce, phase', nto', cs', ct', ce')
    BY <1>4, TB DEF Other, IndInv, Inv, Phases
  <1>5. CASE UNCHANGED vars
    BY <1>5 DEF vars, IndInv, Inv
  <1>. QED BY <1>1, <1>2, <1>3, <1>4, <1>5 DEF Next, L

THEOREM Safety == Spec => []IndInv
  BY InitInv, Consecution, PTL DEF Spec

THEOREM StepProperties == IndInv /\ Next => Ordered(phase, nto, phase', nto')
  <1>. SUFFICES ASSUME IndInv, Next PROVE Ordered(phase, nto, phase', nto') OBVIOUS
  <1>1. CASE StartOK(phase, nto, cs, ct, ce, phase', nto', cs', ct', ce')
    BY <1>1 DEF StartOK, Ordered, Rank, IndInv, Inv, Phases
  <1>2. CASE Timeouts /\ Timeout(phase, nto, cs, ct, ce, phase', nto', cs', ct', ce')
    BY <1>2 DEF Timeout, Ordered, Rank, IndInv, Inv, Phases
  <1>3. CASE EndOK(Timeouts, phase, nto, cs, ct, ce, phase', nto', cs', ct', ce')
    BY <1>3 DEF EndOK, Ordered, Rank, IndInv, Inv, Phases
  <1>4. CASE Other(phase, nto, cs, ct, ce, phase', nto', cs', ct', ce')
    BY <1>4 DEF Other, Ordered, Rank, IndInv, Inv, Phases
  <1>. QED BY <1>1, <1>2, <1>3, <1>4 DEF Next, L
=============================================================================
