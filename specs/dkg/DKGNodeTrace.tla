---------------------------- MODULE DKGNodeTrace ----------------------------
(***************************************************************************
 Trace validation of the REPOSITORY'S OWN DKG tests (TestDKG/FeldmanVSSQual*,
 TestDKG/JointFeldman*: goroutines, channels, their fixed menu of malicious
 behaviours) against the node-level specification DKGNode.tla.

 The tests are run with the hook verifTraceDKG (build tag verif): every
 instance logs each public call, the class of its result, Running() and the
 processor callbacks / emissions it triggered.  harness/dkgsim/repotrace.go
 abstracts the bytes into the vocabulary of DKGNode (a share lies on the
 polynomial of a vector iff s*g2 = Q_V(j+1), decided with the reference
 arithmetic); this module replays each instance's trace: every call must be
 allowed in the current phase, return the prescribed class, emit the
 prescribed kinds of messages and make the prescribed callbacks.
 One configuration (n, t, protocol) per run; traces of all instances of that
 configuration are concatenated, separated by "reset" events that carry the
 participant's index and the dealer.
 ***************************************************************************)
EXTENDS DKGNode, SequencesExt, TLC, Json

CONSTANTS TraceFile, Kind       \* Kind: "qual" | "jf"
Log == ndJsonDeserialize(TraceFile)

VARIABLES l, me, dealers, ps, phase, nto
vars == <<l, me, dealers, ps, phase, nto>>
Ev == Log[l]
IsEvent(e) == l <= Len(Log) /\ Ev.e = e /\ l' = l + 1
SeqToSet(s) == {s[i] : i \in 1..Len(s)}
DSeq == SetToSortSeq(dealers, LAMBDA a, b : a < b)
Kinds(out) == [i \in 1..Len(out) |-> out[i].t]
FlOf(fl) == {<<f[1], f[3]>> : f \in fl}

Init == l = 1 /\ me = 0 /\ dealers = {0} /\ ps = <<>> /\ phase = "none" /\ nto = 0

Reset == /\ IsEvent("reset")
         /\ me' = Ev.me
         /\ dealers' = IF Kind = "jf" THEN Nodes ELSE {Ev.dealer}
         /\ ps' = <<>> /\ phase' = "new" /\ nto' = 0

Observed(out, fl) == Kinds(out) = Ev.out /\ FlOf(fl) = SeqToSet(Ev.fl)

TStart == /\ IsEvent("Start") /\ phase = "new"
          /\ Ev.cls = "nil" /\ Ev.running
          /\ ps' = [d \in dealers |-> InitInst(me, d)]
          /\ Ev.out = (IF me \in dealers THEN [i \in 1..N |-> IF i < N THEN "share" ELSE "vec"] ELSE <<>>)
          /\ phase' = "running" /\ UNCHANGED <<me, dealers, nto>>

THandle(ev, kind) ==
  /\ IsEvent(ev) /\ phase = "running"
  /\ Ev.cls = "nil" /\ Ev.running
  /\ LET r == PStep(kind, me, ps, DSeq, Ev.o, Ev.m) IN ps' = r.ps /\ Observed(r.out, r.fl)
  /\ UNCHANGED <<me, dealers, phase, nto>>

TTimeout == /\ IsEvent("NextTimeout") /\ phase = "running" /\ nto < 2
            /\ Ev.cls = "nil" /\ Ev.running
            /\ LET r == PStep("to", me, ps, DSeq, -1, NONE) IN ps' = r.ps /\ Observed(r.out, r.fl)
            /\ nto' = nto + 1 /\ UNCHANGED <<me, dealers, phase>>

TEnd == /\ IsEvent("End") /\ phase = "running" /\ nto = 2
        /\ ~Ev.running
        /\ LET r == PStep("end", me, ps, DSeq, -1, NONE)
               e == EndResult(Kind = "jf", r.ps, dealers) IN
           /\ ps' = r.ps /\ Observed(r.out, r.fl)
           /\ Ev.cls = (IF e.cls = "keys" THEN "nil" ELSE "F")
        /\ phase' = "ended" /\ UNCHANGED <<me, dealers, nto>>

Next == Reset \/ TStart \/ THandle("HB", "hb") \/ THandle("HP", "hp") \/ TTimeout \/ TEnd
Spec == Init /\ [][Next]_vars

Accepted == LET d == TLCGet("stats").diameter IN
            /\ PrintT(<<"TRACE_PREFIX", d - 1, Len(Log)>>)
            /\ d - 1 = Len(Log)
=============================================================================
