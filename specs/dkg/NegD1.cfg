CONSTANTS
  FixD1 = FALSE
  FixD2 = TRUE
  N = 3
  T = 1
  Dealers = {0}
  Byz = {0}
  MaxB = 2
  MaxP = 1
  Slack = 0
  Polys = {"P1", "P2"}
  SimMode = FALSE
SPECIFICATION Spec
VIEW View
INVARIANT TypeOK
INVARIANT Agreement
INVARIANT KeysConsistent
INVARIANT NoHonestBlamed
INVARIANT HonestDealerQualified
INVARIANT BadDealerDisqualified
INVARIANT OneComplaintPerCause
PROPERTY Monotone
PROPERTY OnlyRelevantInstance
CHECK_DEADLOCK FALSE
