------------------------------ MODULE DKGApi ------------------------------
(***************************************************************************
 The documented single-use state machine of one DKG instance (C10): every
 sequence of API calls of length MaxLen over a reduced alphabet, for the
 three protocols and both roles, with the result class of every call and
 the value of Running() after it.

   phase new --Start--> running --NextTimeout x2 (Qual, JF)--> --End--> ended

 Result classes: "nil", "ST" (dkgInvalidStateTransitionError),
 "II" (invalidInputsError), "F" (dkgFailureError from End), "keys".
 Calls rejected with ST / II are stuttering steps on the instance state.
 Handler bodies are those of DKGNode.tla (Qual, Joint-Feldman) or the plain
 Feldman VSS transcription below, so the End class and the emitted messages
 are predicted too.  Restarting after End is outside the quantifier: Start
 is not offered in phase "ended".

 Fixed cast: N = 3, T = 1; the dealer of the single-dealer protocols is 0;
 Me = 0 (dealer role) or 1; "the other" participant is 2.
 ***************************************************************************)
EXTENDS DKGNode, SequencesExt, TLC, Json

CONSTANTS Proto,     \* "fvss" | "qual" | "jf"
          Me,        \* 0 | 1
          MaxLen,    \* total number of calls
          Prefix     \* calls forced at the beginning (to reach deep phases with a short exhaustive tail)

Dealers   == IF Proto = "jf" THEN Nodes ELSE {0}
DealerSeq == SetToSortSeq(Dealers, LAMBDA a, b : a < b)

\* payloads: abstract messages as in DKGNode; the dealer 0 of polynomial "P1" is a shadow real dealer in the harness
Payload(k) == CASE k = "vec"       -> Vec("ok", "P1")
                [] k = "share"     -> Share("ok", "P1")
                [] k = "complaint" -> Complaint("ok", 0)
                [] k = "answer"    -> Answer("ok", Me, "P1")
                [] k = "junk"      -> Junk("empty")

Call(op, i, k) == [op |-> op, i |-> i, k |-> k]
Alphabet ==
     {Call("Start", 0, "none"), Call("NextTimeout", 0, "none"), Call("End", 0, "none")}
\cup {Call("Start", 0, "short")}       \* Start with a 31-byte seed: an invalid-input error for a participant that deals, ignored otherwise
\cup {Call("HB", 0, "vec"), Call("HB", 2, "complaint"), Call("HB", 0, "answer"), Call("HB", 2, "junk"),
      Call("HB", -1, "vec"), Call("HB", N, "junk"), Call("HB", Me, "vec")}
\cup {Call("HP", 0, "share"), Call("HP", N, "share"), Call("HP", -1, "share")}
\cup {Call("FD", 0, "none"), Call("FD", 1, "none"), Call("FD", 2, "none"), Call("FD", -1, "none"), Call("FD", N, "none")}
\* out-of-range values that are congruent to an in-range index modulo 256 (participant indices are bytes internally)
\cup {Call("HP", 256, "share"), Call("HB", 256, "vec"), Call("FD", 256, "none")}

VARIABLES phase,    \* "new" | "running" | "ended"
          ps,       \* Qual / JF: [Dealers -> instance];  fvss: the plain record below
          hist,     \* calls so far with their result class, Running() afterwards, emissions and callbacks
          nto       \* timeouts taken
vars == <<phase, ps, hist, nto>>

(* ---------- plain Feldman VSS (dkg_feldmanvss.go), participant Me, dealer 0 ---------- *)
FInit == [vA |-> (Me = 0), vOK |-> (Me = 0), vP |-> IF Me = 0 THEN "H" ELSE NONE,
          xR |-> (Me = 0), xP |-> IF Me = 0 THEN "H" ELSE NONE, vk |-> (Me = 0)]
FR(s, fl) == [ps |-> s, out |-> <<>>, fl |-> fl]
FHandleB(s, o, m) ==
  IF o = Me THEN FR(s, {})
  ELSE IF m.t # "vec" THEN FR(s, {Disq(Me, o)})
  ELSE IF o # 0 THEN FR(s, {})
  ELSE IF s.vA THEN FR(s, {Flag(Me, o)})
  ELSE LET s1 == [s EXCEPT !.vA = TRUE, !.vOK = TRUE, !.vP = m.P] IN
       FR(IF s1.xR THEN [s1 EXCEPT !.vk = (s1.xP = s1.vP)] ELSE s1, {})
FHandleP(s, o, m) ==
  IF o = Me \/ o # 0 THEN FR(s, {})
  ELSE IF s.xR THEN FR(s, {Flag(Me, o)})
  ELSE LET s1 == [s EXCEPT !.xR = TRUE, !.xP = m.P] IN
       FR(IF s1.vA THEN [s1 EXCEPT !.vk = (s1.vOK /\ s1.xP = s1.vP)] ELSE s1, {})

(* ---------- one call ---------- *)
\* honest Start of a dealer emits N-1 private shares and the vector
StartOut == IF Me \in Dealers THEN <<"share", "share", "vec">> ELSE <<>>
Kinds(out) == [i \in 1..Len(out) |-> out[i].t]

InRange(i) == i >= 0 /\ i < N

\* returns [cls, phase, ps, nto, out, fl]
Do(c) ==
  LET Rej(cls) == [cls |-> cls, phase |-> phase, ps |-> ps, nto |-> nto, out |-> <<>>, fl |-> {}] IN
  CASE c.op = "Start" ->
         IF phase = "running" THEN Rej("ST")
         ELSE IF c.k = "short" /\ Me \in Dealers THEN Rej("II")    \* dkg_feldmanvss.go:140-157: nothing dealt, not started (repair D8)
         ELSE [cls |-> "nil", phase |-> "running", ps |-> ps, nto |-> nto, out |-> StartOut, fl |-> {}]
    [] c.op = "NextTimeout" ->
         IF Proto = "fvss" THEN Rej("nil")                                   \* no timeouts: a no-op in every phase
         ELSE IF phase # "running" THEN Rej("ST")
         ELSE IF nto = 2 THEN Rej("ST")
         ELSE LET r == PStep("to", Me, ps, DealerSeq, -1, NONE) IN
              [cls |-> "nil", phase |-> phase, ps |-> r.ps, nto |-> nto + 1, out |-> Kinds(r.out), fl |-> r.fl]
    [] c.op = "End" ->
         IF phase # "running" THEN Rej("ST")
         ELSE IF Proto = "fvss"
              THEN [cls |-> IF ps.vk THEN "keys" ELSE "F", phase |-> "ended", ps |-> ps, nto |-> nto, out |-> <<>>, fl |-> {}]
         ELSE IF nto < 2 THEN Rej("ST")
         ELSE LET r == PStep("end", Me, ps, DealerSeq, -1, NONE)
                  e == EndResult(Proto = "jf", r.ps, Dealers) IN
              [cls |-> IF e.cls = "keys" THEN "keys" ELSE "F", phase |-> "ended", ps |-> r.ps, nto |-> nto,
               out |-> <<>>, fl |-> r.fl]
    [] c.op \in {"HB", "HP"} ->
         IF phase # "running" THEN Rej("ST")
         ELSE IF ~InRange(c.i) THEN Rej("II")
         ELSE IF Proto = "fvss"
              THEN LET r == IF c.op = "HB" THEN FHandleB(ps, c.i, Payload(c.k)) ELSE FHandleP(ps, c.i, Payload(c.k)) IN
                   [cls |-> "nil", phase |-> phase, ps |-> r.ps, nto |-> nto, out |-> <<>>, fl |-> r.fl]
              ELSE LET r == PStep(IF c.op = "HB" THEN "hb" ELSE "hp", Me, ps, DealerSeq, c.i, Payload(c.k)) IN
                   [cls |-> "nil", phase |-> phase, ps |-> r.ps, nto |-> nto, out |-> Kinds(r.out), fl |-> r.fl]
    [] c.op = "FD" ->
         IF phase # "running" THEN Rej("ST")
         ELSE IF ~InRange(c.i) THEN Rej("II")
         ELSE IF Proto = "fvss"
              THEN [cls |-> "nil", phase |-> phase, ps |-> IF c.i = 0 THEN [ps EXCEPT !.vk = FALSE] ELSE ps,
                    nto |-> nto, out |-> <<>>, fl |-> {}]
              ELSE [cls |-> "nil", phase |-> phase,
                    ps |-> [d \in Dealers |-> ForceDisq(Me, d, ps[d], c.i)], nto |-> nto, out |-> <<>>, fl |-> {}]

Init == /\ phase = "new" /\ nto = 0 /\ hist = <<>>
        /\ ps = IF Proto = "fvss" THEN FInit ELSE [d \in Dealers |-> InitInst(Me, d)]

Step(c) ==
  /\ Len(hist) < MaxLen
  /\ (Len(hist) < Len(Prefix) => c = Prefix[Len(hist) + 1])
  /\ ~(c.op = "Start" /\ phase = "ended")          \* reuse after End: outside the quantifier
  /\ LET r == Do(c) IN
     /\ phase' = r.phase /\ ps' = r.ps /\ nto' = r.nto
     /\ hist' = Append(hist, [call |-> c, cls |-> r.cls, running |-> (r.phase = "running"),
                              out |-> r.out, fl |-> {<<f[1], f[3]>> : f \in r.fl}])

Next == (\E c \in Alphabet : Step(c)) \/ (Len(hist) = MaxLen /\ UNCHANGED vars)
Spec == Init /\ [][Next]_vars

(* ---------- the documented state machine, as properties of the model ---------- *)
LastCall == hist[Len(hist)]
Rejected(e) == e.cls \in {"ST", "II"}

\* a rejected call is a stuttering step on the instance state
RejectedStutters == [][(Len(hist') > Len(hist) /\ Rejected(hist'[Len(hist')])) => UNCHANGED <<phase, ps, nto>>]_vars
\* Running() is true exactly between an accepted Start and an accepted End
RunningIffPhase  == hist # <<>> => (LastCall.running <=> phase = "running")
\* NextTimeout is accepted exactly twice per run in the Qual-based protocols
TwoTimeouts      == Proto # "fvss" =>
                      Cardinality({i \in 1..Len(hist) : hist[i].call.op = "NextTimeout" /\ hist[i].cls = "nil"}) <= 2
\* End succeeds or fails with a DKG failure only while running, after both timeouts; it leaves the instance not running
EndRule          == \A i \in 1..Len(hist) : hist[i].call.op = "End" =>
                      \/ hist[i].cls = "ST" /\ (i > 1 => hist[i].running = hist[i-1].running)
                      \/ hist[i].cls \in {"keys", "F"} /\ ~hist[i].running
\* handlers, ForceDisqualify are refused before Start and after End
RefusedWhenNotRunning == \A i \in 1..Len(hist) :
                      (hist[i].call.op \in {"HB", "HP", "FD"} /\ (i = 1 \/ ~hist[i-1].running)) => hist[i].cls = "ST"
\* out-of-range indices are refused with an invalid-input error while running
RangeRule        == \A i \in 1..Len(hist) :
                      (hist[i].call.op \in {"HB", "HP", "FD"} /\ i > 1 /\ hist[i-1].running /\ ~InRange(hist[i].call.i))
                         => hist[i].cls = "II"

(* ---------- refinement of the abstract life cycle (DKGLifeAbs.tla; its invariant is proved inductive in DKGLifeProof.tla) ---------- *)
Life == INSTANCE DKGLifeAbs
CS(h) == Cardinality({i \in 1..Len(h) : h[i].call.op = "Start" /\ h[i].cls = "nil"})
CT(h) == IF Proto = "fvss" THEN 0 ELSE Cardinality({i \in 1..Len(h) : h[i].call.op = "NextTimeout" /\ h[i].cls = "nil"})
CE(h) == Cardinality({i \in 1..Len(h) : h[i].call.op = "End" /\ h[i].cls \in {"keys", "F"}})
RefinesLife == [][Life!L(Proto # "fvss", phase, nto, CS(hist), CT(hist), CE(hist), phase', nto', CS(hist'), CT(hist'), CE(hist'))]_vars
LifeInv     == Life!Inv(Proto # "fvss", phase, nto, CS(hist), CT(hist), CE(hist))

Emit == Len(hist) = MaxLen => PrintT(<<"CASE", ToJson([hist |-> hist])>>)
=============================================================================
