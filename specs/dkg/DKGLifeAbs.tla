---------------------------- MODULE DKGLifeAbs ----------------------------
(***************************************************************************
 The life cycle of one DKG instance, reduced to what the single-use rules of
 C10 talk about: the phase, the number of timeouts taken, and the number of
 accepted calls of each kind since construction (history counters, so that
 "at most one Start", "exactly two NextTimeout", "at most one End" are state
 predicates that hold after call sequences of EVERY length).

 L(timeouts, ...) is the transition relation for a protocol with
 (Feldman-VSS-Qual, Joint-Feldman: timeouts = TRUE) or without (plain Feldman
 VSS: FALSE) the two timeouts.  Restart after End lies outside the property's
 quantifier and is not a step of L.

 Used twice:
  * DKGLifeProof.tla (TLAPS): Inv is inductive for L, and every L-step has
    the action properties Ordered, for call sequences of any length;
  * DKGApi.tla (TLC): every step of the implementation-shaped model, whose
    result classes are replayed on real instances, is an L-step under the
    identity mapping on phase / nto and counters read off the history
    (RefinesLife).
 ***************************************************************************)
EXTENDS Integers

Phases == {"new", "running", "ended"}

\* accepted Start: only on an instance that is not running (and, inside the quantifier, not ended)
StartOK(ph, nt, cs, ct, ce, ph2, nt2, cs2, ct2, ce2) ==
  /\ ph = "new" /\ ph2 = "running" /\ nt2 = nt /\ cs2 = cs + 1 /\ ct2 = ct /\ ce2 = ce
\* accepted NextTimeout of a protocol with timeouts: while running, at most twice
Timeout(ph, nt, cs, ct, ce, ph2, nt2, cs2, ct2, ce2) ==
  /\ ph = "running" /\ nt < 2 /\ ph2 = ph /\ nt2 = nt + 1 /\ cs2 = cs /\ ct2 = ct + 1 /\ ce2 = ce
\* End that is not refused (keys or a DKG failure): while running, after both timeouts where there are timeouts
EndOK(timeouts, ph, nt, cs, ct, ce, ph2, nt2, cs2, ct2, ce2) ==
  /\ ph = "running" /\ (timeouts => nt = 2) /\ ph2 = "ended" /\ nt2 = nt /\ cs2 = cs /\ ct2 = ct /\ ce2 = ce + 1
\* message handlers and ForceDisqualify while running; every refused call; NextTimeout of plain Feldman VSS (a no-op)
Other(ph, nt, cs, ct, ce, ph2, nt2, cs2, ct2, ce2) ==
  /\ ph2 = ph /\ nt2 = nt /\ cs2 = cs /\ ct2 = ct /\ ce2 = ce

L(timeouts, ph, nt, cs, ct, ce, ph2, nt2, cs2, ct2, ce2) ==
  \/ StartOK(ph, nt, cs, ct, ce, ph2, nt2, cs2, ct2, ce2)
  \/ (timeouts /\ Timeout(ph, nt, cs, ct, ce, ph2, nt2, cs2, ct2, ce2))
  \/ EndOK(timeouts, ph, nt, cs, ct, ce, ph2, nt2, cs2, ct2, ce2)
  \/ Other(ph, nt, cs, ct, ce, ph2, nt2, cs2, ct2, ce2)

Inv(timeouts, ph, nt, cs, ct, ce) ==
  /\ ph \in Phases /\ nt \in 0..2 /\ cs \in 0..1 /\ ct \in 0..2 /\ ce \in 0..1
  /\ ct = nt                                      \* NextTimeout was accepted exactly as often as a timeout was taken: never a third time
  /\ (ph = "new" <=> cs = 0)                      \* running or ended  <=>  Start was accepted, and it was accepted once
  /\ (ph = "ended" <=> ce = 1)                    \* End was not refused at most once, and the instance is ended exactly since then
  /\ (ph = "new" => nt = 0)
  /\ (~timeouts => nt = 0)
  /\ ((ph = "ended" /\ timeouts) => nt = 2)       \* End was reached only through both timeouts

Rank(ph) == CASE ph = "new" -> 0 [] ph = "running" -> 1 [] OTHER -> 2
\* action properties of every L-step from a state satisfying Inv
Ordered(ph, nt, ph2, nt2) ==
  /\ Rank(ph) <= Rank(ph2) /\ Rank(ph2) <= Rank(ph) + 1    \* the phase only moves forward, one stage at a time
  /\ nt <= nt2                                              \* timeouts are never undone
  /\ (ph = "ended" => (ph2 = ph /\ nt2 = nt))               \* an ended instance is frozen
  /\ (nt2 # nt => (ph = "running" /\ ph2 = "running"))      \* timeouts only while running
=============================================================================
