---------------------------- MODULE DKGNode ----------------------------
(***************************************************************************
 Node-local semantics of one Feldman-VSS-Qual *instance* (one dealer d) as
 kept by one participant p.  Transcribed branch by branch from
 /repo/dkg_feldmanvssq.go (source lines in comments).  Joint-Feldman keeps
 N such instances per participant (dkg_jointfeldman.go) and feeds every
 incoming message to all of them in index order: PStep below.

 Cryptographic values are abstracted to what the handlers can observe:
   * a polynomial *name* P.  Vec("ok",P) is a well-formed verification
     vector of P, Share("ok",P) is the well-formed share P(j+1) for its
     receiver j, Answer("ok",j,P) is P(j+1) published for complainer j.
     verifyShare       ==  xP = vP       (dkg_feldmanvss.go:521)
     checkComplaint    ==  aP # vP       (dkg_feldmanvssq.go:554)
   * malformedness kinds, one per rejecting branch of the code.
 ***************************************************************************)
EXTENDS Integers, Sequences, FiniteSets

CONSTANTS N,        \* number of participants
          T,        \* threshold
          FixD1,    \* TRUE: the code as repaired (complaint broadcast at most once).  FALSE only in negative controls
          FixD2     \* TRUE: the code as repaired (early answer kept by the complainer). FALSE only in negative controls

Nodes == 0..(N-1)
NONE  == "none"

(* ---------------- messages ---------------- *)
Msg(t, k, P, j)  == [t |-> t, k |-> k, P |-> P, j |-> j]
Vec(k, P)        == Msg("vec", k, P, -1)          \* k: "ok" | "bad"
Share(k, P)      == Msg("share", k, P, -1)        \* k: "ok" | "bad"
Complaint(k, c)  == Msg("complaint", k, NONE, c)  \* k: "ok" (c = complainee) | "bad" (size / index >= n)
Answer(k, j, P)  == Msg("answer", k, P, j)        \* k: "ok" | "badscalar" | "bad" (size / index >= n)
Junk(k)          == Msg("junk", k, NONE, -1)      \* k: "empty" | "badtag"

(* ---------------- instance state ---------------- *)
NoComp == [ex |-> FALSE, recv |-> FALSE, ans |-> FALSE, aP |-> NONE]

\* instance of dealer d as kept by participant p after Start():
\* the dealer itself has dealt polynomial "H" (generateShares, dkg_feldmanvss.go:342-394)
InitInst(p, d) ==
  [st   |-> FALSE,                                 \* sharesTimeout
   ct   |-> FALSE,                                 \* complaintsTimeout
   disq |-> FALSE,                                 \* disqualified
   vA   |-> (p = d),                               \* vAReceived
   vP   |-> IF p = d THEN "H" ELSE NONE,           \* which polynomial the stored vector commits to
   xR   |-> (p = d),                               \* xReceived
   xP   |-> IF p = d THEN "H" ELSE NONE,           \* which polynomial the stored share lies on
   comp |-> [c \in Nodes |-> NoComp]]              \* complaints map (ex = key present)

R(s, out, fl) == [s |-> s, out |-> out, fl |-> fl]
Flag(p, tgt)  == <<"flag", p, tgt>>                 \* processor.FlagMisbehavior(tgt) called by p
Disq(p, tgt)  == <<"disq", p, tgt>>                 \* processor.Disqualify(tgt) called by p

VerifyShare(s)  == s.xP # NONE /\ s.xP = s.vP
\* checkComplaint returns TRUE when the published answer is NOT the share committed by the vector
BadAnswer(s, c) == ~(s.comp[c].aP # NONE /\ s.comp[c].aP = s.vP)

\* buildAndBroadcastComplaint (dkg_feldmanvssq.go:523), as repaired:
\*  - idempotent once the own complaint has been broadcast (repair of D1)
\*  - an answer that the dealer broadcast *before* the complaint is kept, checked and adopted (repair of D2)
BuildComplaint(p, d, s) ==
  LET c == s.comp[p] IN
  IF FixD1 /\ c.ex /\ c.recv THEN R(s, <<>>, {})
  ELSE IF ~FixD2      \* the pinned tree: the entry is overwritten by a fresh unanswered complaint
       THEN R([s EXCEPT !.comp[p] = [ex |-> TRUE, recv |-> TRUE, ans |-> FALSE, aP |-> NONE]],
              <<Complaint("ok", d)>>, {Flag(p, d)})
  ELSE LET s1 == [s EXCEPT !.comp[p].ex = TRUE, !.comp[p].recv = TRUE] IN
       IF c.ex /\ c.ans
       THEN IF s1.vA /\ BadAnswer(s1, p)
            THEN R([s1 EXCEPT !.disq = TRUE], <<Complaint("ok", d)>>, {Flag(p, d), Disq(p, d)})
            ELSE R([s1 EXCEPT !.xP = c.aP], <<Complaint("ok", d)>>, {Flag(p, d)})
       ELSE R(s1, <<Complaint("ok", d)>>, {Flag(p, d)})

\* receiveShare (dkg_feldmanvssq.go:402)
RecvShare(p, d, s, o, m) ==
  IF o # d THEN R(s, <<>>, {})                                              \* :404
  ELSE IF s.st THEN R(s, <<>>, {Flag(p, o)})                                \* :409
  ELSE IF s.xR THEN R(s, <<>>, {Flag(p, o)})                                \* :415
  ELSE LET s1 == [s EXCEPT !.xR = TRUE] IN                                  \* :422
       IF m.t # "share" \/ m.k # "ok"                                       \* :425,436,445
       THEN LET r == BuildComplaint(p, d, s1) IN R(r.s, r.out, r.fl \cup {Flag(p, o)})
       ELSE LET s2 == [s1 EXCEPT !.xP = m.P] IN
            IF s2.vA /\ ~VerifyShare(s2) THEN BuildComplaint(p, d, s2) ELSE R(s2, <<>>, {})   \* :452

\* receiveVerifVector (dkg_feldmanvssq.go:460)
RecvVec(p, d, s, o, m) ==
  IF o # d THEN R(s, <<>>, {})                                              \* :462
  ELSE IF s.st THEN R(s, <<>>, {Flag(p, o)})                                \* :467
  ELSE IF s.vA THEN R(s, <<>>, {Flag(p, o)})                                \* :473
  ELSE LET s1 == [s EXCEPT !.vA = TRUE] IN                                  \* :478
       IF m.k # "ok" THEN R([s1 EXCEPT !.disq = TRUE], <<>>, {Disq(p, o)})  \* :480,490
       ELSE LET s2 == [s1 EXCEPT !.vP = m.P] IN
            IF \E c \in Nodes : s2.comp[c].ex /\ s2.comp[c].recv /\ s2.comp[c].ans /\ BadAnswer(s2, c)   \* :502
            THEN R([s2 EXCEPT !.disq = TRUE], <<>>, {Disq(p, d)})
            ELSE IF s2.xR /\ ~VerifyShare(s2) THEN BuildComplaint(p, d, s2) ELSE R(s2, <<>>, {})          \* :514

\* receiveComplaint (dkg_feldmanvssq.go:563)
RecvComplaint(p, d, s, o, m) ==
  IF s.ct THEN R(s, <<>>, {Flag(p, o)})                                     \* :565
  ELSE IF m.k # "ok"                                                        \* :571,586 bad size or complainee >= n
       THEN IF o = d THEN R([s EXCEPT !.disq = TRUE], <<>>, {Disq(p, o)}) ELSE R(s, <<>>, {})
  ELSE IF o = d THEN R(s, <<>>, {})                                         \* :598
  ELSE IF m.j # d THEN R(s, <<>>, {})                                       \* :603
  ELSE LET c == s.comp[o] IN
       IF ~c.ex                                                             \* :609
       THEN LET s1 == [s EXCEPT !.comp[o] = [ex |-> TRUE, recv |-> TRUE, ans |-> FALSE, aP |-> NONE]] IN
            IF p = d                                                        \* :615 the dealer answers
            THEN R([s1 EXCEPT !.comp[o].ans = TRUE], <<Answer("ok", o, s1.vP)>>, {})
            ELSE R(s1, <<>>, {})
       ELSE IF c.recv THEN R(s, <<>>, {Flag(p, o)})                         \* :622
       ELSE LET s1 == [s EXCEPT !.comp[o].recv = TRUE] IN                   \* :627
            IF s1.vA /\ c.ans /\ p # d                                      \* :629
            THEN IF BadAnswer(s1, o) THEN R([s1 EXCEPT !.disq = TRUE], <<>>, {Disq(p, d)})
                 ELSE R(s1, <<>>, {})
            ELSE R(s1, <<>>, {})

\* receiveComplaintAnswer (dkg_feldmanvssq.go:641)
RecvAnswer(p, d, s, o, m) ==
  IF o # d THEN R(s, <<>>, {})                                              \* :643
  ELSE IF m.k = "bad" THEN R([s EXCEPT !.disq = TRUE], <<>>, {Disq(p, d)})  \* :648,658
  ELSE LET j == m.j  c == s.comp[j] IN
       IF ~c.ex                                                             \* :668
       THEN LET s1 == [s EXCEPT !.comp[j] = [ex |-> TRUE, recv |-> FALSE, ans |-> TRUE, aP |-> NONE]] IN
            IF m.k = "badscalar" THEN R([s1 EXCEPT !.disq = TRUE], <<>>, {Disq(p, d)})   \* :676
            ELSE R([s1 EXCEPT !.comp[j].aP = m.P], <<>>, {})
       ELSE IF c.ans THEN R(s, <<>>, {Flag(p, o)})                          \* :686
       ELSE LET s1 == [s EXCEPT !.comp[j].ans = TRUE] IN                    \* :691
            IF ~c.recv THEN R(s1, <<>>, {})                                 \* :694 (unreachable: ex => recv \/ ans)
            ELSE IF m.k = "badscalar" THEN R([s1 EXCEPT !.disq = TRUE], <<>>, {Disq(p, d)})  \* :697
            ELSE LET s2  == [s1 EXCEPT !.comp[j].aP = m.P]
                     bad == s2.vA /\ BadAnswer(s2, j)                       \* :703
                     s3  == [s2 EXCEPT !.disq = bad]
                     s4  == IF ~bad /\ j = p THEN [s3 EXCEPT !.xP = m.P] ELSE s3   \* :713
                 IN R(s4, <<>>, IF bad THEN {Disq(p, d)} ELSE {})

\* HandleBroadcastMsg (dkg_feldmanvssq.go:258), after the running / origin-range guards
HandleB(p, d, s, o, m) ==
  IF p = o \/ s.disq THEN R(s, <<>>, {})                                    \* :272,277
  ELSE CASE m.t = "junk"      -> R(IF o = d THEN [s EXCEPT !.disq = TRUE] ELSE s, <<>>, {Disq(p, o)})  \* :281,296
         [] m.t = "share"     -> R(IF o = d THEN [s EXCEPT !.disq = TRUE] ELSE s, <<>>, {Disq(p, o)})  \* tag 0 is not a broadcast tag
         [] m.t = "vec"       -> RecvVec(p, d, s, o, m)
         [] m.t = "complaint" -> RecvComplaint(p, d, s, o, m)
         [] m.t = "answer"    -> RecvAnswer(p, d, s, o, m)

\* HandlePrivateMsg (dkg_feldmanvssq.go:314): every private message is treated as a share
HandleP(p, d, s, o, m) ==
  IF p = o \/ s.disq THEN R(s, <<>>, {}) ELSE RecvShare(p, d, s, o, m)

\* NextTimeout (dkg_feldmanvssq.go:149) with setSharesTimeout (:370) / setComplaintsTimeout (:388)
Timeout(p, d, s) ==
  IF s.disq THEN R(IF ~s.st THEN [s EXCEPT !.st = TRUE] ELSE [s EXCEPT !.ct = TRUE], <<>>, {})
  ELSE IF ~s.st
       THEN LET s1 == [s EXCEPT !.st = TRUE] IN
            IF ~s1.vA THEN R([s1 EXCEPT !.disq = TRUE], <<>>, {Disq(p, d)})
            ELSE IF ~s1.xR THEN BuildComplaint(p, d, s1) ELSE R(s1, <<>>, {})
       ELSE LET s1 == [s EXCEPT !.ct = TRUE] IN
            IF Cardinality({c \in Nodes : s1.comp[c].ex}) > T
            THEN R([s1 EXCEPT !.disq = TRUE], <<>>, {Disq(p, d)})
            ELSE R(s1, <<>>, {})

\* the per-instance part of End (dkg_feldmanvssq.go:197-209, dkg_jointfeldman.go:207-221)
EndInst(p, d, s) ==
  LET unans == \E c \in Nodes : s.comp[c].ex /\ s.comp[c].recv /\ ~s.comp[c].ans IN
  R([s EXCEPT !.disq = s.disq \/ unans], <<>>, IF ~s.disq /\ unans THEN {Disq(p, d)} ELSE {})

\* ForceDisqualify (dkg_feldmanvssq.go:352), after the guards
ForceDisq(p, d, s, i) == IF i = d THEN [s EXCEPT !.disq = TRUE] ELSE s

(* ---------------- participant = instances of all dealers, in index order ---------------- *)
InstStep(kind, p, d, s, o, m) ==
  CASE kind = "hb"  -> HandleB(p, d, s, o, m)
    [] kind = "hp"  -> HandleP(p, d, s, o, m)
    [] kind = "to"  -> Timeout(p, d, s)
    [] kind = "end" -> EndInst(p, d, s)

RECURSIVE PStep(_, _, _, _, _, _)
\* ps: [dealer -> instance state]; ds: the dealers still to visit, ascending (dkg_jointfeldman.go:173,277,297)
PStep(kind, p, ps, ds, o, m) ==
  IF ds = <<>> THEN [ps |-> ps, out |-> <<>>, fl |-> {}]
  ELSE LET d    == Head(ds)
           r    == InstStep(kind, p, d, ps[d], o, m)
           rest == PStep(kind, p, [ps EXCEPT ![d] = r.s], Tail(ds), o, m)
       IN [ps |-> rest.ps, out |-> r.out \o rest.out, fl |-> r.fl \cup rest.fl]

\* result of End at participant level.  joint = FALSE: single-dealer Qual (dkg_feldmanvssq.go:211-243);
\* joint = TRUE: Joint-Feldman failure rule and sum over qualified dealers (dkg_jointfeldman.go:226-264)
EndResult(joint, ps, dealers) ==
  LET dq  == {d \in dealers : ps[d].disq}
      nd  == Cardinality(dq)
      bad == IF joint THEN nd > T \/ N - nd <= T ELSE nd > 0
  IN [cls  |-> IF bad THEN "fail" ELSE "keys",
      disq |-> dq,
      key  |-> IF bad THEN <<>> ELSE [d \in dealers \ dq |-> ps[d].vP],
      shr  |-> IF bad THEN <<>> ELSE [d \in dealers \ dq |-> ps[d].xP]]
=============================================================================
