---------------------------- MODULE DKGNet ----------------------------
(***************************************************************************
 A network of honest participants running Feldman-VSS-Qual (Dealers = {d})
 or Joint-Feldman (Dealers = Nodes) against Byzantine participants Byz.

 Round-synchronous delivery with reliable broadcast:
   * every sender has one FIFO broadcast queue, read by every honest
     receiver through its own pointer (same sequence for everybody),
     and one FIFO private queue per receiver;
   * every queued message carries the round in which it *lands*; it lands in
     the same round at every honest receiver;  inside a round any interleaving
     of deliveries across senders and channels is possible;
   * a message emitted by an honest participant while handling a delivery in
     round r lands in round r or (Slack = 1) r+1; a message emitted by a
     timeout lands in the round that the timeout opens;
   * Byzantine participants commit, at the start of every round, the scripts
     they send in this round (any sequences over the grammar below, within a
     global budget).  Since the delivery order stays free and honest
     participants are deterministic, this is as strong as adaptive sending.
   * Advance = every honest participant takes its next timeout (rounds 1, 2)
     or calls End (round 3); enabled when everything landing in this round
     has been read by everybody.
 ***************************************************************************)
EXTENDS DKGNode, SequencesExt, TLC

CONSTANTS Dealers,     \* {d}: Feldman-VSS-Qual with dealer d;  Nodes: Joint-Feldman
          Byz,         \* Byzantine participants
          MaxB,        \* global budget of Byzantine broadcasts
          MaxP,        \* budget of Byzantine private messages per (sender, receiver)
          Slack,       \* 0 | 1
          Polys,       \* polynomial names available to a Byzantine dealer, e.g. {"P1","P2"}
          SimMode      \* TRUE: Byzantine scripts are drawn with RandomElement (for tlc -simulate)

Honest    == Nodes \ Byz
Joint     == Cardinality(Dealers) > 1
DealerSeq == SetToSortSeq(Dealers, LAMBDA a, b : a < b)

VARIABLES node,    \* [Honest -> [Dealers -> instance]]
          res,     \* [Honest -> End result | NONE]
          bq,      \* [Nodes -> Seq([m, land])]        broadcast queues (whole history, never trimmed)
          bptr,    \* [Honest -> [Nodes -> Nat]]        next entry of bq[s] to be read by p
          pq,      \* [Nodes -> [Nodes -> Seq([m, land])]]  private queues sender -> receiver
          pptr,    \* [Honest -> [Nodes -> Nat]]
          round,   \* 1..4
          phase,   \* 0: Byzantine scripts of this round not yet committed; 1: deliveries
          usedB,   \* Byzantine broadcasts sent so far
          usedP,   \* [Byz -> [Honest -> Nat]]
          blamed,  \* latch: some honest participant flagged / disqualified an honest participant
          obs,     \* output of the last step (emissions + callbacks), observation only
          last     \* the last action with its arguments, observation only

vars == <<node, res, bq, bptr, pq, pptr, round, phase, usedB, usedP, blamed, obs, last>>
\* observation-only variables are hidden from the fingerprint in exhaustive runs
View == <<node, res, bq, bptr, pq, pptr, round, phase, usedB, usedP, blamed>>

E(m, land) == [m |-> m, land |-> land]
NoObs  == [out |-> <<>>, fl |-> {}]
NoRes  == [cls |-> "none", disq |-> {}, key |-> <<>>, shr |-> <<>>]
Act(a, p, s, land, script) == [a |-> a, p |-> p, s |-> s, land |-> land, script |-> script]

\* initial values (also used by the trace specification to re-initialise between traces)
I_node  == [p \in Honest |-> [d \in Dealers |-> InitInst(p, d)]]
I_res   == [p \in Honest |-> NoRes]
\* Start(): every honest dealer has broadcast its vector and sent the shares; they land in round 1
I_bq    == [s \in Nodes |-> IF s \in Dealers /\ s \in Honest THEN <<E(Vec("ok", "H"), 1)>> ELSE <<>>]
I_pq    == [s \in Nodes |-> [p \in Nodes |->
              IF s \in Dealers /\ s \in Honest /\ p # s THEN <<E(Share("ok", "H"), 1)>> ELSE <<>>]]
I_ptr   == [p \in Honest |-> [s \in Nodes |-> 1]]
I_phase == IF Byz = {} THEN 1 ELSE 0
I_usedP == [b \in Byz |-> [p \in Honest |-> 0]]
I_last  == Act("init", -1, -1, 0, <<>>)

Init ==
  /\ node   = I_node
  /\ res    = I_res
  /\ bq     = I_bq
  /\ pq     = I_pq
  /\ bptr   = I_ptr
  /\ pptr   = I_ptr
  /\ round  = 1
  /\ phase  = I_phase
  /\ usedB  = 0
  /\ usedP  = I_usedP
  /\ blamed = FALSE
  /\ obs    = NoObs
  /\ last   = I_last

HonestBlame(fl) == \E f \in fl : f[2] \in Honest /\ f[3] \in Honest

LastLand(p) == IF bq[p] = <<>> THEN 0 ELSE bq[p][Len(bq[p])].land
\* landing rounds available to what p emits while handling a delivery in the current round
LandChoices(p) == {x \in round..(round + Slack) : x >= LastLand(p) /\ x <= 3}

Stamp(out, land) == [i \in 1..Len(out) |-> E(out[i], land)]

DeliverB(p, s) ==
  /\ round \in 1..3 /\ phase = 1
  /\ bptr[p][s] <= Len(bq[s])
  /\ bq[s][bptr[p][s]].land = round
  /\ LET r == PStep("hb", p, node[p], DealerSeq, s, bq[s][bptr[p][s]].m) IN
     \E land \in (IF r.out = <<>> THEN {round} ELSE LandChoices(p)) :
       /\ node'   = [node EXCEPT ![p] = r.ps]
       /\ bq'     = [bq EXCEPT ![p] = @ \o Stamp(r.out, land)]
       /\ blamed' = (blamed \/ HonestBlame(r.fl))
       /\ obs'    = [out |-> r.out, fl |-> r.fl]
       /\ last'   = Act("db", p, s, land, <<>>)
  /\ bptr' = [bptr EXCEPT ![p][s] = @ + 1]
  /\ UNCHANGED <<res, pq, pptr, round, phase, usedB, usedP>>

DeliverP(p, s) ==
  /\ round \in 1..3 /\ phase = 1
  /\ pptr[p][s] <= Len(pq[s][p])
  /\ pq[s][p][pptr[p][s]].land = round
  /\ LET r == PStep("hp", p, node[p], DealerSeq, s, pq[s][p][pptr[p][s]].m) IN
     \E land \in (IF r.out = <<>> THEN {round} ELSE LandChoices(p)) :
       /\ node'   = [node EXCEPT ![p] = r.ps]
       /\ bq'     = [bq EXCEPT ![p] = @ \o Stamp(r.out, land)]
       /\ blamed' = (blamed \/ HonestBlame(r.fl))
       /\ obs'    = [out |-> r.out, fl |-> r.fl]
       /\ last'   = Act("dp", p, s, land, <<>>)
  /\ pptr' = [pptr EXCEPT ![p][s] = @ + 1]
  /\ UNCHANGED <<res, pq, bptr, round, phase, usedB, usedP>>

(* ---------------- Byzantine grammar ---------------- *)
ByzBcastMsgs(b) ==
     (IF b \in Dealers
      THEN {Vec("ok", P) : P \in Polys} \cup {Vec("bad", NONE)}
           \cup {Answer("ok", j, P) : j \in Nodes \ {b}, P \in Polys}
           \cup {Answer("badscalar", j, NONE) : j \in Nodes \ {b}}
           \cup {Answer("bad", -1, NONE)}
      ELSE \* unsolicited dealer-type messages from a participant that is not a dealer (ignored by the code: origin # dealer)
           {Vec("ok", "P1"), Answer("ok", CHOOSE j \in Nodes : j # b, "P1"), Answer("bad", -1, NONE)})
  \cup {Complaint("ok", d) : d \in Dealers \ {b}}
  \cup (IF Joint THEN {} ELSE {Complaint("ok", CHOOSE j \in Nodes : j \notin Dealers /\ j # b)})   \* a complaint against a non-dealer
  \cup {Complaint("bad", -1), Junk("empty")}

ByzPrivMsgs(b) == IF b \in Dealers THEN {Share("ok", P) : P \in Polys} \cup {Share("bad", NONE)}
                  ELSE {Share("ok", "P1")}      \* a share from a participant that is not a dealer (ignored)

SeqsUpTo(S, k) == UNION {[1..n -> S] : n \in 0..k}
RandSeq(S, k)  == IF S = {} \/ k <= 0 THEN <<>>
                  ELSE LET n == RandomElement(0..k) IN [i \in 1..n |-> RandomElement(S)]

\* the scripts of one round: [b -> [bc |-> Seq(msg), pv |-> [Honest -> Seq(msg)]]]
BLen(sc) == LET RECURSIVE Sum(_)
                Sum(S) == IF S = {} THEN 0 ELSE LET b == CHOOSE x \in S : TRUE IN Len(sc[b].bc) + Sum(S \ {b})
            IN Sum(Byz)

ScriptOK(sc) ==
  /\ usedB + BLen(sc) <= MaxB
  /\ \A b \in Byz, p \in Honest : usedP[b][p] + Len(sc[b].pv[p]) <= MaxP

Commit(sc) ==
  /\ bq'    = [s \in Nodes |-> IF s \in Byz THEN bq[s] \o Stamp(sc[s].bc, round) ELSE bq[s]]
  /\ pq'    = [s \in Nodes |-> IF s \in Byz
                               THEN [p \in Nodes |-> IF p \in Honest THEN pq[s][p] \o Stamp(sc[s].pv[p], round)
                                                                    ELSE pq[s][p]]
                               ELSE pq[s]]
  /\ usedB' = usedB + BLen(sc)
  /\ usedP' = [b \in Byz |-> [p \in Honest |-> usedP[b][p] + Len(sc[b].pv[p])]]
  /\ last'  = Act("byz", -1, -1, round, sc)

ScriptsOf(b) == [bc : SeqsUpTo(ByzBcastMsgs(b), MaxB - usedB),
                 pv : [Honest -> SeqsUpTo(ByzPrivMsgs(b), MaxP)]]

\* the Byzantine participants put the scripts sc of this round on the wire
ByzCommit(sc) ==
  /\ round \in 1..3 /\ phase = 0
  /\ Commit(sc)
  /\ phase' = 1
  /\ obs'   = NoObs
  /\ UNCHANGED <<node, res, bptr, pptr, round, blamed>>

ByzScript ==
  IF SimMode
  THEN LET sc == [b \in Byz |-> [bc |-> RandSeq(ByzBcastMsgs(b), (MaxB - usedB) \div Cardinality(Byz)),
                                 pv |-> [p \in Honest |-> RandSeq(ByzPrivMsgs(b), MaxP - usedP[b][p])]]]
       IN ByzCommit(sc)
  ELSE IF Cardinality(Byz) = 1
  THEN LET b == CHOOSE x \in Byz : TRUE IN
       \E s \in ScriptsOf(b) : ScriptOK(b :> s) /\ ByzCommit(b :> s)
  ELSE \E sc \in [Byz -> UNION {ScriptsOf(b) : b \in Byz}] :
         /\ \A b \in Byz : sc[b] \in ScriptsOf(b)
         /\ ScriptOK(sc)
         /\ ByzCommit(sc)

\* everything that lands in this round has been read by every honest participant
Quiet == \A p \in Honest, s \in Nodes :
           /\ (bptr[p][s] <= Len(bq[s])    => bq[s][bptr[p][s]].land > round)
           /\ (pptr[p][s] <= Len(pq[s][p]) => pq[s][p][pptr[p][s]].land > round)

RECURSIVE ApplyAll(_, _, _, _, _, _, _)
\* every honest participant, in index order, takes its timeout (isEnd = FALSE) or ends (isEnd = TRUE)
ApplyAll(S, nd, q, fl, out, isEnd, land) ==
  IF S = {} THEN [nd |-> nd, q |-> q, fl |-> fl, out |-> out]
  ELSE LET p == CHOOSE x \in S : \A y \in S : x <= y
           r == PStep(IF isEnd THEN "end" ELSE "to", p, nd[p], DealerSeq, -1, NONE)
       IN ApplyAll(S \ {p}, [nd EXCEPT ![p] = r.ps], [q EXCEPT ![p] = @ \o Stamp(r.out, land)],
                   fl \cup r.fl, out \o r.out, isEnd, land)

Advance ==
  /\ round \in 1..3 /\ phase = 1 /\ Quiet
  /\ LET a == ApplyAll(Honest, node, bq, {}, <<>>, round = 3, round + 1) IN
     /\ node'   = a.nd
     /\ bq'     = a.q
     /\ blamed' = (blamed \/ HonestBlame(a.fl))
     /\ obs'    = [out |-> a.out, fl |-> a.fl]
     /\ res'    = IF round = 3 THEN [p \in Honest |-> EndResult(Joint, a.nd[p], Dealers)] ELSE res
  /\ round' = round + 1
  /\ phase' = IF Byz = {} \/ round = 3 THEN 1 ELSE 0
  /\ last'  = Act("adv", -1, -1, round + 1, <<>>)
  /\ UNCHANGED <<bptr, pq, pptr, usedB, usedP>>

Next ==
  \/ \E p \in Honest, s \in Nodes : DeliverB(p, s) \/ DeliverP(p, s)
  \/ ByzScript
  \/ Advance
  \/ (round = 4 /\ UNCHANGED vars)      \* terminal stuttering (keeps tlc -simulate going)

Spec == Init /\ [][Next]_vars

(* ---------------- history oracles (functions of the queues only, not of any node state) ---------------- *)
\* index of the first entry of sender d's broadcast queue satisfying Pred, 0 if none
FirstIdx(q, Pred(_)) ==
  IF \E i \in 1..Len(q) : Pred(q[i]) THEN CHOOSE i \in 1..Len(q) : Pred(q[i]) /\ \A k \in 1..(i-1) : ~Pred(q[k]) ELSE 0

IsVec(e) == e.m.t = "vec"
\* the vector every honest participant holds for dealer d: the first one broadcast, if it lands in round 1 and is well-formed
AcceptedVec(d) ==
  LET i == FirstIdx(bq[d], IsVec) IN
  IF i = 0 THEN NONE
  ELSE IF bq[d][i].land > 1 \/ bq[d][i].m.k # "ok" THEN NONE ELSE bq[d][i].m.P

\* participants whose well-formed complaint against d landed before the complaints timeout
Complainers(d) == {o \in Nodes \ {d} : \E i \in 1..Len(bq[o]) :
                      bq[o][i].m.t = "complaint" /\ bq[o][i].m.k = "ok" /\ bq[o][i].m.j = d /\ bq[o][i].land <= 2}

\* d's first answer addressed to complainer j (whenever it landed, before End)
FirstAnswer(d, j) ==
  LET i == FirstIdx(bq[d], LAMBDA e : e.m.t = "answer" /\ e.m.k # "bad" /\ e.m.j = j) IN
  IF i = 0 THEN Msg("none", NONE, NONE, -1) ELSE bq[d][i].m

\* the conditions under which the property demands that d be disqualified by every honest participant
DealtBadly(d) ==
  \/ AcceptedVec(d) = NONE                                            \* vector missing, late or malformed
  \/ Cardinality(Complainers(d)) > T                                  \* more than t complaints
  \/ \E j \in Complainers(d) \cap Honest :                            \* an honest complaint ...
       LET a == FirstAnswer(d, j) IN
       \/ a.t = "none"                                                 \* ... left unanswered
       \/ a.k # "ok" \/ a.P # AcceptedVec(d)                          \* ... or wrongly answered

(* ---------------- properties (over honest participants only) ---------------- *)
Done == round = 4

Agreement      == Done => \A p, q \in Honest : res[p].cls = res[q].cls /\ res[p].disq = res[q].disq      \* C07
KeysConsistent == Done => \A p, q \in Honest : res[p].cls = "keys" =>                                     \* C07
                     /\ res[p].key = res[q].key
                     /\ res[p].shr = res[p].key          \* own share lies on the committed polynomial, per dealer
NoHonestBlamed == ~blamed                                                                                  \* C08
HonestDealerQualified == Done => \A d \in Dealers \cap Honest : \A p \in Honest : d \notin res[p].disq     \* C08
BadDealerDisqualified == Done => \A d \in Dealers : DealtBadly(d) => \A p \in Honest : d \in res[p].disq   \* C08

\* composition lemma (justifies carrying single-dealer results over to Joint-Feldman):
\* a delivery from sender s changes, at the receiver, only instances d for which the message is relevant
OnlyRelevantInstance ==
  [][\A p \in Honest : \A d \in Dealers :
        (last'.a \in {"db", "dp"} /\ node'[p][d] # node[p][d]) =>
           /\ last'.p = p
           /\ \/ last'.s = d                                             \* sent by the dealer of the instance
              \/ last'.a = "db" /\ bq[last'.s][bptr[p][last'.s]].m.t = "complaint"
                                /\ bq[last'.s][bptr[p][last'.s]].m.j = d ]_vars

\* the complaints map only grows; timeouts are taken in order; a disqualified instance stays disqualified
Monotone ==
  [][\A p \in Honest : \A d \in Dealers :
        /\ node[p][d].disq => node'[p][d].disq
        /\ node[p][d].st => node'[p][d].st
        /\ node[p][d].ct => node'[p][d].ct
        /\ node'[p][d].ct => node'[p][d].st
        /\ \A c \in Nodes : /\ node[p][d].comp[c].ex   => node'[p][d].comp[c].ex
                            /\ node[p][d].comp[c].recv => node'[p][d].comp[c].recv
                            /\ node[p][d].comp[c].ans  => node'[p][d].comp[c].ans ]_vars

\* an honest participant broadcasts at most one complaint per dealer (D1)
OneComplaintPerCause ==
  \A p \in Honest : \A d \in Dealers :
     Cardinality({i \in 1..Len(bq[p]) : bq[p][i].m.t = "complaint" /\ bq[p][i].m.j = d}) <= 1

(* ---------------- liveness and refinement ---------------- *)
\* with weak fairness on the protocol steps every run reaches End at every honest participant: the round structure cannot
\* be blocked by Byzantine messages (checked without a state constraint, see MC configs)
FairSpec    == Spec /\ WF_vars(Next)
Termination == <>(round = 4)

\* Refinement: the network implements the ideal "verifiable dealing" functionality in which ONE verdict per dealer and ONE
\* key exist.  Abstract state: verdict[d] \in {"undecided", "qualified", "disqualified"} and the committed polynomial of every
\* qualified dealer; it is undecided until the end and then fixed for good.  The mapping reads them off ANY honest participant
\* (Agreement makes the choice immaterial; the refinement check fails if two honest participants could be mapped differently).
AnyHonest == CHOOSE p \in Honest : TRUE
AbsVerdict == [d \in Dealers |-> IF round < 4 THEN "undecided"
                                   ELSE IF d \in res[AnyHonest].disq THEN "disqualified" ELSE "qualified"]
AbsCommit  == [d \in Dealers |-> IF round < 4 \/ d \in res[AnyHonest].disq THEN NONE ELSE node[AnyHonest][d].vP]
Ideal == INSTANCE IdealDealing WITH verdict <- AbsVerdict, commit <- AbsCommit, honestDealers <- Dealers \cap Honest
RefinesIdeal == Ideal!Spec
\* every honest participant maps to the same abstract state
MappingIndependent == \A p \in Honest : round = 4 =>
                         /\ res[p].disq = res[AnyHonest].disq
                         /\ \A d \in Dealers \ res[p].disq : node[p][d].vP = node[AnyHonest][d].vP

TypeOK ==
  /\ round \in 1..4 /\ phase \in {0, 1}
  /\ \A p \in Honest : \A d \in Dealers : node[p][d].ct => node[p][d].st
=============================================================================
